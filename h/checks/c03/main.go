// C03: a committed state root is durable, complete and never invalidates older roots.
//
// E3(i) crash-prefix enumeration.  The account database is given a harness-owned recording
// implementation of the repository's db.Database interface (map + ordered log of physical writes;
// every Batch.Write is ONE atomic log element).  A history is a short sequence of "blocks"
// (templates of account mutations) committed through the production path
//
//	state := account.NewAccountDB(parentRoot, live); ...ops...; root := state.Commit(true); live.TrieDB().Commit(root,false)
//
// on ONE shared account.AccountDatabase (as the chain does).  After every block the acknowledged root
// and a model snapshot (plain maps) are remembered.  Then, for EVERY prefix of the write log, the
// disk image is rebuilt and opened with a brand-new account.NewDatabase (empty caches) and
//
//	(a) every root acknowledged at or before that prefix must be fully walkable (account trie, every
//	    storage trie, every code blob) and equal to its model snapshot;
//	(b) every not-yet-acknowledged root whose top node is on disk must be fully walkable and equal to its snapshot;
//	(c) no log element overwrites a key with different bytes, none deletes.
//
// A second pass enumerates write FAULTS: for every physical write of a history, that write returns an
// error once (nothing written), the harness re-issues the commit of the same state object as the
// chain does when a block is added again, and every root whose commit finally reported success must
// be durable and complete on the final disk image.
package main

import (
	"bytes"
	"encoding/binary"
	"encoding/hex"
	"encoding/json"
	"errors"
	"fmt"
	"math/big"
	"runtime"
	"runtime/debug"
	"sort"
	"strings"
	"time"

	"verif/h/fw"
	"verif/h/fw/mapiter"
	"verif/h/node"

	"com.tuntun.rangers/node/src/common"
	crypto "com.tuntun.rangers/node/src/eth_crypto"
	xdb "com.tuntun.rangers/node/src/middleware/db"
	"com.tuntun.rangers/node/src/storage/account"
	"com.tuntun.rangers/node/src/storage/rlp"
	"com.tuntun.rangers/node/src/storage/trie"

	"github.com/syndtr/goleveldb/leveldb"
	"github.com/syndtr/goleveldb/leveldb/iterator"
)

// ---------------------------------------------------------------------------------------------
// universe

const nAcct = 5 // A0..A2 ordinary accounts, A3/A4 only touched by the oversized block

var (
	accts = [nAcct]common.Address{
		common.HexToAddress("0x1100000000000000000000000000000000000001"),
		common.HexToAddress("0x1100000000000000000000000000000000000002"), // shares 39 nibbles with A0
		common.HexToAddress("0x2200000000000000000000000000000000000003"),
		common.HexToAddress("0x2300000000000000000000000000000000000004"),
		common.HexToAddress("0x3000000000000000000000000000000000000005"),
	}
	emptyRoot     = common.HexToHash("56e81f171bcc55a6ff8345e692c0f86e5b48e01b996cadc001622fb5e363b421")
	emptyCodeKecc = crypto.Keccak256Hash(nil) // hash the repository stores for zero-length code
	emptyCodeSha3 = common.HexToHash("a7ffc6f8bf1ed76651c14756a061d662f580ff4de43b49fa82d80a4b80f8434a")

	// slot keys: K0/K1 share 63 nibbles (extension + branch), K2 far away, S0/S1 one byte (embedded nodes)
	slotKeys = map[string][]byte{
		"K0": word(1), "K1": word(2), "K2": append([]byte{0x80}, word(3)[1:]...),
		"S0": {0x61}, "S1": {0x62},
		"KX": word(99), // never written: the "absent slot" of the read operations
		// relational, variable-length keys (SetData takes any []byte; FT balances live under "f:"+name):
		// strict prefixes of one another (=> values in the value slot of branch nodes), the empty key,
		// neighbours in the last / first nibble of S0, and 40-byte keys with the same relations
		"P0": []byte("f:tok"), "P1": []byte("f:tok.w"), "P2": []byte("f:tok.w.x"), "E": {},
		"N0": {0x60}, "N1": {0x71},
		"L0": append(bytes.Repeat([]byte{0x11}, 39), 0x01), "L1": append(bytes.Repeat([]byte{0x11}, 39), 0x02),
		"L2": append([]byte{0x21}, append(bytes.Repeat([]byte{0x11}, 38), 0x01)...),
	}
	slotVals = map[string][]byte{
		"VA": bytes.Repeat([]byte{0xaa}, 32), "VB": bytes.Repeat([]byte{0xbb}, 32), "vs": {0x07},
		"VL":  bytes.Repeat([]byte{0xcd}, 700), // long value: one node of > 512 bytes
		"V40": bytes.Repeat([]byte{0x40}, 40),  // with "vs": hashed vs embedded children / branch values
	}
	codes = map[string][]byte{}
)

func word(v int64) []byte { return common.BigToHash(big.NewInt(v)).Bytes() }

func init() {
	codes["c100a"] = patt(100, 1)
	codes["c100b"] = patt(100, 2)
	codes["empty"] = []byte{}
	for i := 0; i < 12; i++ {
		codes[fmt.Sprintf("c24k%d", i)] = patt(24*1024, byte(10+i))
	}
}

func patt(n int, seed byte) []byte {
	b := make([]byte, n)
	x := uint32(seed)*2654435761 + 12345
	for i := range b {
		x = x*1664525 + 1013904223
		b[i] = byte(x >> 24)
	}
	b[0] = 0x60 // looks like a PUSH1
	return b
}

// bigSlotKey / bigSlotVal generate the slots of the oversized block.
func bigSlotKey(i int) []byte {
	var k [4]byte
	binary.BigEndian.PutUint32(k[:], uint32(i+1)*2654435761)
	return k[:]
}
func bigSlotVal(i int, gen int) []byte {
	v := bytes.Repeat([]byte{byte(i), byte(i >> 8), byte(gen), 0x5a}, 8)
	return v
}

// ---------------------------------------------------------------------------------------------
// alphabet: operations, block templates, histories

type Op struct {
	K    string `json:"k"`              // nonce | slot | code | suicide | bal | bigslots | ft (Key = token name, N = amount, Val = set|add: SetFT / AddFT of a token without ERC20 binding) | read (Val: exist|nonce|codehash|code|absent|bal) | snap (Snapshot) | revert (RevertToSnapshot of the innermost open snapshot)
	A    int    `json:"a"`              // account index
	N    uint64 `json:"n,omitempty"`    // nonce / balance / number of big slots
	Key  string `json:"key,omitempty"`  // slot key name
	Val  string `json:"val,omitempty"`  // slot value name ("" = clear)
	Code string `json:"code,omitempty"` // code name
	Gen  int    `json:"gen,omitempty"`  // generation of big slot values
}

type Block struct {
	T      string `json:"t"`      // template name
	Parent int    `json:"parent"` // index of the block whose root is the parent state, -1 = empty state
	Ops    []Op   `json:"ops"`
	// Disk: what happens to the block after its state.Commit: "" = TrieDB().Commit(root) (acknowledged
	// when it reports success); "fail" = TrieDB().Commit is issued but every write of it returns an
	// error (saveStates returns false, the block is given up); "skip" = never issued (abandoned fork
	// block).  Such a state stays in the shared in-memory node database, is never acknowledged and
	// is not used as a parent; its sibling blocks are.
	Disk string `json:"disk,omitempty"`
}

type History struct {
	Blocks []Block `json:"blocks"`
	// Fin: what every block of the history does between its mutations and the trie-database commit
	// (see finVariants); "" = nothing, state.Commit(true) once.
	Fin string `json:"fin,omitempty"`
}

// finVariants: the finalisation calls the node / the exported API allow before a state commit.
//
//	ir1 / ir0     IntermediateRoot(true/false), then Commit(true)  (ir1 = what the block executor + AddBlockOnChain do)
//	fin1 / fin0   Finalise(true/false), then Commit(true)
//	ir-each       IntermediateRoot(true) after every mutation (as after every transaction: more mutations
//	              follow an IntermediateRoot and another one follows them), then Commit(true)
//	twice         Commit(true) called twice, the second root goes to the trie database
//	commit0       Commit(false)
var finVariants = []string{"", "ir1", "ir0", "fin1", "fin0", "ir-each", "twice", "commit0"}

// sigSuffix labels violations of histories that contain a never-acknowledged sibling state.
func (h History) sigSuffix() string {
	for _, b := range h.Blocks {
		if b.Disk != "" {
			return ":after-unacked-sibling-" + b.Disk
		}
	}
	return ""
}

func (h History) name() string {
	var s []string
	for _, b := range h.Blocks {
		d := ""
		if b.Disk != "" {
			d = "!" + b.Disk
		}
		s = append(s, fmt.Sprintf("%s<%d%s", b.T, b.Parent, d))
	}
	n := strings.Join(s, ",")
	if h.Fin != "" {
		n += "/" + h.Fin
	}
	return n
}

// execBlock applies the operations of one block and the finalisation calls of the variant.
func execBlock(st *account.AccountDB, ops []Op, fin string) {
	var snapIDs []int
	for _, o := range ops {
		applyReal(st, o, &snapIDs)
		// the journal is cleared by Finalise: like the executors, only finalise outside snapshots
		if fin == "ir-each" && len(snapIDs) == 0 && o.K != "revert" && o.K != "read" {
			st.IntermediateRoot(true)
		}
	}
	switch fin {
	case "ir1", "ir-each":
		st.IntermediateRoot(true)
	case "ir0":
		st.IntermediateRoot(false)
	case "fin1":
		st.Finalise(true)
	case "fin0":
		st.Finalise(false)
	}
}

// commitState is the state commit of the variant.
func commitState(st *account.AccountDB, fin string) (common.Hash, error) {
	del := fin != "commit0"
	r, err := st.Commit(del)
	if err == nil && fin == "twice" {
		r, err = st.Commit(del)
	}
	return r, err
}

type tmpl struct {
	name string
	ops  []Op
	big  bool
}

// Every template that writes to one of the ordinary accounts A0..A2 (slot / code) also gives it a
// positive nonce in the same block: a DIRTY account object with nonce 0, no code and none of its
// slots cached is deleted by Commit(true) even if it has storage (C02/C04 territory, deliberately
// kept out of this model).  The storage-only accounts A3/A4 are therefore only created, extended
// and loaded (see the S/R templates).
func templates(thorough bool) []tmpl {
	big := []Op{}
	for i := 0; i < nAcct; i++ {
		big = append(big, Op{K: "nonce", A: i, N: 40}, Op{K: "code", A: i, Code: fmt.Sprintf("c24k%d", i)})
	}
	big = append(big, Op{K: "bigslots", A: 0, N: 300, Gen: 1})
	t := []tmpl{
		{name: "T0", ops: []Op{{K: "nonce", A: 0, N: 1}, {K: "slot", A: 0, Key: "K0", Val: "VA"}}},
		{name: "T1", ops: []Op{{K: "nonce", A: 1, N: 2}, {K: "code", A: 1, Code: "c100a"},
			{K: "slot", A: 1, Key: "K0", Val: "VA"}, {K: "slot", A: 1, Key: "K1", Val: "VB"}}},
		{name: "T2", ops: []Op{{K: "nonce", A: 0, N: 3}, {K: "slot", A: 0, Key: "K0"}, {K: "slot", A: 0, Key: "K2", Val: "VB"},
			{K: "nonce", A: 2, N: 1}}},
		{name: "T3", ops: []Op{{K: "suicide", A: 1}, {K: "bal", A: 2, N: 5}}},
		{name: "T4", ops: []Op{{K: "nonce", A: 0, N: 4}, {K: "code", A: 0, Code: "c100a"},
			{K: "nonce", A: 2, N: 2}, {K: "code", A: 2, Code: "c100b"},
			{K: "slot", A: 2, Key: "S0", Val: "vs"}, {K: "slot", A: 2, Key: "S1", Val: "vs"}}},
		{name: "T5", ops: []Op{{K: "nonce", A: 1, N: 5}, {K: "slot", A: 1, Key: "K0", Val: "VA"},
			{K: "bal", A: 0, N: 7}, {K: "bal", A: 2, N: 0}}},
		{name: "BIG", ops: big, big: true},
		{name: "T7", ops: []Op{{K: "suicide", A: 0}, {K: "nonce", A: 2, N: 9}, {K: "code", A: 2, Code: "empty"},
			{K: "slot", A: 2, Key: "S0"}}},
	}
	// In-block journal activity before the commit (Snapshot / RevertToSnapshot as the executors use
	// them around every transaction and call frame); the model snapshot is the post-revert state.
	sn, rv := Op{K: "snap"}, Op{K: "revert"}
	t = append(t,
		// op(v1); Snapshot; op(v2); Revert -- for code, a slot (overwritten), a new slot, the nonce
		tmpl{name: "J1", ops: []Op{{K: "nonce", A: 0, N: 11}, {K: "code", A: 0, Code: "c100a"}, {K: "slot", A: 0, Key: "K0", Val: "VA"},
			sn, {K: "code", A: 0, Code: "c100b"}, {K: "slot", A: 0, Key: "K0", Val: "VB"}, {K: "slot", A: 0, Key: "K1", Val: "VA"},
			{K: "nonce", A: 0, N: 12}, rv}},
		// Snapshot; op(v1); Revert; op(v2) -- incl. an account creation that is reverted and done again
		tmpl{name: "J2", ops: []Op{sn, {K: "nonce", A: 1, N: 21}, {K: "code", A: 1, Code: "c100b"}, {K: "slot", A: 1, Key: "K0", Val: "VB"}, rv,
			{K: "nonce", A: 1, N: 22}, {K: "code", A: 1, Code: "c100a"}, {K: "slot", A: 1, Key: "K1", Val: "VA"}}},
		// nested: Snapshot; op; Snapshot; op (slot cleared, code replaced, account destroyed); Revert inner
		tmpl{name: "J3", ops: []Op{{K: "nonce", A: 2, N: 31}, sn, {K: "slot", A: 2, Key: "S0", Val: "vs"}, {K: "code", A: 2, Code: "c100b"},
			sn, {K: "slot", A: 2, Key: "S0"}, {K: "slot", A: 2, Key: "S1", Val: "vs"}, {K: "code", A: 2, Code: "c100a"}, {K: "suicide", A: 2}, rv}},
		// everything reverted on accounts the block does not change otherwise (creation, code, slot,
		// destruction, balance), then one surviving balance change
		tmpl{name: "J4", ops: []Op{sn, {K: "nonce", A: 0, N: 41}, {K: "code", A: 0, Code: "c24k0"}, {K: "slot", A: 0, Key: "K2", Val: "VB"},
			{K: "suicide", A: 1}, {K: "bal", A: 2, N: 9}, rv, {K: "bal", A: 1, N: 4}}},
	)
	// Relational storage keys: prefix chains (one key a strict prefix of another: the shorter one is
	// stored in the VALUE slot of a branch node), the empty key, nibble neighbours, 1-byte and 40-byte
	// keys x 1-byte and 40-byte values (embedded vs hashed), in two accounts; overwrite and removal of
	// the prefix key and of the longer keys in later blocks; the same key space through SetFT / AddFT.
	sl := func(a int, k, v string) Op { return Op{K: "slot", A: a, Key: k, Val: v} }
	t = append(t,
		tmpl{name: "KA", ops: []Op{{K: "nonce", A: 0, N: 101}, sl(0, "P0", "vs"), sl(0, "P1", "V40"), sl(0, "P2", "vs"),
			{K: "nonce", A: 2, N: 101}, sl(2, "P0", "V40"), sl(2, "P1", "vs"), sl(2, "E", "vs"), sl(2, "S0", "vs"), sl(2, "N0", "V40"), sl(2, "N1", "vs")}},
		tmpl{name: "KB", ops: []Op{{K: "nonce", A: 0, N: 103}, sl(0, "P0", ""), sl(0, "P2", "V40"), sl(0, "L0", "vs"), sl(0, "L1", "V40"), sl(0, "L2", "vs"),
			{K: "nonce", A: 2, N: 103}, sl(2, "E", ""), sl(2, "P1", ""), sl(2, "P0", "vs")}},
		tmpl{name: "KF", ops: []Op{{K: "nonce", A: 1, N: 105}, {K: "ft", A: 1, Key: "tok", N: 7, Val: "set"}, {K: "ft", A: 1, Key: "tok.w", N: 9, Val: "set"},
			{K: "ft", A: 1, Key: "tok.w.x", N: 300, Val: "add"}, {K: "ft", A: 1, Key: "tok", N: 5, Val: "add"}}},
	)
	if thorough {
		t = append(t,
			tmpl{name: "KC", ops: []Op{{K: "nonce", A: 0, N: 104}, sl(0, "P1", ""), sl(0, "P0", "V40"), sl(0, "E", "V40"), sl(0, "N0", "vs"),
				{K: "nonce", A: 2, N: 104}, sl(2, "P2", "V40"), sl(2, "P0", ""), sl(2, "L0", "V40"), sl(2, "L2", "V40")}},
		)
	}
	// control for the sibling dimension: two accounts with the same code and the same storage
	// contents (=> one code blob, one storage trie, two parents) inside ONE state
	t = append(t, tmpl{name: "SH", ops: []Op{{K: "nonce", A: 0, N: 111}, {K: "code", A: 0, Code: "c100a"}, sl(0, "K0", "VA"), sl(0, "K1", "VB"),
		{K: "nonce", A: 1, N: 111}, {K: "code", A: 1, Code: "c100a"}, sl(1, "K0", "VA"), sl(1, "K1", "VB")}})
	// Durable storage-only accounts (nonce 0, no code, real storage: what every funded-but-silent
	// account, token binding and escrow account looks like; the balance-keeping account written by
	// "bal" is one, too) and blocks that merely LOAD them -- no write, no slot of theirs cached --
	// while changing something else.  A3/A4 are reserved for this family: apart from these templates
	// only the oversized blocks (which give them a positive nonce) touch them.
	rd := func(a int, what string) Op { return Op{K: "read", A: a, Val: what, Key: "KX"} }
	t = append(t,
		tmpl{name: "S1", ops: []Op{{K: "slot", A: 3, Key: "K0", Val: "VA"}, {K: "slot", A: 3, Key: "K1", Val: "VB"},
			{K: "slot", A: 4, Key: "S0", Val: "vs"}}},
		tmpl{name: "R1", ops: []Op{rd(3, "exist"), rd(3, "nonce"), rd(3, "codehash"), rd(3, "code"), rd(3, "absent"),
			rd(4, "absent"), rd(4, "bal"), {K: "nonce", A: 0, N: 91}, {K: "slot", A: 0, Key: "K0", Val: "VB"}}},
	)
	if thorough {
		t = append(t,
			// a single Exist / GetNonce, the other change being a balance (touches the balance-keeping account)
			tmpl{name: "R2", ops: []Op{rd(3, "exist"), rd(4, "nonce"), {K: "bal", A: 1, N: 6}}},
			// more storage on an existing storage-only account, reads on the other one
			tmpl{name: "S2", ops: []Op{{K: "slot", A: 3, Key: "K2", Val: "VL"}, rd(4, "codehash"), rd(3, "bal")}},
		)
	}
	if thorough {
		t = append(t,
			// inner revert, more changes, outer revert; a different account survives
			tmpl{name: "J5", ops: []Op{sn, {K: "nonce", A: 0, N: 51}, {K: "slot", A: 0, Key: "K0", Val: "VA"}, sn, {K: "slot", A: 0, Key: "K0", Val: "VB"}, rv,
				{K: "code", A: 0, Code: "c100a"}, rv, {K: "nonce", A: 2, N: 52}, {K: "slot", A: 2, Key: "K0", Val: "VL"}}},
			// a reverted code change on an account that may carry code from an older block
			tmpl{name: "J6", ops: []Op{{K: "nonce", A: 1, N: 61}, sn, {K: "code", A: 1, Code: "c100b"}, {K: "slot", A: 1, Key: "K0"}, rv,
				{K: "slot", A: 1, Key: "K2", Val: "VA"}}},
			// reverted creation, then a real destruction; a reverted 24 KB code on another account
			tmpl{name: "J7", ops: []Op{sn, {K: "nonce", A: 0, N: 71}, rv, {K: "suicide", A: 0}, {K: "nonce", A: 2, N: 72}, sn, {K: "code", A: 2, Code: "c24k1"}, rv}},
			// 24 KB code set, replaced inside a snapshot, reverted
			tmpl{name: "J8", ops: []Op{{K: "nonce", A: 0, N: 81}, {K: "code", A: 0, Code: "c24k2"}, sn, {K: "code", A: 0, Code: "c24k3"},
				{K: "bigslots", A: 0, N: 40, Gen: 3}, rv}},
		)
	}
	if thorough {
		big2 := []Op{}
		for i := 0; i < nAcct; i++ {
			big2 = append(big2, Op{K: "nonce", A: i, N: 41})
		}
		// 9 x 24 KB of code over 5 accounts is impossible (one code per account): rewrite 4 codes,
		// re-use one (shared blob) and rewrite all 300 slots plus 100 new ones => 3+ batches
		big2 = append(big2, Op{K: "code", A: 0, Code: "c24k5"}, Op{K: "code", A: 1, Code: "c24k6"},
			Op{K: "code", A: 2, Code: "c24k7"}, Op{K: "code", A: 3, Code: "c24k8"}, Op{K: "code", A: 4, Code: "c24k5"},
			Op{K: "bigslots", A: 0, N: 400, Gen: 2}, Op{K: "bigslots", A: 3, N: 300, Gen: 1})
		t = append(t,
			tmpl{name: "T8", ops: []Op{{K: "nonce", A: 2, N: 6}, {K: "slot", A: 2, Key: "K1", Val: "VL"},
				{K: "slot", A: 2, Key: "K0", Val: "VA"}, {K: "code", A: 2, Code: "c100a"}}},
			tmpl{name: "T9", ops: []Op{{K: "nonce", A: 1, N: 7}, {K: "slot", A: 1, Key: "K0"}, {K: "slot", A: 1, Key: "K1"},
				{K: "bal", A: 1, N: 3}}},
			tmpl{name: "T10", ops: []Op{{K: "suicide", A: 2}, {K: "suicide", A: 0}, {K: "nonce", A: 1, N: 8},
				{K: "code", A: 1, Code: "c24k0"}}},
			tmpl{name: "BIG2", ops: big2, big: true},
		)
	}
	return t
}

func hasJournal(ops []Op) bool {
	for _, o := range ops {
		if o.K == "snap" {
			return true
		}
	}
	return false
}

func init() {
	// Template sanity (journal-aware, done by running the model): nothing touches an account after the
	// block destroyed it, every revert has an open snapshot, and every account left with storage or
	// code by a template also gets a positive nonce from it (see templates()).
	for _, t := range templates(true) {
		for _, allExist := range []bool{false, true} {
			m := newModel()
			if allExist {
				for i := range m.A {
					m.A[i].Nonce = 1
				}
			}
			m.beginBlock()
			touched := [nAcct]bool{}
			for _, o := range t.ops {
				m.apply(o) // panics on a dead account / missing snapshot
			}
			for _, o := range t.ops {
				if o.K == "nonce" && o.N > 0 {
					touched[o.A] = true
				}
			}
			if !allExist {
				for i := 0; i < 3; i++ {
					if (len(m.A[i].Slots) > 0 || m.A[i].Code != nil) && (m.A[i].Nonce == 0 || !touched[i]) {
						panic("template " + t.name + ": account left with storage/code but without a positive nonce")
					}
				}
			}
			// the storage-only family A3/A4: never cleared, reverted or destroyed, and written only by
			// adding slots or together with a positive nonce
			for _, o := range t.ops {
				if o.A >= 3 && !touched[o.A] {
					switch {
					case o.K == "read", o.K == "slot" && o.Val != "":
					case o.K == "snap", o.K == "revert":
					default:
						panic("template " + t.name + ": " + o.K + " on a storage-only account without a positive nonce")
					}
				}
			}
			if hasJournal(t.ops) {
				for _, o := range t.ops {
					if o.A >= 3 && o.K != "snap" && o.K != "revert" {
						panic("template " + t.name + ": journal activity and a storage-only account in one template")
					}
				}
			}
		}
	}
}

// histories enumerates, in order of length, all sequences of 1..maxLen templates x fork shapes.
// Two blocks: the second on the first or on the empty state.  Three blocks: a chain; allForks: the
// last block also on the first (a sibling of the second, committed after its competitor).
func histories(ts []tmpl, maxLen int, allForks bool, maxBig int, visit func(idx int64, h History, nbig int) bool) {
	var idx int64
	var rec func(h History, nbig int, want int) bool
	rec = func(h History, nbig int, want int) bool {
		if len(h.Blocks) == want {
			ok := visit(idx, h, nbig)
			idx++
			return ok
		}
		i := len(h.Blocks)
		for _, t := range ts {
			nb := nbig
			if t.big {
				nb++
			}
			if nb > maxBig || (want == 3 && nb > 1) {
				continue // two oversized blocks only in histories of two blocks
			}
			parents := []int{i - 1}
			switch {
			case i == 0:
			case want <= 2:
				parents = append(parents, -1) // i == 1: the empty state
			case i == want-1 && allForks && nb == 0:
				parents = append(parents, i-2) // sibling of the previous block
			}
			for _, p := range parents {
				nh := History{Blocks: append(append([]Block{}, h.Blocks...), Block{T: t.name, Parent: p, Ops: t.ops})}
				if !rec(nh, nb, want) {
					return false
				}
			}
		}
		return true
	}
	for l := 1; l <= maxLen; l++ {
		if !rec(History{}, 0, l) {
			return
		}
	}
}

// ---------------------------------------------------------------------------------------------
// model (plain maps)

type mAcct struct {
	Nonce uint64
	Slots map[string][]byte // raw key -> value
	Code  []byte
}

type model struct {
	A   [nAcct]mAcct
	Bal [nAcct]uint64

	// per block: accounts destroyed by this block (part of what a revert restores) and the stack of
	// deep copies taken at "snap" (the boring journal)
	dead  [nAcct]bool
	stack []*model
}

// beginBlock forgets the in-block bookkeeping of the parent block.
func (m *model) beginBlock() { m.dead, m.stack = [nAcct]bool{}, nil }

func (m *model) clone() *model {
	n := &model{Bal: m.Bal, dead: m.dead}
	for i := range m.A {
		n.A[i].Nonce = m.A[i].Nonce
		n.A[i].Code = m.A[i].Code
		n.A[i].Slots = make(map[string][]byte, len(m.A[i].Slots))
		for k, v := range m.A[i].Slots {
			n.A[i].Slots[k] = v
		}
	}
	return n
}

func newModel() *model {
	m := &model{}
	for i := range m.A {
		m.A[i].Slots = map[string][]byte{}
	}
	return m
}

func (m *model) apply(o Op) {
	switch o.K {
	case "snap":
		m.stack = append(m.stack, m.clone())
		return
	case "revert":
		saved := m.stack[len(m.stack)-1]
		rest := m.stack[:len(m.stack)-1]
		*m = *saved
		m.stack = rest
		return
	case "read":
		return
	}
	if m.dead[o.A] && o.K != "bal" {
		panic("template: operation on an account destroyed earlier in the same block")
	}
	a := &m.A[o.A]
	switch o.K {
	case "nonce":
		a.Nonce = o.N
	case "slot":
		k := string(slotKeys[o.Key])
		if o.Val == "" {
			delete(a.Slots, k)
		} else {
			a.Slots[k] = slotVals[o.Val]
		}
	case "bigslots":
		for i := 0; i < int(o.N); i++ {
			a.Slots[string(bigSlotKey(i))] = bigSlotVal(i, o.Gen)
		}
	case "ft":
		k := "f:" + o.Key
		v := new(big.Int).SetUint64(o.N)
		if o.Val == "add" {
			v.Add(v, new(big.Int).SetBytes(a.Slots[k]))
		}
		a.Slots[k] = v.Bytes()
	case "code":
		a.Code = codes[o.Code]
	case "bal":
		m.Bal[o.A] = o.N
	case "suicide":
		// Suicide of an account that does not exist is a no-op; all accounts that exist have nonce > 0
		// (template rule), so existence == nonce > 0 in this alphabet.
		if a.Nonce > 0 || len(a.Slots) > 0 {
			a.Nonce, a.Code, a.Slots = 0, nil, map[string][]byte{}
			m.Bal[o.A] = 0
			m.dead[o.A] = true
		}
	}
}

func applyReal(st *account.AccountDB, o Op, snaps *[]int) {
	ad := accts[o.A]
	switch o.K {
	case "read":
		// accesses that load the account object without dirtying it or caching one of its slots
		switch o.Val {
		case "exist":
			st.Exist(ad)
		case "nonce":
			st.GetNonce(ad)
		case "codehash":
			st.GetCodeHash(ad)
		case "code":
			st.GetCode(ad)
		case "absent":
			st.GetData(ad, slotKeys[o.Key]) // a slot no template ever sets on this account
		case "bal":
			st.GetBalance(ad) // an address that never holds a balance: loads the balance-keeping account only
		default:
			panic("unknown read " + o.Val)
		}
	case "snap":
		*snaps = append(*snaps, st.Snapshot())
	case "revert":
		id := (*snaps)[len(*snaps)-1]
		*snaps = (*snaps)[:len(*snaps)-1]
		st.RevertToSnapshot(id)
	case "nonce":
		st.SetNonce(ad, o.N)
	case "slot":
		if o.Val == "" {
			st.SetData(ad, slotKeys[o.Key], nil)
		} else {
			st.SetData(ad, slotKeys[o.Key], slotVals[o.Val])
		}
	case "bigslots":
		for i := 0; i < int(o.N); i++ {
			st.SetData(ad, bigSlotKey(i), bigSlotVal(i, o.Gen))
		}
	case "ft":
		if o.Val == "add" {
			st.AddFT(ad, o.Key, new(big.Int).SetUint64(o.N))
		} else {
			st.SetFT(ad, o.Key, new(big.Int).SetUint64(o.N))
		}
	case "code":
		st.SetCode(ad, codes[o.Code])
	case "bal":
		st.SetBalance(ad, new(big.Int).SetUint64(o.N))
	case "suicide":
		st.Suicide(ad)
	}
}

// ---------------------------------------------------------------------------------------------
// recording database

type kv struct {
	k   string
	v   []byte
	del bool
}

type elem struct {
	kind  string // put | delete | batch
	kvs   []kv
	block int
}

var errInjected = errors.New("verif: injected write error")

type recDB struct {
	m      map[string][]byte
	log    []elem
	scale  int // Batch.ValueSize() = true size * scale
	block  int
	nphys  int // physical non-empty writes attempted so far
	failAt int // the write with this ordinal fails once (-1: none)
	failed bool
	iters  int
	// failAll: every physical write returns an error (a disk commit that fails as a whole)
	failAll bool
}

func newRec(scale, failAt int) *recDB {
	return &recDB{m: map[string][]byte{}, scale: scale, failAt: failAt}
}

func (d *recDB) phys(e elem) error {
	if d.failAll {
		return errInjected
	}
	n := d.nphys
	d.nphys++
	if n == d.failAt && !d.failed {
		d.failed = true
		return errInjected
	}
	e.block = d.block
	for _, x := range e.kvs {
		if x.del {
			delete(d.m, x.k)
		} else {
			d.m[x.k] = x.v
		}
	}
	d.log = append(d.log, e)
	return nil
}

func cp(b []byte) []byte { return append([]byte{}, b...) }

func (d *recDB) Put(k, v []byte) error {
	return d.phys(elem{kind: "put", kvs: []kv{{k: string(k), v: cp(v)}}})
}
func (d *recDB) Delete(k []byte) error {
	return d.phys(elem{kind: "delete", kvs: []kv{{k: string(k), del: true}}})
}
func (d *recDB) Get(k []byte) ([]byte, error) {
	if v, ok := d.m[string(k)]; ok {
		return cp(v), nil
	}
	return nil, leveldb.ErrNotFound
}
func (d *recDB) Has(k []byte) (bool, error) { _, ok := d.m[string(k)]; return ok, nil }
func (d *recDB) Close()                     {}
func (d *recDB) NewBatch() xdb.Batch        { return &recBatch{d: d} }
func (d *recDB) NewIterator() iterator.Iterator {
	d.iters++
	return iterator.NewEmptyIterator(nil)
}
func (d *recDB) NewIteratorWithPrefix([]byte) iterator.Iterator {
	d.iters++
	return iterator.NewEmptyIterator(nil)
}

type recBatch struct {
	d    *recDB
	kvs  []kv
	size int
}

func (b *recBatch) Put(k, v []byte) error {
	b.kvs = append(b.kvs, kv{k: string(k), v: cp(v)})
	b.size += len(v)
	return nil
}
func (b *recBatch) ValueSize() int { return b.size * b.d.scale }
func (b *recBatch) Write() error {
	if len(b.kvs) == 0 {
		return nil // LevelDB: writing an empty batch is a no-op
	}
	return b.d.phys(elem{kind: "batch", kvs: append([]kv{}, b.kvs...)})
}
func (b *recBatch) Reset() { b.kvs, b.size = nil, 0 }

// roDB is the reconstructed disk image a "restarted process" opens. Nothing may write to it.
type roDB struct {
	m      map[string][]byte
	writes int
}

func (d *roDB) Put(k, v []byte) error { d.writes++; return nil }
func (d *roDB) Delete(k []byte) error { d.writes++; return nil }
func (d *roDB) Get(k []byte) ([]byte, error) {
	if v, ok := d.m[string(k)]; ok {
		return cp(v), nil
	}
	return nil, leveldb.ErrNotFound
}
func (d *roDB) Has(k []byte) (bool, error)                     { _, ok := d.m[string(k)]; return ok, nil }
func (d *roDB) Close()                                         {}
func (d *roDB) NewBatch() xdb.Batch                            { return &roBatch{d: d} }
func (d *roDB) NewIterator() iterator.Iterator                 { return iterator.NewEmptyIterator(nil) }
func (d *roDB) NewIteratorWithPrefix([]byte) iterator.Iterator { return iterator.NewEmptyIterator(nil) }

type roBatch struct {
	d *roDB
	n int
}

func (b *roBatch) Put(k, v []byte) error { b.n++; return nil }
func (b *roBatch) ValueSize() int        { return 0 }
func (b *roBatch) Write() error          { b.d.writes += b.n; return nil }
func (b *roBatch) Reset()                { b.n = 0 }

// ---------------------------------------------------------------------------------------------
// running a history on the real commit path

const neverAcked = 1 << 30

type trace struct {
	be        backend
	nw        int           // physical writes of the run
	rec       *recDB        // nil for runs on the production LevelDB type
	roots     []common.Hash // acknowledged root of block i
	snaps     []*model
	ack       []int // len(log) when block i was acknowledged
	retried   []bool
	liveErr   string // a commit that never reported success / a panic: blocks after it are not run
	modelDiff string // the state computed by the repository differs from the model (model problem, not C03): history cut there
}

// mapVariant decides the start offset of every Go map iteration on the goroutine that runs the
// commit path, which makes the physical write order a function of (history, granularity, variant).
// Variant 0: every iteration starts at bucket 0 / offset 0; 1: at the last bucket / offset 1 (a
// two-entry map is walked in the opposite order); 2 and 3 alternate between the two from one
// iteration to the next (neighbouring accounts get opposite code-vs-storage orders).
func installMapOrder(variant int) {
	calls := 0
	mapiter.Install(func(count int, B uint8) (uintptr, bool) {
		v := variant
		if variant >= 2 {
			v = (variant + calls) & 1
			calls++
		}
		if v == 0 {
			return mapiter.Start(0, 0, B), true
		}
		nb := 1 << B
		return mapiter.Start(nb-1, 1, B), true
	})
}

// backend is the store under the account database of one run: the recording map (all prefix and
// fault enumeration above the Batch interface) or the production LevelDB type with the error
// injected inside goleveldb (scaleLDB).
type backend interface {
	db() xdb.Database
	beginBlock(i int)
	setFailAll(on bool)
	writes() int    // physical writes performed so far
	injected() bool // the single injected write error was delivered
	cold() *coldDB  // a brand-new AccountDatabase over what is on the store now
	done()
}

func (d *recDB) db() xdb.Database   { return d }
func (d *recDB) beginBlock(i int)   { d.block = i }
func (d *recDB) setFailAll(on bool) { d.failAll = on }
func (d *recDB) writes() int        { return len(d.log) }
func (d *recDB) injected() bool     { return d.failed }
func (d *recDB) cold() *coldDB      { return openCold(d.m) }
func (d *recDB) done()              {}

// ldbBackend: one production *xdb.LDBDatabase per worker process (db.NewLDBDatabase, the type and
// the ldbBatch the node's state store uses), emptied before every run.  Write errors originate
// BELOW middleware/db: the `leveldb` overlay feature makes goleveldb's DB.Put/Delete/Write call
// leveldb.VerifWriteHook first and return its error without writing.
type ldbBackend struct{}

var ldbState struct {
	ldb             *xdb.LDBDatabase
	armed           bool
	n, failAt       int
	failed, failAll bool
}

func openLDB(failAt int) backend {
	st := &ldbState
	if st.ldb == nil {
		l, err := xdb.NewLDBDatabase("c03state", 8, 8)
		if err != nil {
			panic(err)
		}
		st.ldb = l
		leveldb.VerifWriteHook = func(path, kind string, b *leveldb.Batch, key, value []byte) error {
			if !st.armed {
				return nil
			}
			if st.failAll {
				return errInjected
			}
			n := st.n
			st.n++
			if n == st.failAt && !st.failed {
				st.failed = true
				return errInjected
			}
			return nil
		}
	}
	st.armed = false
	var keys [][]byte
	it := st.ldb.NewIterator()
	for it.Next() {
		keys = append(keys, cp(it.Key()))
	}
	it.Release()
	for _, k := range keys {
		st.ldb.Delete(k)
	}
	st.n, st.failAt, st.failed, st.failAll, st.armed = 0, failAt, false, false, true
	return ldbBackend{}
}

func (ldbBackend) db() xdb.Database   { return ldbState.ldb }
func (ldbBackend) beginBlock(i int)   {}
func (ldbBackend) setFailAll(on bool) { ldbState.failAll = on }
func (ldbBackend) writes() int        { return ldbState.n }
func (ldbBackend) injected() bool     { return ldbState.failed }
func (ldbBackend) done()              { ldbState.armed = false }
func (ldbBackend) cold() *coldDB {
	return &coldDB{adb: account.NewDatabase(ldbState.ldb), usedCode: true}
}

const scaleLDB = -1 // "granularity" of the runs on the production LevelDB type

func belowBatch(scale int) string {
	if scale == scaleLDB {
		return ":below-batch"
	}
	return ""
}

func runHistory(h History, scale, failAt, mapVar int) (tr *trace) {
	return runHistoryEx(h, scale, failAt, mapVar, false)
}

// runHistoryEx: after an injected write error the commit is issued again, either on the same state
// object (reexec=false: what AddBlockOnChain does with its verifiedBlocks cache) or by executing
// the block again from the parent root on a new state object (reexec=true: cache miss).
func runHistoryEx(h History, scale, failAt, mapVar int, reexec bool) (tr *trace) {
	var be backend
	if scale == scaleLDB {
		be = openLDB(failAt)
		tr = &trace{be: be}
	} else {
		rec := newRec(scale, failAt)
		be = rec
		tr = &trace{rec: rec, be: be}
	}
	defer func() { tr.nw = be.writes(); be.done() }()
	installMapOrder(mapVar)
	defer mapiter.Uninstall()
	live := account.NewDatabase(be.db())
	defer account.VerifC03ReleaseCaches(live)
	for bi, blk := range h.Blocks {
		be.beginBlock(bi)
		parentRoot := common.Hash{}
		snap := newModel()
		if blk.Parent >= 0 {
			parentRoot = tr.roots[blk.Parent]
			snap = tr.snaps[blk.Parent].clone()
		}
		snap.beginBlock()
		for _, o := range blk.Ops {
			snap.apply(o)
		}
		snap.stack = nil // snapshots still open at the commit are simply dropped
		var root common.Hash
		var cerr error
		retried := false
		guard := ""
		unacked := false
		p, v, site := fw.Try(func() {
			// Oracle guard (never a C03 verdict): the block is first executed on a SHADOW state object
			// that is never committed; what is readable from it must be what the model says (accounts
			// destroyed in this block excepted: they stay readable until a commit deletes them).  A
			// disagreement means the model does not describe this history; the history is cut here.
			// The committing state object below is never read by the harness, so it holds exactly the
			// objects and cached slots the block's own operations left in it.
			sh, err := account.NewAccountDB(parentRoot, live)
			if err != nil {
				cerr = fmt.Errorf("open parent: %v", err)
				return
			}
			// (mutations only: the finalisation calls of the variant mark objects as deleted, after which
			// the getters of this AccountDB are no longer total -- GetBalance dereferences nil once the
			// balance-keeping account object was created empty and finalised)
			execBlock(sh, blk.Ops, "")
			skip := snap.dead
			if f, d := compareAPIEx(sh, snap, &skip); f != "" {
				guard = fmt.Sprintf("block %d %s: %s", bi, f, d)
				return
			}
			st, err := account.NewAccountDB(parentRoot, live)
			if err != nil {
				cerr = fmt.Errorf("open parent: %v", err)
				return
			}
			execBlock(st, blk.Ops, h.Fin)
			commit := func() error {
				r, err := commitState(st, h.Fin)
				if err != nil {
					return err
				}
				root = r
				return live.TrieDB().Commit(r, false)
			}
			if blk.Disk != "" {
				if root, cerr = commitState(st, h.Fin); cerr != nil {
					return
				}
				unacked = true
				if blk.Disk == "fail" {
					be.setFailAll(true)
					err := live.TrieDB().Commit(root, false)
					be.setFailAll(false)
					unacked = err != nil // nothing had to be written: the commit succeeded after all
				}
				return
			}
			cerr = commit()
			if cerr != nil && errors.Is(cerr, errInjected) {
				retried = true
				if reexec {
					if st, err = account.NewAccountDB(parentRoot, live); err != nil {
						cerr = fmt.Errorf("open parent again: %v", err)
						return
					}
					execBlock(st, blk.Ops, h.Fin)
				}
				cerr = commit()
			}
		})
		if p {
			tr.liveErr = fmt.Sprintf("panic:%s:%v", site, v)
			return tr
		}
		if guard != "" {
			tr.modelDiff = guard
			return tr
		}
		if cerr != nil {
			tr.liveErr = "commit-error:" + cerr.Error()
			return tr
		}
		tr.roots = append(tr.roots, root)
		tr.snaps = append(tr.snaps, snap)
		if unacked {
			tr.ack = append(tr.ack, neverAcked)
		} else {
			tr.ack = append(tr.ack, be.writes())
		}
		tr.retried = append(tr.retried, retried)
	}
	return tr
}

// ---------------------------------------------------------------------------------------------
// oracle: cold open of one root on one disk image

func short(b []byte) string {
	if len(b) > 8 {
		return fmt.Sprintf("%x..(%dB)", b[:8], len(b))
	}
	return fmt.Sprintf("%x", b)
}

// compareAPI reads the whole universe through the public getters and compares with the snapshot.
func compareAPI(st *account.AccountDB, snap *model) (field, detail string) {
	return compareAPIEx(st, snap, nil)
}

// compareAPIEx: skip (optional) lists accounts whose own fields are not compared; with skip != nil
// the code of accounts holding zero-length code is not read either (see the pre-commit guard).
func compareAPIEx(st *account.AccountDB, snap *model, skip *[nAcct]bool) (field, detail string) {
	probes := []string{"K0", "K1", "K2", "S0", "S1", "P0", "P1", "P2", "E", "N0", "N1", "L0", "L1", "L2"}
	for i, ad := range accts {
		ma := &snap.A[i]
		if skip != nil && skip[i] {
			if b := st.GetBalance(ad); b.Cmp(new(big.Int).SetUint64(snap.Bal[i])) != 0 {
				return "balance", fmt.Sprintf("A%d balance %s, snapshot %d", i, b, snap.Bal[i])
			}
			continue
		}
		if n := st.GetNonce(ad); n != ma.Nonce {
			return "nonce", fmt.Sprintf("A%d nonce %d, snapshot %d", i, n, ma.Nonce)
		}
		if skip != nil && ma.Code != nil && len(ma.Code) == 0 {
			// reading zero-length code memoises a load error in the account object
		} else if c := st.GetCode(ad); !bytes.Equal(c, ma.Code) {
			return "code", fmt.Sprintf("A%d code %s, snapshot %s", i, short(c), short(ma.Code))
		}
		for k, v := range ma.Slots {
			if g := st.GetData(ad, []byte(k)); !bytes.Equal(g, v) {
				return "slot", fmt.Sprintf("A%d slot %x = %s, snapshot %s", i, k, short(g), short(v))
			}
		}
		for _, pk := range probes {
			k := slotKeys[pk]
			if _, ok := ma.Slots[string(k)]; ok {
				continue
			}
			if g := st.GetData(ad, k); len(g) != 0 {
				return "slot", fmt.Sprintf("A%d slot %s = %s, snapshot empty", i, pk, short(g))
			}
		}
		if b := st.GetBalance(ad); b.Cmp(new(big.Int).SetUint64(snap.Bal[i])) != 0 {
			return "balance", fmt.Sprintf("A%d balance %s, snapshot %d", i, b, snap.Bal[i])
		}
	}
	if err := st.Error(); err != nil {
		return "dberr", err.Error()
	}
	return "", ""
}

type finding struct {
	kind   string // stable class (goes into the signature)
	detail string
}

func isMissing(err error) bool {
	var m *trie.MissingNodeError
	return errors.As(err, &m)
}

// walk visits every node of the account trie at root, of every storage trie and every code blob and
// returns what it found for the universe accounts.
func walk(adb account.AccountDatabase, root common.Hash) (got map[common.Address]*mAcct, f *finding) {
	got = map[common.Address]*mAcct{}
	tr, err := adb.OpenTrie(root)
	if err != nil {
		return nil, &finding{"root-unopenable", err.Error()}
	}
	it := tr.NodeIterator(nil)
	for it.Next(true) {
		if !it.Leaf() {
			continue
		}
		key := cp(it.LeafKey())
		var acc account.Account
		if err := rlp.DecodeBytes(it.LeafBlob(), &acc); err != nil {
			return nil, &finding{"account-undecodable", fmt.Sprintf("%x: %v", key, err)}
		}
		ma := &mAcct{Nonce: acc.Nonce, Slots: map[string][]byte{}}
		got[common.BytesToAddress(key)] = ma
		if acc.Root != emptyRoot && acc.Root != (common.Hash{}) {
			stt, err := adb.OpenStorageTrie(common.Hash{}, acc.Root)
			if err != nil {
				return nil, &finding{"storage-root-missing", fmt.Sprintf("account %x storage root %x: %v", key, acc.Root, err)}
			}
			sit := stt.NodeIterator(nil)
			for sit.Next(true) {
				if sit.Leaf() {
					ma.Slots[string(sit.LeafKey())] = cp(sit.LeafBlob())
				}
			}
			if err := sit.Error(); err != nil {
				return nil, &finding{"storage-node-missing", fmt.Sprintf("account %x: %v", key, err)}
			}
		}
		ch := common.BytesToHash(acc.NFTSetDefinitionHash)
		if ch != emptyCodeSha3 && ch != emptyCodeKecc && len(acc.NFTSetDefinitionHash) != 0 {
			code, err := adb.ContractCode(common.Hash{}, ch)
			if err != nil {
				return nil, &finding{"code-missing", fmt.Sprintf("account %x code %x: %v", key, ch, err)}
			}
			if crypto.Keccak256Hash(code) != ch {
				return nil, &finding{"code-corrupt", fmt.Sprintf("account %x code %x", key, ch)}
			}
			ma.Code = code
		}
	}
	if err := it.Error(); err != nil {
		return nil, &finding{"account-node-missing", err.Error()}
	}
	return got, nil
}

// coldDB is the brand-new AccountDatabase (empty caches) a restarted process opens over one disk
// image.  One instance serves all roots examined at one prefix: its only read caches (code, code
// size) are filled from this very image, so they cannot make anything readable that the image lacks.
type coldDB struct {
	disk     map[string][]byte
	adb      account.AccountDatabase
	usedCode bool
}

func openCold(disk map[string][]byte) *coldDB {
	return &coldDB{disk: disk, adb: account.NewDatabase(&roDB{m: disk})}
}

func (cd *coldDB) close() {
	if cd.usedCode { // only then the code cache holds off-heap chunks
		account.VerifC03ReleaseCaches(cd.adb)
	}
}

// coldCheck opens root on the cold database and compares with snap.
func coldCheck(cd *coldDB, root common.Hash, snap *model) *finding {
	var f *finding
	p, v, site := fw.Try(func() {
		var got map[common.Address]*mAcct
		got, f = walk(cd.adb, root)
		if f != nil {
			cd.usedCode = true
			return
		}
		for _, w := range got {
			if len(w.Code) > 0 {
				cd.usedCode = true
			}
		}
		for i, ad := range accts {
			ma, w := &snap.A[i], got[ad]
			if w == nil {
				w = &mAcct{Slots: map[string][]byte{}}
			}
			if w.Nonce != ma.Nonce {
				f = &finding{"differs:nonce", fmt.Sprintf("walk: A%d nonce %d, snapshot %d", i, w.Nonce, ma.Nonce)}
				return
			}
			if !bytes.Equal(w.Code, ma.Code) {
				f = &finding{"differs:code", fmt.Sprintf("walk: A%d code %s, snapshot %s", i, short(w.Code), short(ma.Code))}
				return
			}
			if len(w.Slots) != len(ma.Slots) {
				f = &finding{"differs:slot", fmt.Sprintf("walk: A%d has %d slots, snapshot %d", i, len(w.Slots), len(ma.Slots))}
				return
			}
			for k, v := range ma.Slots {
				if !bytes.Equal(w.Slots[k], v) {
					f = &finding{"differs:slot", fmt.Sprintf("walk: A%d slot %x = %s, snapshot %s", i, k, short(w.Slots[k]), short(v))}
					return
				}
			}
		}
		// the same through the public getters of a state object opened at root
		st, err := account.NewAccountDB(root, cd.adb)
		if err != nil {
			f = &finding{"root-unopenable", err.Error()}
			return
		}
		if fld, d := compareAPI(st, snap); fld != "" {
			f = &finding{"differs:" + fld, "api: " + d}
		}
	})
	if p {
		cd.usedCode = true
		return &finding{"panic:" + site, fmt.Sprint(v)}
	}
	return f
}

func topOnDisk(disk map[string][]byte, root common.Hash) bool {
	if root == emptyRoot || root == (common.Hash{}) {
		return true
	}
	_, ok := disk[string(root[:])]
	return ok
}

// ---------------------------------------------------------------------------------------------
// cases

type Case struct {
	History History `json:"history"`
	Scale   int     `json:"scale"`   // Batch.ValueSize multiplier (1 = real sizes)
	MapVar  int     `json:"map_var"` // map iteration order variant
	Mode    string  `json:"mode"`    // prefix | fault
	P       int     `json:"p"`       // prefix length / ordinal of the failing write
	Root    int     `json:"root"`    // block index whose root was examined
	Reexec  bool    `json:"reexec"`  // fault mode: block executed again on a new state object (else same object committed again)
}

type viol struct {
	sig, part, msg string
	cs             Case
}

type stats struct {
	evals, nontrivial int64
	outcomes          map[string]int64
}

func (s *stats) out(o string) {
	if s.outcomes == nil {
		s.outcomes = map[string]int64{}
	}
	s.outcomes[o]++
}

// checkPrefixes runs the history fault-free and examines every prefix of its write log.
func checkPrefixes(h History, scale, mapVar int, s *stats) (vs []viol, tr *trace) {
	tr = runHistory(h, scale, -1, mapVar)
	base := Case{History: h, Scale: scale, MapVar: mapVar, Mode: "prefix"}
	if tr.liveErr != "" {
		s.out("live:" + strings.SplitN(tr.liveErr, ":", 3)[0])
	}
	if tr.modelDiff != "" {
		s.out("model-differs-from-precommit-state") // blocks before the disagreement are still examined
	}
	log := tr.rec.log
	// how many physical writes one commit was split into
	per := map[int]int{}
	for _, e := range log {
		per[e.block]++
	}
	for _, n := range per {
		switch {
		case n == 1:
			s.out("commit-in-1-write")
		case n <= 3:
			s.out("commit-in-2..3-writes")
		case n <= 19:
			s.out("commit-in-4..19-writes")
		default:
			s.out("commit-in-20+-writes")
		}
	}
	disk := map[string][]byte{}
	seen := map[string]bool{}
	add := func(v viol) {
		if !seen[v.sig] {
			seen[v.sig] = true
			vs = append(vs, v)
		}
	}
	for p := 0; p <= len(log); p++ {
		if p > 0 {
			e := log[p-1]
			for _, x := range e.kvs {
				c := base
				c.P = p
				if x.del {
					add(viol{"C03:append-only:delete", "append-only",
						fmt.Sprintf("write %d (%s, block %d) deletes key %x", p, e.kind, e.block, x.k), c})
					delete(disk, x.k)
					continue
				}
				if old, ok := disk[x.k]; ok && !bytes.Equal(old, x.v) {
					add(viol{"C03:append-only:overwrite", "append-only",
						fmt.Sprintf("write %d (%s, block %d) overwrites key %x: %s -> %s", p, e.kind, e.block, x.k, short(old), short(x.v)), c})
				}
				disk[x.k] = x.v
			}
		}
		s.evals++
		interior := true
		if p == 0 {
			interior = false
		}
		for _, a := range tr.ack {
			if a == p {
				interior = false
			}
		}
		if interior {
			s.nontrivial++
		}
		cd := openCold(disk)
		for bi, root := range tr.roots {
			acked := tr.ack[bi] <= p
			if !acked && !topOnDisk(disk, root) {
				s.out("unacked-root-absent")
				continue
			}
			f := coldCheck(cd, root, tr.snaps[bi])
			c := base
			c.P, c.Root = p, bi
			switch {
			case f == nil && acked:
				s.out("acked-root-ok")
			case f == nil:
				s.out("unacked-root-present-ok")
			case acked:
				kind := "acked-root-unresolvable:" + f.kind
				if strings.HasPrefix(f.kind, "differs:") {
					kind = "acked-root-" + f.kind
				}
				older := ""
				if tr.ack[bi] < p {
					older = fmt.Sprintf(" (durable since write %d; prefix %d is inside/after the commit of block %d)", tr.ack[bi], p, log[p-1].block)
				}
				add(viol{"C03:" + kind + h.sigSuffix(), "acknowledged-root",
					fmt.Sprintf("history %s scale %d: after %d of %d writes root %x of block %d is acknowledged but %s: %s%s",
						h.name(), scale, p, len(log), root[:6], bi, f.kind, f.detail, older), c})
			default:
				kind := "inflight-root-unresolvable:" + f.kind
				if strings.HasPrefix(f.kind, "differs:") {
					kind = "inflight-root-" + f.kind
				}
				add(viol{"C03:" + kind + h.sigSuffix(), "in-flight-root",
					fmt.Sprintf("history %s scale %d: after %d of %d writes the top node of root %x (block %d, not yet acknowledged) is on disk but %s: %s",
						h.name(), scale, p, len(log), root[:6], bi, f.kind, f.detail), c})
			}
		}
		cd.close()
	}
	return vs, tr
}

// checkLDBPlain runs the history without a single-write fault on the production LevelDB type (a
// sibling block with Disk="fail" has all writes of its disk commit refused inside goleveldb) and
// opens every acknowledged root through a brand-new AccountDatabase over the store.
func checkLDBPlain(h History, mapVar int, s *stats) (vs []viol, tr *trace) {
	tr = runHistory(h, scaleLDB, -1, mapVar)
	s.evals++
	if h.sigSuffix() != "" {
		s.nontrivial++
	}
	cd := tr.be.cold()
	defer cd.close()
	seen := map[string]bool{}
	for bi, root := range tr.roots {
		if tr.ack[bi] == neverAcked {
			continue
		}
		f := coldCheck(cd, root, tr.snaps[bi])
		if f == nil {
			s.out("ldb:acked-root-ok")
			continue
		}
		kind := "acked-root-unresolvable:" + f.kind
		if strings.HasPrefix(f.kind, "differs:") {
			kind = "acked-root-" + f.kind
		}
		sig := "C03:" + kind + h.sigSuffix() + ":below-batch"
		if seen[sig] {
			continue
		}
		seen[sig] = true
		vs = append(vs, viol{sig, "acknowledged-root/leveldb",
			fmt.Sprintf("history %s on the production LevelDB store type: root %x of block %d was acknowledged (TrieDB().Commit reported success) but a brand-new AccountDatabase over the store finds it %s: %s",
				h.name(), root[:6], bi, f.kind, f.detail),
			Case{History: h, Scale: scaleLDB, MapVar: mapVar, Mode: "ldb-plain", Root: bi}})
	}
	return vs, tr
}

// checkFaults: every physical write of the history fails once; the commit is issued again; all
// roots that were finally acknowledged must be durable on the final image.
func checkFaults(h History, scale, mapVar, nwrites int, baseErr string, reexec bool, s *stats, expired func() bool) (vs []viol, done bool) {
	seen := map[string]bool{}
	for p := 0; p < nwrites; p++ {
		if expired() {
			return vs, false
		}
		tr := runHistoryEx(h, scale, p, mapVar, reexec)
		s.evals++
		if !tr.be.injected() {
			s.out("fault-not-reached")
			continue
		}
		s.nontrivial++
		if tr.modelDiff != "" {
			s.out("model-differs-from-precommit-state")
		}
		if tr.liveErr != "" {
			// the commit never reported success: the property promises nothing about that root
			if tr.liveErr == baseErr {
				s.out("fault:history-ends-in-the-same-commit-error-as-without-fault")
			} else {
				s.out("fault:commit-error-only-after-fault")
			}
		}
		cd := tr.be.cold()
		for bi, root := range tr.roots {
			if tr.ack[bi] == neverAcked {
				continue
			}
			f := coldCheck(cd, root, tr.snaps[bi])
			if f == nil {
				if tr.retried[bi] {
					s.out("fault:recommitted-root-ok")
				} else {
					s.out("fault:other-root-ok")
				}
				continue
			}
			kind := "acked-root-unresolvable:" + f.kind
			if strings.HasPrefix(f.kind, "differs:") {
				kind = "acked-root-" + f.kind
			}
			sig := "C03:after-write-error:" + strings.TrimPrefix(kind, "acked-root-") + h.sigSuffix() + belowBatch(scale)
			if seen[sig] {
				continue
			}
			seen[sig] = true
			vs = append(vs, viol{sig, "write-fault",
				fmt.Sprintf("history %s scale %d: physical write %d%s returned an error, the commit was issued again (%s) and reported success, but root %x of block %d is %s on the final disk image: %s",
					h.name(), scale, p, map[bool]string{false: "", true: " (inside goleveldb, below middleware/db)"}[scale == scaleLDB], map[bool]string{false: "same state object", true: "block re-executed"}[reexec], root[:6], bi, f.kind, f.detail),
				Case{History: h, Scale: scale, MapVar: mapVar, Mode: "fault", P: p, Root: bi, Reexec: reexec}})
		}
		cd.close()
	}
	return vs, true
}

// ---------------------------------------------------------------------------------------------

const (
	scaleReal = 1
	scaleMid  = 50      // a batch is flushed every 2 KB of values
	scaleFine = 1 << 20 // a batch is flushed after every Put
)

// boot initialises what the account layer needs outside itself: the loggers (the storage-trie
// error path logs through common.DefaultLogger) and the fork table.  The chain, pool and LevelDB
// singletons of the node are not needed: the account database under test sits on the recorder.
func boot() {
	common.Init(0, "1.ini", "dev")
	node.ForksAllOn(&common.LocalChainConfig)
	account.Init()
	common.SetBlockHeight(2)
}

func sameSigs(a, b []viol) bool {
	x := map[string]bool{}
	for _, v := range a {
		x[v.sig] = true
	}
	for _, v := range b {
		if !x[v.sig] {
			return false
		}
		delete(x, v.sig)
	}
	return len(x) == 0
}

// finsFor: which finalisation variants a history is run with.  Histories of up to 2 blocks: all of
// them (oversized blocks: a subset).  3 blocks: the production order ir1.
func finsFor(h History, nbig int, thorough bool) []string {
	switch {
	case nbig > 0 && len(h.Blocks) <= 2 && thorough:
		return []string{"", "ir1", "ir-each", "twice"}
	case nbig > 0 && len(h.Blocks) <= 2:
		return []string{"", "ir1"}
	case len(h.Blocks) <= 2:
		return finVariants
	}
	return []string{"ir1"}
}

// dropBlock returns h without block i (children of i are re-parented to i's parent).
func dropBlock(h History, i int) History {
	n := History{Fin: h.Fin}
	for j, b := range h.Blocks {
		if j == i {
			continue
		}
		nb := b
		if b.Parent == i {
			nb.Parent = h.Blocks[i].Parent
		}
		if nb.Parent > i {
			nb.Parent--
		}
		n.Blocks = append(n.Blocks, nb)
	}
	return n
}

// minimise drops blocks as long as find still reports a violation with the same signature.
func minimise(v viol, find func(h History) []viol) viol {
	for again := true; again; {
		again = false
		for i := len(v.cs.History.Blocks) - 1; i >= 0 && len(v.cs.History.Blocks) > 1; i-- {
			for _, w := range find(dropBlock(v.cs.History, i)) {
				if w.sig == v.sig {
					v, again = w, true
					break
				}
			}
			if again {
				break
			}
		}
	}
	return v
}

func run(c *fw.Ctx) {
	boot()
	// The live heap of a worker is a few MB while it allocates ~150 MB/s of short-lived nodes: with
	// the default pacing that is ~60 collections per second (20 % of the CPU).  Collect by limit instead.
	debug.SetGCPercent(-1)
	debug.SetMemoryLimit(640 << 20) // incl. the 128 MB write buffer of the one production LevelDB handle
	runtime.GOMAXPROCS(2)           // one enumerating goroutine per worker process; 16 idle Ps only slow down every stop-the-world
	ts := templates(c.Thorough())
	maxBig := 1
	if c.Thorough() {
		maxBig = 2
	}
	mapVars := []int{0, 1}
	if c.Thorough() {
		mapVars = []int{0, 1, 2, 3}
	}
	var s stats
	var sampled int
	capped := false
	var unit int64
	never := func() bool { return false }
	visitOne := func(h History, nbig int) bool {
		scales := []int{scaleReal, scaleFine}
		if nbig > 0 {
			scales = []int{scaleReal, scaleMid}
			if len(h.Blocks) <= 2 && nbig == 1 {
				scales = append(scales, scaleFine)
			}
		}
		for _, sc := range scales {
			for _, mv := range mapVars {
				if mv >= 2 && len(h.Blocks) == 3 {
					continue // the alternating orders only for the shorter histories
				}
				if mv != 0 && sc == scaleReal && nbig == 0 {
					continue // one physical write per commit: the order inside it is invisible
				}
				unit++
				if !c.Mine(unit) {
					continue
				}
				if c.Expired() {
					capped = true
					return false
				}
				vs, tr := checkPrefixes(h, sc, mv, &s)
				if len(vs) > 0 {
					// same input, same observation, or it is not recorded
					again, _ := checkPrefixes(h, sc, mv, &stats{})
					if !sameSigs(vs, again) {
						s.out("unstable-observation")
						vs = nil
					}
				}
				for _, v := range vs {
					v = minimise(v, func(h2 History) []viol { r, _ := checkPrefixes(h2, sc, mv, &stats{}); return r })
					c.Violation(v.sig, v.part, v.msg, v.cs)
				}
				if sampled < 2 && len(tr.roots) == 3 && len(tr.rec.log) > 3 {
					sampled++
					c.Sample(map[string]interface{}{"history": h.name(), "scale": sc, "map_var": mv,
						"physical_writes": len(tr.rec.log), "ack_after_write": tr.ack,
						"roots": []string{hex.EncodeToString(tr.roots[0][:6]), hex.EncodeToString(tr.roots[1][:6]), hex.EncodeToString(tr.roots[2][:6])}})
				}
				// write faults: real sizes always; finer granularities only for the small histories
				if (nbig == 0 || sc == scaleReal) && mv == 0 {
					for _, reexec := range []bool{false, true} {
						fv, done := checkFaults(h, sc, mv, len(tr.rec.log), tr.liveErr, reexec, &s, c.Expired)
						if !done {
							capped = true
						}
						if len(fv) > 0 {
							again, _ := checkFaults(h, sc, mv, len(tr.rec.log), tr.liveErr, reexec, &stats{}, never)
							if !sameSigs(fv, again) {
								s.out("unstable-observation")
								fv = nil
							}
						}
						for _, v := range fv {
							v = minimise(v, func(h2 History) []viol {
								t2 := runHistory(h2, sc, -1, mv)
								r, _ := checkFaults(h2, sc, mv, len(t2.rec.log), t2.liveErr, reexec, &stats{}, never)
								return r
							})
							c.Violation(v.sig, v.part, v.msg, v.cs)
						}
					}
				}
				// the same two families on the production LevelDB type, errors injected inside goleveldb
				if sc == scaleReal && mv == 0 && nbig == 0 && len(h.Blocks) <= 2 && (h.Fin == "" || h.Fin == "ir1") {
					lv, ltr := checkLDBPlain(h, mv, &s)
					for _, reexec := range []bool{false, true} {
						fv, done := checkFaults(h, scaleLDB, mv, ltr.nw, ltr.liveErr, reexec, &s, c.Expired)
						if !done {
							capped = true
						}
						lv = append(lv, fv...)
					}
					for _, v := range lv {
						c.Violation(v.sig, v.part, v.msg, v.cs)
					}
				}
			}
		}
		return true
	}
	histories(ts, 3, c.Thorough(), maxBig, func(_ int64, h0 History, nbig int) bool {
		for _, fin := range finsFor(h0, nbig, c.Thorough()) {
			h := h0
			h.Fin = fin
			if !visitOne(h, nbig) {
				return false
			}
		}
		// Sibling states: S1 and S2 on the same parent in one process (one in-memory node database),
		// S1 never acknowledged (disk commit failed as a whole / never issued), S2 committed after it;
		// both orders arise from the template enumeration.  Quick: siblings on the empty state;
		// thorough also siblings on a committed first block.
		sib := -1
		switch {
		case len(h0.Blocks) == 2 && h0.Blocks[1].Parent == -1:
			sib = 0
		case len(h0.Blocks) == 3 && h0.Blocks[2].Parent == 0:
			sib = 1
		}
		if sib >= 0 && nbig == 0 {
			for _, disk := range []string{"fail", "skip"} {
				for _, fin := range []string{"", "ir1"} {
					if len(h0.Blocks) == 3 && fin == "" {
						continue
					}
					h := History{Blocks: append([]Block{}, h0.Blocks...), Fin: fin}
					h.Blocks[sib].Disk = disk
					if !visitOne(h, nbig) {
						return false
					}
				}
			}
		}
		return true
	})
	if capped {
		c.Cap("time budget: not all (history, granularity) units were examined")
	}
	c.Eval(s.evals)
	c.NontrivialN(s.nontrivial)
	for o, n := range s.outcomes {
		c.Outcome(o)
		c.Count("n:"+o, n)
	}
	if c.Shard == 0 {
		c.Note("templates", len(ts))
		c.Note("ideal_batch_size", xdb.IdealBatchSize)
	}
}

// describeLog prints the physical write sequence of a fault-free run (replay aid).
func describeLog(tr *trace) {
	isCode := map[string]string{}
	for n, c := range codes {
		isCode[string(crypto.Keccak256(c))] = n
	}
	isRoot := map[string]int{}
	for i, r := range tr.roots {
		isRoot[string(r[:])] = i
	}
	for i, e := range tr.rec.log {
		var parts []string
		for j, x := range e.kvs {
			if j == 12 {
				parts = append(parts, fmt.Sprintf("... %d more", len(e.kvs)-j))
				break
			}
			what := "node"
			if n, ok := isCode[x.k]; ok {
				what = "code:" + n
			} else if b, ok := isRoot[x.k]; ok {
				what = fmt.Sprintf("STATE-ROOT(block %d)", b)
			}
			if x.del {
				what = "DELETE"
			}
			parts = append(parts, fmt.Sprintf("%x=%s/%dB", x.k[:3], what, len(x.v)))
		}
		fmt.Printf("  write %d (block %d, %s, %d pairs): %s\n", i+1, e.block, e.kind, len(e.kvs), strings.Join(parts, " "))
		if i == 60 {
			fmt.Printf("  ... %d more writes\n", len(tr.rec.log)-i-1)
			break
		}
	}
	fmt.Printf("  acknowledged after write: %v\n", tr.ack)
}

func replay(c *fw.Ctx, raw json.RawMessage) {
	var cs Case
	if err := json.Unmarshal(raw, &cs); err != nil {
		panic(err)
	}
	boot()
	var s stats
	var vs []viol
	if cs.Scale != scaleLDB {
		describeLog(runHistory(cs.History, cs.Scale, -1, cs.MapVar))
	}
	if cs.Mode == "ldb-plain" {
		vs, _ = checkLDBPlain(cs.History, cs.MapVar, &s)
	} else if cs.Mode == "fault" {
		tr := runHistory(cs.History, cs.Scale, -1, cs.MapVar)
		vs, _ = checkFaults(cs.History, cs.Scale, cs.MapVar, tr.nw, tr.liveErr, cs.Reexec, &s, func() bool { return false })
	} else {
		vs, _ = checkPrefixes(cs.History, cs.Scale, cs.MapVar, &s)
	}
	for _, v := range vs {
		c.Violation(v.sig, v.part, v.msg, v.cs)
	}
	var keys []string
	for o := range s.outcomes {
		keys = append(keys, fmt.Sprintf("%s=%d", o, s.outcomes[o]))
	}
	sort.Strings(keys)
	fmt.Printf("replay: %s scale=%d map_var=%d mode=%s: %d evaluations, %s\n", cs.History.name(), cs.Scale, cs.MapVar, cs.Mode, s.evals, strings.Join(keys, " "))
}

func main() {
	fw.Main(fw.Check{
		ID: "C03", Level: "fault_enumeration",
		Rule: "evaluation = (history incl. finalisation variant and sibling variant [a sibling state of the last block that was state-committed into the shared in-memory node database but whose disk commit failed as a whole or was never issued], write-granularity, map-order variant, prefix p of the physical write log) with all acknowledged and all on-disk-top-node roots cold-opened and walked, " +
			"plus (history, failing write p) re-commit cases; histories = all sequences of 1..3 block templates (quick 18, thorough 29 templates (3 / 4 with relational variable-length storage keys: prefix chains, empty key, nibble neighbours, 1/40-byte keys x 1/40-byte values, SetFT/AddFT names), among them 4 / 8 with in-block Snapshot/RevertToSnapshot activity and 2 / 4 that create storage-only accounts (nonce 0, no code) or merely load them without dirtying; at most 1 / 2 oversized blocks) x fork shapes x finalisation variant applied by every block between its mutations and the commit (nothing | IntermediateRoot(true|false) | Finalise(true|false) | IntermediateRoot after every mutation | Commit twice | Commit(false); all 8 for histories of <= 2 blocks, 3-block histories run in the production order IntermediateRoot(true)+Commit(true)) (2 blocks: second on the first or on the empty state; 3 blocks: a chain, thorough also the last block on the first = sibling fork committed after its competitor, unless an oversized block is involved); " +
			"non-trivial = prefix strictly inside one commit (not at a block boundary, not 0) or a write fault that was actually injected",
		Assumptions: []string{
			"the write-fault family and the failed-disk-commit sibling mode also run on the production store type (db.NewLDBDatabase / ldbBatch, one handle per worker, emptied between runs) with the error returned inside goleveldb's DB.Write/Put/Delete (leveldb overlay hook), for all histories of <= 2 blocks without oversized blocks; acknowledged roots are then opened through a brand-new AccountDatabase/NodeDatabase over the same LevelDB handle",
			"one Batch.Write / Put / Delete is atomic and ordered (LevelDB journal semantics); torn writes inside one batch and fsync loss on power failure are outside the bound",
			"granularities: real value sizes (flush rule ValueSize() >= IdealBatchSize as shipped), and harness batches that over-report ValueSize (x50, x2^20) so that the repository's own flush rule places a batch boundary every 2 KB / after every node; every such boundary is reachable with real (larger) values",
			"map iteration order inside the commit path is fixed by the harness (quick 2 variants: first / last start position; thorough also the two alternating patterns) so that the write log is a function of the case",
			"the model keeps out of the dirty-and-empty()-looking deletion rule: every template that writes to one of the ordinary accounts gives it a positive nonce, the storage-only accounts are only created, extended and read; before every commit the block is executed on a shadow state object that is never committed and the model is cross-checked against what that object returns (the committing object is never read by the harness) (accounts destroyed in that block excepted) and a disagreement cuts the history there instead of flagging C03",
			"write fault = the write returns an error and nothing of it reaches the disk; the harness then issues the commit again, once on the same state object (what AddBlockOnChain does with its verifiedBlocks cache) and once by executing the block again from the parent root",
		},
		Run: run, Replay: replay,
		Budget: func(tier string) time.Duration {
			if tier == "thorough" {
				return 17 * time.Minute
			}
			return 70 * time.Second
		},
	})
}
