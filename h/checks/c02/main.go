// C02: the state trie root is the canonical Merkle-Patricia commitment of its content.
//
// Explicit-state breadth-first search (E2) over operation histories on the real
// trie.Trie / trie.NodeDatabase of /repo over a MemDatabase.  A successor is always a
// fresh instance + replay of the (shortest) history + one more operation; live
// objects are never cloned.  States are merged on a canonical dump of the
// *implementation* (node graph with node kinds, keys, dirty flags, cached hashes,
// cache ages, cache limit; the hashes held in the NodeDatabase write-back cache; the
// keys of the disk database) plus the model state.  After every transition the
// independent reference (verif/h/refmpt, Yellow Paper appendix D) is compared with
// all observables over the closed key universe: Hash()==reference root, every key
// reads the model value, the iterator yields exactly the live pairs in ascending
// key order, and a reopened trie equals the trie built from empty with that content.
//
// The observers run on the throw-away instance *after* the state key was taken, so
// they do not normalise the representation of the states that are explored further
// (Hash/Get/iteration are operations of the alphabet as well).
//
// Developer knobs (not used by ./check): C02_DEPTH, C02_DEPTH8, C02_DEPTH7,
// C02_SEED_DEPTH override phase depths, C02_KEY=lean drops NodeDatabase/disk from the
// state key, C02_PPROF=file writes a CPU profile.
package main

import (
	"bytes"
	"crypto/sha256"
	"encoding/hex"
	"encoding/json"
	"fmt"
	"os"
	"runtime"
	"runtime/debug"
	"runtime/pprof"
	"sort"
	"strings"
	"sync"
	"sync/atomic"
	"time"

	"verif/h/fw"
	"verif/h/refmpt"

	"com.tuntun.rangers/node/src/common"
	xdb "com.tuntun.rangers/node/src/middleware/db"
	"com.tuntun.rangers/node/src/storage/trie"
)

// ---------------------------------------------------------------- alphabet

const maxKeys = 17 // largest universe: a full 16-way branch plus the key that ends at the branch

func rep(b byte, n int) []byte { return bytes.Repeat([]byte{b}, n) }

// 32-byte keys: 123456 77..77 70 / 71 share 31 bytes (and extend keys 12, 1234, 123456);
// the 31-byte key is a strict prefix of both.
var (
	k32a = append(append([]byte{0x12, 0x34, 0x56}, rep(0x77, 28)...), 0x70)
	k32b = append(append([]byte{0x12, 0x34, 0x56}, rep(0x77, 28)...), 0x71)
	k31  = k32a[:31]
)

// Key universes.  quick: a strict prefix (12 < 1234), two siblings differing in the
// last nibble (1234/1235) and a key branching at the second nibble (13).
var keysQuick = [][]byte{{0x12}, {0x12, 0x34}, {0x12, 0x35}, {0x13}}
var keysThorough = [][]byte{{0x12}, {0x12, 0x34}, {0x12, 0x35}, {0x13}, {0x12, 0x34, 0x56}, k31, k32a, k32b}

// Values.  All base values are leading parts of ONE byte stream, so that every two of
// them are in a strict prefix / extension relation: 1 B, 29 B (a leaf with a one-byte
// hex-prefix key is then exactly 32 bytes of RLP - the embed/hash boundary), 31 B, 32 B,
// 40 B; index 0 is the empty value (Update with it means delete).  These nBase values
// form the alphabet of the BFS phases.
//
// Behind them follow the relational variants used by the overwrite-pair phases: the
// 33 B base, and for every base value a strict prefix (base minus last byte), a strict
// suffix (base minus first byte), the same length with the last / the first byte
// changed, and the base plus a trailing 0x00 (duplicates by content are dropped).
const nBase = 6

var (
	values  [][]byte // all values; values[:nBase] is the BFS alphabet
	allVals = []int{0, 1, 2, 3, 4, 5}
	relVals []int // every index of values
)

func init() {
	stream := make([]byte, 64)
	stream[0] = 0x01
	for i := 1; i < len(stream); i++ {
		stream[i] = byte(0xa0 + i)
	}
	values = [][]byte{{}}
	for _, n := range []int{1, 29, 31, 32, 40} {
		values = append(values, stream[:n:n])
	}
	seen := map[string]bool{}
	for _, v := range values {
		seen[string(v)] = true
	}
	add := func(v []byte) {
		if len(v) > 0 && !seen[string(v)] {
			seen[string(v)] = true
			values = append(values, v)
		}
	}
	for _, n := range []int{1, 29, 31, 32, 33, 40} {
		b := stream[:n:n]
		add(b)
		add(cp(b[:n-1]))
		add(cp(b[1:]))
		l := cp(b)
		l[n-1] ^= 0xff
		add(l)
		f := cp(b)
		f[0] ^= 0xff
		add(f)
		add(append(cp(b), 0x00))
	}
	for i := range values {
		relVals = append(relVals, i)
	}
}

type opKind uint8

const (
	opUpdate opKind = iota
	opDelete
	opGet
	opHash
	opCommitMem
	opCommitDisk
	opReopen
	opLimit
	opIter
	opCap
	opCommitPin // Trie.Commit + NodeDatabase.Reference(root, {}) - what the account layer does per block
	opUnpin     // NodeDatabase.Dereference of the oldest root that is still pinned
)

var kindName = []string{"update", "delete", "get", "hash", "commitmem", "commitdisk", "reopen", "limit", "iter", "cap", "commitpin", "unpin"}

type op struct {
	Kind opKind
	K, V int
}

type alphabet struct {
	keys [][]byte
	ops  []op
}

func newAlphabet(keys [][]byte, vals []int) *alphabet {
	return newAlphabetKinds(keys, vals, opHash, opCommitMem, opCommitDisk, opReopen, opLimit, opIter, opCap)
}

func newAlphabetKinds(keys [][]byte, vals []int, kinds ...opKind) *alphabet {
	a := &alphabet{keys: keys}
	for k := range keys {
		for _, v := range vals {
			a.ops = append(a.ops, op{opUpdate, k, v})
		}
		a.ops = append(a.ops, op{opDelete, k, 0})
		a.ops = append(a.ops, op{opGet, k, 0})
	}
	for _, kd := range kinds {
		a.ops = append(a.ops, op{Kind: kd})
	}
	return a
}

// ---------------------------------------------------------------- model

// content[k] = value index (>0) or 0 when absent.
type content [maxKeys]uint8

func (ct content) live() int {
	n := 0
	for _, v := range ct {
		if v != 0 {
			n++
		}
	}
	return n
}

type refInfo struct {
	root     []byte
	branches int
	shorts   []refmpt.Node
	embedded bool
}

type refCache struct {
	keys [][]byte
	tab  []atomic.Pointer[refInfo] // contents over the base values, read as a base-nBase number
	big  sync.Map                  // contents that use a relational variant: content -> *refInfo
}

func newRefCache(keys [][]byte) *refCache {
	if len(keys) > 8 {
		return &refCache{keys: keys} // map only
	}
	n := 1
	for range keys {
		n *= nBase
	}
	return &refCache{keys: keys, tab: make([]atomic.Pointer[refInfo], n)}
}

func (rc *refCache) get(ct content) *refInfo {
	idx := 0
	for k := len(rc.keys) - 1; k >= 0; k-- {
		if rc.tab == nil || ct[k] >= nBase {
			idx = -1
			break
		}
		idx = idx*nBase + int(ct[k])
	}
	if idx >= 0 {
		if ri := rc.tab[idx].Load(); ri != nil {
			return ri
		}
	} else if v, ok := rc.big.Load(ct); ok {
		return v.(*refInfo)
	}
	m := map[string][]byte{}
	for k, v := range ct {
		if v != 0 {
			m[string(rc.keys[k])] = values[v]
		}
	}
	ri := &refInfo{root: refmpt.Root(m)}
	for _, nd := range refmpt.Shape(m) {
		if nd.Kind == 'B' {
			ri.branches++
		} else {
			ri.shorts = append(ri.shorts, nd)
		}
		if nd.Embedded {
			ri.embedded = true
		}
	}
	if idx >= 0 {
		rc.tab[idx].Store(ri)
	} else {
		rc.big.Store(ct, ri)
	}
	return ri
}

// feature bits of a history (coverage bookkeeping for the non-triviality rule)
const (
	fSplit uint8 = 1 << iota
	fCollapse
	fMerge
	fEmbedded
)

// features of one content change (canonical shapes before / after).
func features(before, after *refInfo, removed bool) uint8 {
	var m uint8
	if after.embedded {
		m |= fEmbedded
	}
	if after.branches > before.branches {
		m |= fSplit
	}
	if after.branches < before.branches {
		m |= fCollapse
	}
	if removed {
		// short-node merge: a short node of the new shape strictly contains (as a
		// nibble interval on the same root path) a short node of the old shape.
		for _, a := range after.shorts {
			sa := a.Path + a.Key
			for _, b := range before.shorts {
				sb := b.Path + b.Key
				if len(b.Key) < len(a.Key) && len(a.Path) <= len(b.Path) && len(sb) <= len(sa) && sa[:len(sb)] == sb {
					m |= fMerge
				}
			}
		}
	}
	return m
}

// ---------------------------------------------------------------- instance

type viol struct {
	Sig, Part, Msg string
}

type inst struct {
	a    *alphabet
	rc   *refCache
	disk *xdb.MemDatabase
	ndb  *trie.NodeDatabase
	tr   *trie.Trie

	ct       content // model: live content
	diskCt   content // model: content of the last root committed to disk
	diskRoot common.Hash
	mask     uint8
	viols    []viol
	dead     bool // the instance could not be (re)opened; no further operation possible
	msgs     bool // format violation messages (confirmation / replay runs)

	// model of the NodeDatabase pins (Reference(root, {}) / Dereference(root)): the roots
	// pinned and not yet released in pin order, a counter per root, the content behind
	// each root, and the root of the last commit of the live trie.
	pinList   []common.Hash
	pins      map[common.Hash]int
	rootCt    map[common.Hash]content
	lastRoot  common.Hash
	unclaimed bool // the last pin of the live trie's committed root was released: nothing is claimed for the live trie any more
}

func newInst(a *alphabet, rc *refCache) *inst {
	in := &inst{a: a, rc: rc}
	in.disk, _ = xdb.NewMemDatabase()
	in.ndb = trie.NewDatabase(in.disk)
	tr, err := trie.NewTrie(common.Hash{}, in.ndb)
	if err != nil {
		panic("cannot create empty trie: " + err.Error())
	}
	in.tr = tr
	return in
}

// fail records a deviation; the message is only formatted on confirmation runs.
func (in *inst) fail(sig, part, format string, args ...interface{}) {
	msg := ""
	if in.msgs {
		msg = fmt.Sprintf(format, args...)
	}
	in.viols = append(in.viols, viol{sig, part, msg})
}

func cp(b []byte) []byte { return append([]byte(nil), b...) }

func (in *inst) setModel(k int, v uint8) {
	before := in.rc.get(in.ct)
	old := in.ct[k]
	in.ct[k] = v
	if old != v {
		in.mask |= features(before, in.rc.get(in.ct), v == 0)
	}
}

// step applies one operation to the real trie and to the model.  Every direct
// result of the operation (error, returned value, returned root) is compared.
func (in *inst) step(o op) {
	if in.dead || in.unclaimed {
		return
	}
	name := kindName[o.Kind]
	p, pv, site := fw.Try(func() {
		switch o.Kind {
		case opUpdate:
			if err := in.tr.TryUpdate(cp(in.a.keys[o.K]), cp(values[o.V])); err != nil {
				in.fail("C02:error:update", "op", "TryUpdate: %v", err)
			}
			in.setModel(o.K, uint8(o.V))
		case opDelete:
			if err := in.tr.TryDelete(cp(in.a.keys[o.K])); err != nil {
				in.fail("C02:error:delete", "op", "TryDelete: %v", err)
			}
			in.setModel(o.K, 0)
		case opGet:
			got, err := in.tr.TryGet(cp(in.a.keys[o.K]))
			if err != nil {
				in.fail("C02:error:get", "op", "TryGet: %v", err)
			} else if !bytes.Equal(got, values[in.ct[o.K]]) {
				in.fail("C02:get-mismatch:op-get", "op", "TryGet(%x) = %x, model %x", in.a.keys[o.K], got, values[in.ct[o.K]])
			}
		case opHash:
			h := in.tr.Hash()
			if want := in.rc.get(in.ct).root; !bytes.Equal(h[:], want) {
				in.fail("C02:root-mismatch:op-hash", "op", "Hash() = %x, reference %x", h[:], want)
			}
		case opCommitMem, opCommitDisk:
			root, err := in.tr.Commit(nil)
			if err != nil {
				in.fail("C02:error:"+name, "op", "Commit: %v", err)
				return
			}
			if want := in.rc.get(in.ct).root; !bytes.Equal(root[:], want) {
				in.fail("C02:root-mismatch:op-commit", "op", "Commit() = %x, reference %x", root[:], want)
			}
			if o.Kind == opCommitDisk {
				if err := in.ndb.Commit(root, false); err != nil {
					in.fail("C02:error:"+name, "op", "NodeDatabase.Commit: %v", err)
					return
				}
				in.diskRoot, in.diskCt = root, in.ct
			}
		case opReopen:
			in.ndb = trie.NewDatabase(in.disk)
			tr, err := trie.NewTrie(in.diskRoot, in.ndb)
			in.ct = in.diskCt
			if err != nil {
				in.fail("C02:error:reopen", "op", "NewTrie(%x): %v", in.diskRoot[:], err)
				in.dead = true
				return
			}
			in.tr = tr
		case opLimit:
			in.tr.SetCacheLimit(1)
		case opIter:
			in.checkIter("op")
		case opCommitPin:
			root, err := in.tr.Commit(nil)
			if err != nil {
				in.fail("C02:error:"+name, "op", "Commit: %v", err)
				return
			}
			if want := in.rc.get(in.ct).root; !bytes.Equal(root[:], want) {
				in.fail("C02:root-mismatch:op-commit", "op", "Commit() = %x, reference %x", root[:], want)
			}
			in.ndb.Reference(root, common.Hash{})
			if in.pins == nil {
				in.pins, in.rootCt = map[common.Hash]int{}, map[common.Hash]content{}
			}
			in.pinList = append(in.pinList, root)
			in.pins[root]++
			in.rootCt[root] = in.ct
			in.lastRoot = root
		case opUnpin:
			if len(in.pinList) == 0 {
				return
			}
			r := in.pinList[0]
			in.pinList = in.pinList[1:]
			in.ndb.Dereference(r)
			in.pins[r]--
			// releasing the last pin of the root the live trie was committed at hands its
			// nodes to the garbage collector: from here on nothing is claimed for the live trie
			if in.pins[r] == 0 && r == in.lastRoot && !bytes.Equal(r[:], refmpt.EmptyRoot()) {
				in.unclaimed = true
			}
		case opCap:
			// flush the whole write-back cache of the NodeDatabase to disk and evict it
			if err := in.ndb.Cap(0); err != nil {
				in.fail("C02:error:cap", "op", "NodeDatabase.Cap(0): %v", err)
			}
		}
	})
	if p {
		in.fail("C02:panic:"+site, "op", "panic in %s: %v", name, pv)
		in.dead = true
	}
}

func (in *inst) checkIter(part string) {
	type kv struct{ k, v []byte }
	var got []kv
	it := trie.NewIterator(in.tr.NodeIterator(nil))
	for it.Next() {
		got = append(got, kv{cp(it.Key), cp(it.Value)})
		if len(got) > 4*maxKeys {
			in.fail("C02:iter-content:runaway", part, "iterator yields more than 4x the universe")
			return
		}
	}
	if it.Err != nil {
		in.fail("C02:iter-error", part, "iterator error: %v", it.Err)
		return
	}
	var want []kv
	for k, v := range in.ct {
		if v != 0 {
			want = append(want, kv{in.a.keys[k], values[v]})
		}
	}
	sort.Slice(want, func(i, j int) bool { return bytes.Compare(want[i].k, want[j].k) < 0 })
	same := len(got) == len(want)
	for i := 0; same && i < len(got); i++ {
		same = bytes.Equal(got[i].k, want[i].k) && bytes.Equal(got[i].v, want[i].v)
	}
	if same {
		return
	}
	show := func(l []kv) string {
		if !in.msgs {
			return ""
		}
		var s []string
		for _, e := range l {
			v := hex.EncodeToString(e.v)
			if len(v) > 8 {
				v = fmt.Sprintf("%s..(%dB)", v[:4], len(e.v))
			}
			s = append(s, fmt.Sprintf("%s=%s", shortKey(e.k), v))
		}
		return "[" + strings.Join(s, " ") + "]"
	}
	// same pairs in another order?
	sorted := append([]kv(nil), got...)
	sort.SliceStable(sorted, func(i, j int) bool { return bytes.Compare(sorted[i].k, sorted[j].k) < 0 })
	perm := len(sorted) == len(want)
	for i := 0; perm && i < len(sorted); i++ {
		perm = bytes.Equal(sorted[i].k, want[i].k) && bytes.Equal(sorted[i].v, want[i].v)
	}
	if !perm {
		in.fail("C02:iter-content", part, "iterator yields %s, live pairs %s", show(got), show(want))
		return
	}
	// classify the first descent
	sig := "C02:iter-order:other"
	for i := 0; i+1 < len(got); i++ {
		if bytes.Compare(got[i].k, got[i+1].k) > 0 {
			if bytes.HasPrefix(got[i].k, got[i+1].k) {
				sig = "C02:iter-order:prefix-key-after-extensions"
			}
			break
		}
	}
	in.fail(sig, part, "iterator order %s, ascending order %s", show(got), show(want))
}

func shortKey(k []byte) string {
	s := hex.EncodeToString(k)
	if len(s) > 12 {
		return fmt.Sprintf("%s..%s(%dB)", s[:6], s[len(s)-2:], len(k))
	}
	return s
}

// observe compares every observable of the closed universe with the model.
// It is run on an instance that is thrown away afterwards (Hash, Get and the
// iterator change the representation).
func (in *inst) observe(last opKind) {
	if in.dead {
		return
	}
	defer in.observePinned(last)
	if in.unclaimed {
		return
	}
	after := "after-" + kindName[last]
	p, pv, site := fw.Try(func() {
		h := in.tr.Hash()
		firstOK := true
		if want := in.rc.get(in.ct).root; !bytes.Equal(h[:], want) {
			firstOK = false
			in.fail("C02:root-mismatch:"+after, "observe", "Hash() = %x, reference %x", h[:], want)
		}
		for k := range in.a.keys {
			got, err := in.tr.TryGet(cp(in.a.keys[k]))
			if err != nil {
				in.fail("C02:error:get:"+after, "observe", "TryGet(%s): %v", shortKey(in.a.keys[k]), err)
			} else if !bytes.Equal(got, values[in.ct[k]]) {
				in.fail("C02:get-mismatch:"+after, "observe", "TryGet(%s) = %x, model %x", shortKey(in.a.keys[k]), got, values[in.ct[k]])
			}
		}
		in.checkIter("observe")
		h = in.tr.Hash()
		if want := in.rc.get(in.ct).root; firstOK && !bytes.Equal(h[:], want) {
			in.fail("C02:root-mismatch:after-observers", "observe", "second Hash() = %x, reference %x", h[:], want)
		}
	})
	if p {
		in.fail("C02:panic:"+site, "observe", "panic in observers %s: %v", after, pv)
	}
}

// observePinned: every root that is still pinned at least once must open on the same
// NodeDatabase and read / iterate / hash exactly like the content it was committed with.
func (in *inst) observePinned(last opKind) {
	if len(in.pinList) == 0 {
		return
	}
	after := "after-" + kindName[last]
	seen := map[common.Hash]bool{}
	for _, r := range in.pinList {
		if seen[r] {
			continue
		}
		seen[r] = true
		root, ct := r, in.rootCt[r]
		p, pv, site := fw.Try(func() {
			t2, err := trie.NewTrie(root, in.ndb)
			if err != nil {
				in.fail("C02:error:reopen", "pinned-root", "NewTrie(pinned root %x, pins=%d): %v", root[:], in.pins[root], err)
				return
			}
			saveTr, saveCt := in.tr, in.ct
			in.tr, in.ct = t2, ct
			defer func() { in.tr, in.ct = saveTr, saveCt }()
			for k := range in.a.keys {
				got, err := t2.TryGet(cp(in.a.keys[k]))
				if err != nil {
					in.fail("C02:error:get:"+after, "pinned-root", "pinned root %x (pins=%d): TryGet(%s): %v", root[:], in.pins[root], shortKey(in.a.keys[k]), err)
				} else if !bytes.Equal(got, values[ct[k]]) {
					in.fail("C02:get-mismatch:"+after, "pinned-root", "pinned root %x: TryGet(%s) = %x, model %x", root[:], shortKey(in.a.keys[k]), got, values[ct[k]])
				}
			}
			in.checkIter("pinned-root")
			if h := t2.Hash(); h != root || !bytes.Equal(h[:], in.rc.get(ct).root) {
				in.fail("C02:root-mismatch:"+after, "pinned-root", "trie opened at pinned root %x hashes to %x, reference %x", root[:], h[:], in.rc.get(ct).root)
			}
		})
		if p {
			in.fail("C02:panic:"+site, "pinned-root", "panic reading pinned root %x %s: %v", root[:], after, pv)
		}
	}
}

// differential: the state obtained by reopening must be indistinguishable from a
// trie built from the empty trie with the same content (root, reads, iteration and
// the reaction to one further write are compared through the common oracle; here
// the two roots are compared directly).
func (in *inst) differential() {
	if in.dead {
		return
	}
	p, pv, site := fw.Try(func() {
		fresh := newInst(in.a, in.rc)
		for k, v := range in.ct {
			if v != 0 {
				fresh.tr.TryUpdate(cp(in.a.keys[k]), cp(values[v]))
			}
		}
		a, b := fresh.tr.Hash(), in.tr.Hash()
		if a != b {
			in.fail("C02:reopen-vs-fresh", "differential", "reopened trie hashes to %x, trie built from empty with the same content to %x", b[:], a[:])
		}
	})
	if p {
		in.fail("C02:panic:"+site, "differential", "panic: %v", pv)
	}
}

var leanKey = os.Getenv("C02_KEY") == "lean"

// key is the canonical state: implementation dump + model.
func (in *inst) key() [16]byte {
	var b strings.Builder
	if in.dead {
		b.WriteString("dead")
	} else {
		b.WriteString(in.tr.VerifDump(1))
		if !leanKey {
			b.WriteString("|ndb:")
			for _, h := range in.ndb.VerifNodeHashes() {
				b.WriteString(h[:16])
				b.WriteByte(',')
			}
			b.WriteString("|disk:")
			ks := in.disk.Keys()
			ss := make([]string, len(ks))
			for i, k := range ks {
				ss[i] = string(k)
			}
			sort.Strings(ss)
			for _, s := range ss {
				if len(s) > 8 {
					s = s[:8]
				}
				b.WriteString(hex.EncodeToString([]byte(s)))
				b.WriteByte(',')
			}
		}
	}
	b.WriteString("|ct:")
	b.Write(in.ct[:])
	b.WriteString("|disk:")
	b.Write(in.diskCt[:])
	b.Write(in.diskRoot[:])
	if len(in.pinList) > 0 || in.unclaimed || in.lastRoot != (common.Hash{}) {
		b.WriteString("|pins:")
		for _, r := range in.pinList {
			b.Write(r[:8])
		}
		b.WriteString("|last:")
		b.Write(in.lastRoot[:8])
		if in.unclaimed {
			b.WriteString("|unclaimed")
		}
	}
	sum := sha256.Sum256([]byte(b.String()))
	var k [16]byte
	copy(k[:], sum[:16])
	return k
}

type result struct {
	key   [16]byte
	ct    content
	mask  uint8
	viols []viol
	dump  string
	final bool // nothing is claimed for the live trie any more: counted, not expanded
}

// execute replays hist on a fresh instance.  Only the results of the last
// operation and the observers after it are reported (every proper prefix is a
// history of its own).
func execute(a *alphabet, rc *refCache, hist []byte, wantDump bool) result {
	in := newInst(a, rc)
	in.msgs = wantDump
	var last op
	for i, oi := range hist {
		last = a.ops[oi]
		if i == len(hist)-1 {
			in.viols = nil
		}
		in.step(last)
	}
	r := result{key: in.key(), ct: in.ct, mask: in.mask, final: in.unclaimed}
	if wantDump && !in.dead {
		r.dump = in.tr.VerifDump(1)
	}
	if len(hist) > 0 {
		if last.Kind == opReopen {
			in.differential()
		}
		in.observe(last.Kind)
	}
	r.viols = in.viols
	return r
}

// ---------------------------------------------------------------- case format

type caseOp struct {
	Op  string `json:"op"`
	Key string `json:"key,omitempty"`
	Val string `json:"val,omitempty"`
}

type kase struct {
	Keys []string `json:"keys"` // the closed universe (hex)
	Ops  []caseOp `json:"ops"`
}

func mkCase(a *alphabet, hist []byte) kase {
	var k kase
	for _, key := range a.keys {
		k.Keys = append(k.Keys, hex.EncodeToString(key))
	}
	for _, oi := range hist {
		o := a.ops[oi]
		c := caseOp{Op: kindName[o.Kind]}
		if o.Kind <= opGet {
			c.Key = hex.EncodeToString(a.keys[o.K])
		}
		if o.Kind == opUpdate {
			c.Val = hex.EncodeToString(values[o.V])
		}
		k.Ops = append(k.Ops, c)
	}
	return k
}

func histString(a *alphabet, hist []byte) string {
	var s []string
	for _, oi := range hist {
		o := a.ops[oi]
		switch o.Kind {
		case opUpdate:
			s = append(s, fmt.Sprintf("update(%s,%dB)", shortKey(a.keys[o.K]), len(values[o.V])))
		case opDelete, opGet:
			s = append(s, fmt.Sprintf("%s(%s)", kindName[o.Kind], shortKey(a.keys[o.K])))
		default:
			s = append(s, kindName[o.Kind])
		}
	}
	return strings.Join(s, " ")
}

// ---------------------------------------------------------------- BFS

const nShards = 256

type stateRec struct {
	hist    []byte
	mask    uint8
	tainted bool // an oracle other than iteration order failed here: counted, not expanded
}

type shardedSet struct {
	mu [nShards]sync.Mutex
	m  [nShards]map[[16]byte]struct{}
}

func newSet() *shardedSet {
	s := &shardedSet{}
	for i := range s.m {
		s.m[i] = map[[16]byte]struct{}{}
	}
	return s
}
func (s *shardedSet) has(k [16]byte) bool {
	i := k[0]
	s.mu[i].Lock()
	_, ok := s.m[i][k]
	s.mu[i].Unlock()
	return ok
}
func (s *shardedSet) add(k [16]byte) {
	i := k[0]
	s.mu[i].Lock()
	s.m[i][k] = struct{}{}
	s.mu[i].Unlock()
}

type shardedNext struct {
	mu [nShards]sync.Mutex
	m  [nShards]map[[16]byte]*stateRec
}

func newNext() *shardedNext {
	s := &shardedNext{}
	for i := range s.m {
		s.m[i] = map[[16]byte]*stateRec{}
	}
	return s
}

// put keeps the lexicographically smallest history per key, so that the
// representative of a state does not depend on goroutine timing.
func (s *shardedNext) put(k [16]byte, hist []byte, mask uint8, tainted bool) {
	i := k[0]
	s.mu[i].Lock()
	if old, ok := s.m[i][k]; !ok || bytes.Compare(hist, old.hist) < 0 {
		s.m[i][k] = &stateRec{hist: append([]byte(nil), hist...), mask: mask, tainted: tainted}
	}
	s.mu[i].Unlock()
}

type foundViol struct {
	a    *alphabet
	hist []byte
	v    viol
}

// violRec keeps, per signature, the (up to) three lexicographically smallest
// violating histories of the shallowest depth at which the signature occurs, so
// that what is reported is minimal and independent of goroutine timing.  A
// candidate is re-executed (same input) and recorded only if the observation repeats.
type violRec struct {
	mu   sync.Mutex
	sigs map[string]*sigRec
	n    map[string]int64
}

type sigRec struct {
	depth int
	top   []foundViol
}

const keepPerSig = 3

func (vr *violRec) consider(a *alphabet, rc *refCache, hist []byte, vs []viol) {
	depth := len(hist)
	var need []viol
	vr.mu.Lock()
	for _, v := range vs {
		vr.n[v.Sig]++
		rec := vr.sigs[v.Sig]
		if rec != nil && (rec.depth < depth || (rec.depth == depth && len(rec.top) >= keepPerSig && bytes.Compare(hist, rec.top[len(rec.top)-1].hist) > 0)) {
			continue
		}
		need = append(need, v)
	}
	vr.mu.Unlock()
	if len(need) == 0 {
		return
	}
	r2 := execute(a, rc, hist, true) // confirmation run, with messages
	vr.mu.Lock()
	defer vr.mu.Unlock()
	for _, v := range need {
		var conf *viol
		for i := range r2.viols {
			if r2.viols[i].Sig == v.Sig && r2.viols[i].Part == v.Part {
				conf = &r2.viols[i]
				break
			}
		}
		fv := foundViol{a: a, hist: append([]byte(nil), hist...)}
		sig := v.Sig
		if conf != nil {
			fv.v = *conf
		} else {
			sig = "C02:nondeterministic"
			fv.v = viol{sig, v.Part, "observation not reproduced on re-run of the same history: " + v.Sig}
		}
		rec := vr.sigs[sig]
		if rec == nil {
			rec = &sigRec{depth: depth}
			vr.sigs[sig] = rec
		}
		if rec.depth < depth {
			continue
		}
		if rec.depth > depth { // a shorter history replaces everything recorded so far
			rec.depth, rec.top = depth, nil
		}
		rec.top = append(rec.top, fv)
		sort.Slice(rec.top, func(i, j int) bool { return bytes.Compare(rec.top[i].hist, rec.top[j].hist) < 0 })
		if len(rec.top) > keepPerSig {
			rec.top = rec.top[:keepPerSig]
		}
	}
}

func (vr *violRec) report(c *fw.Ctx) {
	var sigs []string
	for s := range vr.sigs {
		sigs = append(sigs, s)
	}
	sort.Strings(sigs)
	for _, s := range sigs {
		c.Outcome("violation:" + s)
		c.Count("violations["+s+"]", vr.n[s])
		for _, f := range vr.sigs[s].top {
			c.Violation(f.v.Sig, f.v.Part, fmt.Sprintf("after history [%s]: %s", histString(f.a, f.hist), f.v.Msg), mkCase(f.a, f.hist))
		}
	}
}

// phase = one exhaustive search: all histories seed.h with |h| <= depth over alphabet a.
type phase struct {
	name  string
	a     *alphabet
	seed  []byte
	depth int
}

// seedHist: every key of the universe written with the given value indices (cyclic),
// followed by a representation suffix.
func seedHist(a *alphabet, vals []int, suffix ...opKind) []byte {
	var h []byte
	find := func(want op) byte {
		for i, o := range a.ops {
			if o == want {
				return byte(i)
			}
		}
		panic("seed op outside the alphabet")
	}
	for k := range a.keys {
		h = append(h, find(op{opUpdate, k, vals[k%len(vals)]}))
	}
	for _, kd := range suffix {
		h = append(h, find(op{Kind: kd}))
	}
	return h
}

func phases(thorough bool) []phase {
	d := envDepth
	if !thorough {
		a := newAlphabet(keysQuick, allVals)
		return []phase{
			pinPhase(d("C02_PIN_DEPTH", 7)),
			{"empty/4keys", a, nil, d("C02_DEPTH", 5)},
			// populated tries in different representations, then every history of 4 more operations
			{"full-1B-dirty/4keys", a, seedHist(a, []int{1}), d("C02_SEED_DEPTH", 4)},
			{"full-32B-unloaded/4keys", a, seedHist(a, []int{4}, opCommitDisk, opCommitDisk), d("C02_SEED_DEPTH", 4)},
			{"full-mixed-reopened/4keys", a, seedHist(a, []int{2, 1, 5, 3}, opCommitDisk, opReopen), d("C02_SEED_DEPTH", 4)},
		}
	}
	a4 := newAlphabet(keysQuick, allVals)
	a8 := newAlphabet(keysThorough, allVals)
	sd := d("C02_SEED_DEPTH", 4)
	return []phase{
		pinPhase(d("C02_PIN_DEPTH", 8)),
		{"empty/8keys", a8, nil, d("C02_DEPTH8", 5)},
		{"full-1B-dirty/8keys", a8, seedHist(a8, []int{1}), sd},
		{"full-1B-unloaded/8keys", a8, seedHist(a8, []int{1}, opCommitDisk, opCommitDisk), sd},
		{"full-32B-unloaded/8keys", a8, seedHist(a8, []int{4}, opCommitDisk, opCommitDisk), sd},
		{"full-mixed-dirty/8keys", a8, seedHist(a8, []int{2, 1, 5, 3, 4}), sd},
		{"full-mixed-memcommitted/8keys", a8, seedHist(a8, []int{2, 1, 5, 3, 4}, opCommitMem, opCommitMem), sd},
		{"full-mixed-reopened/8keys", a8, seedHist(a8, []int{2, 1, 5, 3, 4}, opCommitDisk, opReopen), sd},
		{"empty/4keys", a4, nil, d("C02_DEPTH", 6)},
		// depth 7 on the value alphabet {empty, 1 B, 29 B, 32 B}
		{"empty/4keys/3values", newAlphabet(keysQuick, []int{0, 1, 2, 4}), nil, d("C02_DEPTH7", 7)},
	}
}

// pinPhase: the node database's pin operations in a small universe - commit + pin
// (Reference(root, {})), release of the oldest pin (Dereference), with writes that can
// lead two different histories to the same root (re-insert, delete-and-reinsert).
func pinPhase(depth int) phase {
	a := newAlphabetKinds([][]byte{{0x12}, {0x12, 0x34}, {0x13}}, []int{1, 5}, opHash, opCommitPin, opUnpin)
	return phase{"pins/3keys", a, nil, depth}
}

func envDepth(name string, def int) int {
	if s := os.Getenv(name); s != "" {
		var d int
		if _, err := fmt.Sscanf(s, "%d", &d); err == nil && d > 0 {
			return d
		}
	}
	return def
}

func selfTest() {
	// the reference must reproduce the constant every MPT implementation uses for the empty trie
	if hex.EncodeToString(refmpt.EmptyRoot()) != "56e81f171bcc55a6ff8345e692c0f86e5b48e01b996cadc001622fb5e363b421" {
		fmt.Fprintln(os.Stderr, "refmpt self-test failed")
		os.Exit(3)
	}
	m := map[string][]byte{"do": []byte("verb"), "horse": []byte("stallion"), "doge": []byte("coin"), "dog": []byte("puppy")}
	if hex.EncodeToString(refmpt.Root(m)) != "5991bb8c6514148a29db676a14ac506cd2cd5775ace63c30a4fe457715e9ac84" {
		fmt.Fprintln(os.Stderr, "refmpt self-test failed (ethereum/tests trieanyorder vector)")
		os.Exit(3)
	}
}

func run(c *fw.Ctx) {
	selfTest()
	if f := os.Getenv("C02_PPROF"); f != "" { // developer aid only
		if w, err := os.Create(f); err == nil {
			pprof.StartCPUProfile(w)
			defer pprof.StopCPUProfile()
		}
	}
	debug.SetGCPercent(150)
	if c.Thorough() {
		debug.SetMemoryLimit(16 << 30)
	} else {
		debug.SetMemoryLimit(2 << 30)
	}
	ngo := runtime.NumCPU()
	if c.NShards > 1 {
		ngo = (ngo + c.NShards - 1) / c.NShards
	}
	c.Note("goroutines", ngo)
	vr := &violRec{sigs: map[string]*sigRec{}, n: map[string]int64{}}
	rcs := map[*alphabet]*refCache{}
	var bounds []string
	capped := false
	// the small pin universe and the cheap targeted families first (seconds), then the
	// other BFS phases (the bulk)
	all := phases(c.Thorough())
	runBFS := func(ph phase) bool {
		rc := rcs[ph.a]
		if rc == nil {
			rc = newRefCache(ph.a.keys)
			rcs[ph.a] = rc
		}
		done := bfs(c, ph, rc, vr, ngo)
		bounds = append(bounds, fmt.Sprintf("%s: %d ops, seed length %d, depth %d of %d complete", ph.name, len(ph.a.ops), len(ph.seed), done, ph.depth))
		return done >= ph.depth
	}
	capped = !runBFS(all[0])
	if !capped {
		n, cfgs, ok := nibbleCoverage(c, vr, ngo, rcs)
		bounds = append(bounds, fmt.Sprintf("nibble-coverage: %d universes, %d histories, complete=%v", cfgs, n, ok))
		capped = !ok
	}
	if !capped {
		for _, pp := range pairPhases(c.Thorough()) {
			rc := newRefCache(pp.a.keys)
			rcs[pp.a] = rc
			n, ok := overwritePairs(c, pp, rc, vr, ngo)
			bounds = append(bounds, fmt.Sprintf("%s: %d values, %d histories, complete=%v", pp.name, len(relVals), n, ok))
			if !ok {
				capped = true
				break
			}
		}
	}
	if !capped {
		for _, ph := range all[1:] {
			if !runBFS(ph) {
				break
			}
		}
	}
	c.Note("value_alphabet_sizes", valueSizes())
	c.Note("bounds", bounds)
	c.Note("phase_samples", allSamples)
	vr.report(c)
	c.Outcome("held")
	// outcome classes: the canonical shapes that occurred
	for _, rc := range rcs {
		for i := range rc.tab {
			if ri := rc.tab[i].Load(); ri != nil {
				c.Outcome(fmt.Sprintf("shape:branches=%d,shorts=%d,embedded=%v", ri.branches, len(ri.shorts), ri.embedded))
			}
		}
		rc.big.Range(func(_, v interface{}) bool {
			ri := v.(*refInfo)
			c.Outcome(fmt.Sprintf("shape:branches=%d,shorts=%d,embedded=%v", ri.branches, len(ri.shorts), ri.embedded))
			return true
		})
	}
}

// ---------------------------------------------------------------- overwrite pairs
//
// Bounded-exhaustive enumeration of overwrites old -> new of ONE key over ALL ordered
// pairs of the relational value alphabet (prefix / extension / suffix / one byte
// changed / trailing zero / empty), for every key of the universe (leaf keys and keys
// that are a strict prefix of other keys, i.e. values in a branch slot), in every
// context {other keys absent, present with 1 B values, present with 32 B values},
// with every representation change between the two writes {none, hash, commit to
// memory once / twice (unloaded to hash nodes), commit to disk + reopen, commit to disk
// twice} and optionally commit to disk + reopen after the overwrite.  Every history
// and every setup prefix runs on a fresh real instance with the common oracle.

type pairPhase struct {
	name string
	a    *alphabet
}

func pairPhases(thorough bool) []pairPhase {
	pp := []pairPhase{{"overwrite-pairs/4keys", newAlphabet(keysQuick, relVals)}}
	if thorough {
		pp = append(pp, pairPhase{"overwrite-pairs/deep-keys", newAlphabet([][]byte{{0x12, 0x34, 0x56}, k31, k32a, k32b}, relVals)})
	}
	return pp
}

func valueSizes() []int {
	var n []int
	for _, v := range values {
		n = append(n, len(v))
	}
	return n
}

func (a *alphabet) find(want op) byte {
	for i, o := range a.ops {
		if o == want {
			return byte(i)
		}
	}
	panic("operation outside the alphabet")
}

func overwritePairs(c *fw.Ctx, pp pairPhase, rc *refCache, vr *violRec, ngo int) (int64, bool) {
	a := pp.a
	if len(a.ops) > 256 {
		panic("alphabet does not fit a byte")
	}
	kinds := func(ks ...opKind) []byte {
		var h []byte
		for _, kd := range ks {
			h = append(h, a.find(op{Kind: kd}))
		}
		return h
	}
	reps := [][]byte{nil, kinds(opHash), kinds(opCommitMem), kinds(opCommitMem, opCommitMem),
		kinds(opCommitDisk, opReopen), kinds(opCommitDisk, opCommitDisk)}
	posts := [][]byte{nil, kinds(opCommitDisk, opReopen)}
	// setup prefixes: context, first write, representation change
	type setup struct {
		hist []byte
		k    int
		old  int
	}
	var setups []setup
	for k := range a.keys {
		for _, other := range []int{0, 1, 4} {
			var ctx []byte
			if other != 0 {
				for k2 := range a.keys {
					if k2 != k {
						ctx = append(ctx, a.find(op{opUpdate, k2, other}))
					}
				}
			}
			for _, old := range relVals[1:] {
				for _, r := range reps {
					h := append(append(cp(ctx), a.find(op{opUpdate, k, old})), r...)
					setups = append(setups, setup{h, k, old})
				}
			}
		}
	}
	var idx int64 = -1
	var nHist, nNontriv, nViol int64
	var expired int32
	var wg sync.WaitGroup
	run1 := func(h []byte) {
		r := execute(a, rc, h, false)
		atomic.AddInt64(&nHist, 1)
		if r.ct.live() >= 2 && r.mask != 0 {
			atomic.AddInt64(&nNontriv, 1)
		}
		if len(r.viols) > 0 {
			atomic.AddInt64(&nViol, 1)
			vr.consider(a, rc, h, r.viols)
		}
	}
	for g := 0; g < ngo; g++ {
		wg.Add(1)
		go func() {
			defer wg.Done()
			for {
				i := atomic.AddInt64(&idx, 1)
				if i >= int64(len(setups)) {
					return
				}
				if !c.Mine(i) {
					continue
				}
				if i%16 == 0 && c.Expired() {
					atomic.StoreInt32(&expired, 1)
				}
				if atomic.LoadInt32(&expired) != 0 {
					return
				}
				su := setups[i]
				run1(su.hist)
				for _, nw := range relVals {
					if nw == su.old {
						continue
					}
					for _, post := range posts {
						h := append(append(cp(su.hist), a.find(op{opUpdate, su.k, nw})), post...)
						run1(h)
					}
				}
			}
		}()
	}
	wg.Wait()
	c.Eval(nHist)
	c.Trace(nHist)
	c.NontrivialN(nNontriv)
	c.Count("violating_histories", nViol)
	c.Count("overwrite_pair_histories", nHist)
	progress("%s: %d setups, %d histories, expired=%v", pp.name, len(setups), nHist, expired != 0)
	if expired != 0 {
		c.Cap("time cap in phase " + pp.name)
		return nHist, false
	}
	return nHist, true
}

// ---------------------------------------------------------------- nibble coverage
//
// The key alphabet made relational: for a branch at nibble position 0 (root branch),
// 1, 2 (after a 2-nibble extension) and 60 (after a long extension) a family of keys
// that differ exactly in the nibble at that position - all 16 nibbles, and the sparse
// sets {0,f}, {7,8}, {e,f}, {0,1,f} - with 1 B values (children embedded in the branch)
// or 40 B values (hashed children), with and without the key that ends at the branch
// (value slot 16; only possible at even positions).  Histories: insert all (ascending
// or descending), a checkpoint {none, hash, commit to memory x1/x2, commit to disk
// x1/x2, commit to disk + reopen through a fresh NodeDatabase}, then
//   (single)     for every key: delete it / overwrite it with the other value, then a
//                checkpoint {none, commit to memory, commit to disk + reopen};
//   (cumulative) delete / overwrite the keys one after the other (ascending and
//                descending) with that checkpoint after every step - every prefix of
//                such a sequence is a history of its own.
// After each history the common observers read every key of the universe, iterate,
// and compare the root with the reference; after a reopen also reopen-vs-fresh.

type nibbleCfg struct {
	name string
	keys [][]byte
	vals []int // value index written for key i
}

func nibbleConfigs(thorough bool) []nibbleCfg {
	long := rep(0x9c, 30)
	type pos struct {
		name   string
		prefix []byte // key = prefix + one byte holding the varying nibble
		high   bool   // the varying nibble is the high nibble of that byte
		branch bool   // a key can end at the branch (= prefix)
	}
	poss := []pos{
		{"pos0", nil, true, true},
		{"pos1", nil, false, false},
		{"pos2", []byte{0x12}, true, true},
		{"pos60", long, true, true},
	}
	if thorough {
		poss = append(poss, pos{"pos61", long, false, false}, pos{"pos3", []byte{0x12}, false, false})
	}
	sets := []struct {
		name string
		nib  []int
	}{
		{"all16", []int{0, 1, 2, 3, 4, 5, 6, 7, 8, 9, 10, 11, 12, 13, 14, 15}},
		{"0f", []int{0, 15}}, {"78", []int{7, 8}}, {"ef", []int{14, 15}}, {"01f", []int{0, 1, 15}},
	}
	valModes := []struct {
		name string
		v    [2]int
	}{{"1B", [2]int{1, 1}}, {"40B", [2]int{5, 5}}}
	if thorough {
		valModes = append(valModes, struct {
			name string
			v    [2]int
		}{"mixed", [2]int{1, 5}})
	}
	var out []nibbleCfg
	for _, p := range poss {
		for _, st := range sets {
			for _, vm := range valModes {
				for _, withBranch := range []bool{false, true} {
					if withBranch && !p.branch {
						continue
					}
					// sameTail: the keys differ in nothing but that nibble, so equal values give
					// identical (shared, content-addressed) children; otherwise the rest of the
					// key differs too and every child is a node of its own.
					for _, sameTail := range []bool{true, false} {
						cfg := nibbleCfg{name: fmt.Sprintf("%s/%s/%s/branchkey=%v/sametail=%v", p.name, st.name, vm.name, withBranch, sameTail)}
						if withBranch {
							cfg.keys = append(cfg.keys, cp(p.prefix))
							cfg.vals = append(cfg.vals, vm.v[1])
						}
						for i, x := range st.nib {
							var tail []byte
							switch {
							case p.high && sameTail:
								tail = []byte{byte(x<<4 | 0x3)}
							case p.high:
								tail = []byte{byte(x<<4 | x)}
							case sameTail:
								tail = []byte{byte(0x50 | x)}
							default:
								tail = []byte{byte(0x50 | x), byte(x * 17)}
							}
							cfg.keys = append(cfg.keys, append(cp(p.prefix), tail...))
							cfg.vals = append(cfg.vals, vm.v[i%2])
						}
						out = append(out, cfg)
					}
				}
			}
		}
	}
	return out
}

type nibJob struct {
	a    *alphabet
	rc   *refCache
	hist []byte
}

func nibbleJobs(cfg nibbleCfg) (*alphabet, *refCache, [][]byte) {
	a := newAlphabet(cfg.keys, []int{0, 1, 5})
	rc := newRefCache(cfg.keys)
	kinds := func(ks ...opKind) []byte {
		var h []byte
		for _, kd := range ks {
			h = append(h, a.find(op{Kind: kd}))
		}
		return h
	}
	cp1 := [][]byte{nil, kinds(opHash), kinds(opCommitMem), kinds(opCommitMem, opCommitMem), kinds(opCommitDisk),
		kinds(opCommitDisk, opCommitDisk), kinds(opCommitDisk, opReopen)}
	cp2 := [][]byte{nil, kinds(opCommitMem), kinds(opCommitDisk, opReopen)}
	n := len(cfg.keys)
	other := func(k int) int {
		if cfg.vals[k] == 1 {
			return 5
		}
		return 1
	}
	mods := func(k int) []byte {
		return []byte{a.find(op{opDelete, k, 0}), a.find(op{opUpdate, k, other(k)})}
	}
	seen := map[string]bool{}
	var hists [][]byte
	emit := func(h []byte) {
		if !seen[string(h)] {
			seen[string(h)] = true
			hists = append(hists, cp(h))
		}
	}
	for _, desc := range []bool{false, true} {
		order := make([]int, n)
		for i := range order {
			order[i] = i
			if desc {
				order[i] = n - 1 - i
			}
		}
		var ins []byte
		for _, k := range order {
			ins = append(ins, a.find(op{opUpdate, k, cfg.vals[k]}))
			emit(ins) // every prefix of the build-up
		}
		for _, c1 := range cp1 {
			base := append(cp(ins), c1...)
			for i := len(ins) + 1; i <= len(base); i++ {
				emit(base[:i])
			}
			// single modification of every key
			for k := 0; k < n; k++ {
				for _, m := range mods(k) {
					for _, c2 := range cp2 {
						h := append(append(cp(base), m), c2...)
						emit(h[:len(base)+1])
						emit(h)
					}
				}
			}
		}
		// cumulative sequences from the dirty trie and from the reopened trie
		for _, c1 := range [][]byte{nil, kinds(opCommitDisk, opReopen)} {
			base := append(cp(ins), c1...)
			for _, seqDesc := range []bool{false, true} {
				for mi := 0; mi < 2; mi++ {
					for _, c2 := range cp2 {
						h := cp(base)
						for j := 0; j < n; j++ {
							k := j
							if seqDesc {
								k = n - 1 - j
							}
							h = append(h, mods(k)[mi])
							emit(h)
							for _, o := range c2 {
								h = append(h, o)
								emit(h)
							}
						}
					}
				}
			}
		}
	}
	return a, rc, hists
}

func nibbleCoverage(c *fw.Ctx, vr *violRec, ngo int, rcs map[*alphabet]*refCache) (int64, int, bool) {
	cfgs := nibbleConfigs(c.Thorough())
	var jobs []nibJob
	for _, cfg := range cfgs {
		a, rc, hists := nibbleJobs(cfg)
		rcs[a] = rc
		for _, h := range hists {
			jobs = append(jobs, nibJob{a, rc, h})
		}
	}
	// shortest histories first, one length after the other: a history that extends a
	// history on which implementation and model already diverged is skipped (it could
	// only repeat that deviation), exactly like diverged states in the BFS phases
	sort.SliceStable(jobs, func(i, j int) bool { return len(jobs[i].hist) < len(jobs[j].hist) })
	var dmu sync.RWMutex
	diverged := map[*alphabet]map[string]bool{}
	hasDivergedPrefix := func(j nibJob) bool {
		dmu.RLock()
		defer dmu.RUnlock()
		m := diverged[j.a]
		if len(m) == 0 {
			return false
		}
		for n := 1; n < len(j.hist); n++ {
			if m[string(j.hist[:n])] {
				return true
			}
		}
		return false
	}
	var nHist, nNontriv, nViol, nSkipped int64
	var expired int32
	for lo := 0; lo < len(jobs) && expired == 0; {
		hi := lo
		for hi < len(jobs) && len(jobs[hi].hist) == len(jobs[lo].hist) {
			hi++
		}
		idx := int64(lo) - 1
		var wg sync.WaitGroup
		for g := 0; g < ngo; g++ {
			wg.Add(1)
			go func() {
				defer wg.Done()
				for {
					i := atomic.AddInt64(&idx, 1)
					if i >= int64(hi) {
						return
					}
					if !c.Mine(i) {
						continue
					}
					if i%64 == 0 && c.Expired() {
						atomic.StoreInt32(&expired, 1)
					}
					if atomic.LoadInt32(&expired) != 0 {
						return
					}
					j := jobs[i]
					if hasDivergedPrefix(j) {
						atomic.AddInt64(&nSkipped, 1)
						continue
					}
					r := execute(j.a, j.rc, j.hist, false)
					atomic.AddInt64(&nHist, 1)
					if r.ct.live() >= 2 && r.mask != 0 {
						atomic.AddInt64(&nNontriv, 1)
					}
					if len(r.viols) > 0 {
						atomic.AddInt64(&nViol, 1)
						vr.consider(j.a, j.rc, j.hist, r.viols)
						for _, v := range r.viols {
							if !strings.HasPrefix(v.Sig, "C02:iter-order") {
								dmu.Lock()
								if diverged[j.a] == nil {
									diverged[j.a] = map[string]bool{}
								}
								diverged[j.a][string(j.hist)] = true
								dmu.Unlock()
								break
							}
						}
					}
				}
			}()
		}
		wg.Wait()
		lo = hi
	}
	c.Eval(nHist)
	c.Trace(nHist)
	c.NontrivialN(nNontriv)
	c.Count("violating_histories", nViol)
	c.Count("diverged_extensions_skipped", nSkipped)
	c.Count("nibble_coverage_histories", nHist)
	progress("nibble-coverage: %d universes, %d histories, expired=%v", len(cfgs), nHist, expired != 0)
	if expired != 0 {
		c.Cap("time cap in phase nibble-coverage")
		return nHist, len(cfgs), false
	}
	return nHist, len(cfgs), true
}

// progress appends a line to progress.log in the worker's scratch directory (developer aid).
func progress(format string, args ...interface{}) {
	f, err := os.OpenFile("progress.log", os.O_CREATE|os.O_APPEND|os.O_WRONLY, 0o644)
	if err != nil {
		return
	}
	fmt.Fprintf(f, "%s "+format+"\n", append([]interface{}{time.Now().Format("15:04:05")}, args...)...)
	f.Close()
}

var (
	samplesMu  sync.Mutex
	allSamples []interface{}
)

// bfs runs one phase and returns the depth that was completed.
func bfs(c *fw.Ctx, ph phase, rc *refCache, vr *violRec, ngo int) int {
	a, depth := ph.a, ph.depth
	// the seed is a history like any other: every prefix of it is checked first
	for n := 1; n <= len(ph.seed); n++ {
		r := execute(a, rc, ph.seed[:n], false)
		c.Trace(1)
		c.Eval(1)
		if len(r.viols) > 0 {
			vr.consider(a, rc, ph.seed[:n], r.viols)
		}
	}
	visited := newSet()
	root := execute(a, rc, ph.seed, false)
	visited.add(root.key)
	c.State(1)
	frontier := []*stateRec{{hist: append([]byte(nil), ph.seed...), mask: root.mask}}
	var smu sync.Mutex
	var sampleHist []byte
	sampleDepth := 3
	if len(ph.seed) == 0 {
		sampleDepth = 4 // two keys must still be live after a removal
	}
	if depth < sampleDepth {
		sampleDepth = depth
	}
	completed := 0
	defer func() {
		if sampleHist != nil {
			rr := execute(a, rc, sampleHist, true)
			smp := map[string]interface{}{"phase": ph.name, "history": histString(a, sampleHist), "state_dump_after": rr.dump,
				"features": maskNames(rr.mask), "reference_root": hex.EncodeToString(rc.get(rr.ct).root)}
			c.Sample(smp)
			samplesMu.Lock()
			allSamples = append(allSamples, smp)
			samplesMu.Unlock()
		}
	}()

	for d := 1; d <= depth && len(frontier) > 0; d++ {
		next := newNext()
		var lastSeen *shardedSet
		lastLevel := d == depth
		if lastLevel {
			lastSeen = newSet() // states of the last level are only counted
		}
		var idx int64 = -1
		var wg sync.WaitGroup
		var expired int32
		var nTrans, nNontriv, nNewLast, nViolCases int64
		for g := 0; g < ngo; g++ {
			wg.Add(1)
			go func() {
				defer wg.Done()
				hist := make([]byte, 0, len(ph.seed)+depth)
				for {
					i := atomic.AddInt64(&idx, 1)
					if i >= int64(len(frontier)) {
						return
					}
					if i%64 == 0 && c.Expired() {
						atomic.StoreInt32(&expired, 1)
					}
					if atomic.LoadInt32(&expired) != 0 {
						return
					}
					s := frontier[i]
					for oi := range a.ops {
						// with several worker processes the first-level subtrees are sharded
						if d == 1 && !c.Mine(int64(oi)) {
							continue
						}
						hist = append(hist[:0], s.hist...)
						hist = append(hist, byte(oi))
						r := execute(a, rc, hist, false)
						atomic.AddInt64(&nTrans, 1)
						mask := r.mask // accumulated over the whole history by the replay
						if r.ct.live() >= 2 && mask != 0 {
							atomic.AddInt64(&nNontriv, 1)
						}
						tainted := r.final
						if len(r.viols) > 0 {
							atomic.AddInt64(&nViolCases, 1)
							vr.consider(a, rc, hist, r.viols)
							for _, v := range r.viols {
								// a wrong iteration *order* is a read-only deviation; everything else means
								// implementation and model have diverged, successors would only repeat it
								tainted = tainted || !strings.HasPrefix(v.Sig, "C02:iter-order")
							}
						}
						if visited.has(r.key) {
							continue
						}
						if lastLevel {
							i0 := r.key[0]
							lastSeen.mu[i0].Lock()
							if _, ok := lastSeen.m[i0][r.key]; !ok {
								lastSeen.m[i0][r.key] = struct{}{}
								atomic.AddInt64(&nNewLast, 1)
							}
							lastSeen.mu[i0].Unlock()
						} else {
							next.put(r.key, hist, mask, tainted)
						}
						// one written-out sample per phase: the smallest history of a fixed small length with a collapse / merge
						if d == sampleDepth && r.ct.live() >= 2 && mask&(fCollapse|fMerge) != 0 {
							smu.Lock()
							if sampleHist == nil || bytes.Compare(hist, sampleHist) < 0 {
								sampleHist = append([]byte(nil), hist...)
							}
							smu.Unlock()
						}
					}
				}
			}()
		}
		wg.Wait()
		c.Transition(nTrans)
		c.Trace(nTrans)
		c.Eval(nTrans)
		c.NontrivialN(nNontriv)
		c.Count("violating_histories", nViolCases)
		progress("%s depth %d/%d: frontier %d, transitions %d, expired=%v", ph.name, d, depth, len(frontier), nTrans, expired != 0)

		if expired != 0 {
			c.Cap(fmt.Sprintf("time cap in phase %s during depth %d of %d (depth %d complete)", ph.name, d, depth, completed))
			break
		}
		completed = d
		if lastLevel {
			c.State(nNewLast)
			c.Count(fmt.Sprintf("new_states[%s]depth_%d", ph.name, d), nNewLast)
			break
		}
		var nf []*stateRec
		var nstates, ntainted int64
		for i := range next.m {
			for k, s := range next.m[i] {
				visited.add(k)
				nstates++
				if s.tainted {
					ntainted++
					continue
				}
				nf = append(nf, s)
			}
		}
		sort.Slice(nf, func(i, j int) bool { return bytes.Compare(nf[i].hist, nf[j].hist) < 0 })
		c.State(nstates)
		c.Count(fmt.Sprintf("new_states[%s]depth_%d", ph.name, d), nstates)
		c.Count("diverged_states_not_expanded", ntainted)
		frontier = nf
	}
	return completed
}

func maskNames(m uint8) []string {
	var s []string
	for i, n := range []string{"branch-split", "branch-collapse", "short-node-merge", "embedded-node"} {
		if m&(1<<uint(i)) != 0 {
			s = append(s, n)
		}
	}
	return s
}

// ---------------------------------------------------------------- replay

func replay(c *fw.Ctx, raw json.RawMessage) {
	var k kase
	if err := json.Unmarshal(raw, &k); err != nil {
		fmt.Fprintln(os.Stderr, "bad case:", err)
		os.Exit(2)
	}
	var keys [][]byte
	for _, s := range k.Keys {
		b, _ := hex.DecodeString(s)
		keys = append(keys, b)
	}
	// alphabet of the replay: the universe of the case and the values it uses
	vals := []int{0}
	for vi := 1; vi < len(values); vi++ {
		for _, co := range k.Ops {
			if co.Op == "update" && co.Val == hex.EncodeToString(values[vi]) {
				vals = append(vals, vi)
				break
			}
		}
	}
	a := newAlphabetKinds(keys, vals, opHash, opCommitMem, opCommitDisk, opReopen, opLimit, opIter, opCap, opCommitPin, opUnpin)
	var hist []byte
	for _, co := range k.Ops {
		found := -1
		for oi, o := range a.ops {
			if kindName[o.Kind] != co.Op {
				continue
			}
			if o.Kind <= opGet && hex.EncodeToString(a.keys[o.K]) != co.Key {
				continue
			}
			if o.Kind == opUpdate && hex.EncodeToString(values[o.V]) != co.Val {
				continue
			}
			found = oi
			break
		}
		if found < 0 {
			fmt.Fprintf(os.Stderr, "case uses an operation outside the alphabet: %+v\n", co)
			os.Exit(2)
		}
		hist = append(hist, byte(found))
	}
	rc := newRefCache(a.keys)
	// every prefix is checked, like in the search
	for n := 1; n <= len(hist); n++ {
		r := execute(a, rc, hist[:n], true)
		fmt.Printf("after [%s]: content=%v dump=%s\n", histString(a, hist[:n]), r.ct[:len(a.keys)], r.dump)
		for _, v := range r.viols {
			c.Violation(v.Sig, v.Part, fmt.Sprintf("after history [%s]: %s", histString(a, hist[:n]), v.Msg), mkCase(a, hist[:n]))
		}
	}
}

func main() {
	fw.Main(fw.Check{
		ID: "C02", Level: "model_checking",
		Rule: "explicit-state BFS, per phase over ALL operation histories seed.h with |h| <= depth (seed = empty history or a fixed history that fills the key universe " +
			"and leaves it dirty / committed-and-unloaded / reopened; see coverage.bounds) on the real trie (fresh instance + replay per transition); " +
			"ops: update(k,v) for v in {empty,1,29,31,32,40 B; all leading parts of one byte stream}, delete(k), get(k), hash, commit (trie only), commit+NodeDatabase.Commit, reopen, SetCacheLimit(1), NodeDatabase.Cap(0), full iteration; in the pin universe commit+Reference(root,{}) and Dereference(oldest pinned root) with a pin counter per root in the model (every still-pinned root must reopen and read like its content; nothing is claimed for the live trie after the last pin of its committed root is released); " +
			"states merged on implementation dump (node graph with kinds/keys/dirty/cached-hash/age, NodeDatabase cache, disk keys) + model; " +
			"plus overwrite-pair phases: every ordered pair old->new of the relational value alphabet (bases 1/29/31/32/33/40 B, each with strict prefix, strict suffix, last byte changed, " +
			"first byte changed, trailing 0x00, and empty) on every key (leaf and branch-slot keys) x {others absent, 1 B, 32 B} x {none, hash, commitmem, commitmem x2, commitdisk+reopen, commitdisk x2} between the writes x {none, commitdisk+reopen} after; " +
			"plus nibble-coverage universes: keys differing exactly in the nibble at branch position 0/1/2/60 (all 16 nibbles and {0,f},{7,8},{e,f},{0,1,f}), 1 B or 40 B values, with/without the key ending at the branch, key tails identical (shared children) or distinct; " +
			"insert all, checkpoint {none,hash,commitmem x1/x2,commitdisk x1/x2,commitdisk+reopen}, then delete/overwrite every key singly and cumulatively with checkpoints {none,commitmem,commitdisk+reopen}; " +
			"a history is distinct by construction (shortest history of its source state + one op) and non-trivial when its final trie holds >= 2 keys " +
			"and the history changed the canonical shape by a branch split, a branch collapse or a short-node merge, or produced an embedded (<32 B) node",
		Assumptions: []string{
			"reference refmpt (Yellow Paper app. D, own RLP, x/crypto keccak) is correct; it is cross-checked against ethereum/tests vectors",
			"state keys are 128-bit truncated SHA-256 of the dump (no collisions)",
			"MemDatabase stands for the disk database; NodeDatabase.Commit to it is atomic (crash prefixes are C03)",
			"reopen opens the last root committed to disk; uncommitted writes are dropped in the model as well",
			"single-threaded use of Trie",
		},
		Run: run, Replay: replay,
		Workers: func(string) int { return 1 }, // one process, NumCPU goroutines, one global visited set
		Budget: func(tier string) time.Duration {
			if tier == "thorough" {
				return 17 * time.Minute
			}
			return 70 * time.Second
		},
	})
}
