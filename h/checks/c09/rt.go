package main

import (
	"fmt"

	"verif/h/fw"

	"com.tuntun.rangers/node/src/common"
	"com.tuntun.rangers/node/src/middleware/types"
)

// codec describes serialise / parse / compare for one object kind.
type codec[T any] struct {
	kind    string
	marshal func(*T) ([]byte, error)
	parse   func([]byte) (*T, error)
	diff    func(a, b *T) string
	genHash func(*T) common.Hash // recomputed identifying hash (nil: none)
	stored  func(*T) common.Hash // stored identifying hash (nil: none)
	apiName string
}

// pass = parse(serialise(x)); status is "ok" or the stage that failed.
func pass[T any](cd codec[T], x *T) (out *T, status string, detail string) {
	var b []byte
	var err error
	p, v, site := fw.Try(func() { b, err = cd.marshal(x) })
	switch {
	case p:
		return nil, "marshal-panic", fmt.Sprintf("%v at %s", v, site)
	case err != nil:
		return nil, "marshal-error", err.Error()
	case b == nil:
		// a nil byte string without error: the serialisers' way of refusing (e.g. unencodable time)
		return nil, "marshal-nil", ""
	}
	p, v, site = fw.Try(func() { out, err = cd.parse(b) })
	switch {
	case p:
		return nil, "parse-panic:" + site, fmt.Sprintf("%v at %s", v, site)
	case err != nil:
		return nil, "parse-error", err.Error()
	case out == nil:
		return nil, "parse-nil", ""
	}
	return out, "ok", ""
}

func compare[T any](cd codec[T], a, b *T) (string, string) {
	if d := cd.diff(a, b); d != "" {
		return d, "field " + d + " differs after serialise+parse"
	}
	if cd.genHash != nil {
		var ha, hb common.Hash
		p, v, site := fw.Try(func() { ha, hb = cd.genHash(a), cd.genHash(b) })
		if p {
			return "GenHash-panic", fmt.Sprintf("GenHash panicked: %v at %s", v, site)
		}
		if ha != hb {
			return "GenHash", fmt.Sprintf("GenHash() %x before, %x after serialise+parse", ha[:6], hb[:6])
		}
	}
	if cd.stored != nil && cd.stored(a) != cd.stored(b) {
		return "StoredHash", "stored Hash differs after serialise+parse"
	}
	return "", ""
}

// evalRT returns (sig, message); sig == "" means the law holds for x.
//
//	strict  (node-producible / parsed values):  x1 = f(x) exists, content(x1)=content(x), hashes equal
//	!strict (arbitrary in-memory values):       if x1 = f(x) exists then f(x1) exists and equals x1
func evalRT[T any](cd codec[T], x *T, strict bool) (sig, msg, outcome string) {
	x1, st, det := pass(cd, x)
	if st != "ok" {
		if len(st) > 12 && st[:12] == "parse-panic:" {
			return "C09:panic:" + st[12:], cd.apiName + " panicked on bytes produced by the serialiser: " + det, "panic"
		}
		if st == "parse-nil" {
			return "C09:nil-object:" + cd.apiName, cd.apiName + " returned nil object and nil error on bytes produced by the serialiser", "nil-object"
		}
		if strict {
			return "C09:roundtrip:" + cd.kind + ":" + st, "serialise+parse failed at " + st + ": " + det, st
		}
		return "", "", "unserialisable:" + st
	}
	if strict {
		if f, m := compare(cd, x, x1); f != "" {
			return "C09:roundtrip:" + cd.kind + ":" + f, m, "diff"
		}
		return "", "", "equal"
	}
	x2, st2, det2 := pass(cd, x1)
	if st2 != "ok" {
		return "C09:fixpoint:" + cd.kind + ":" + st2, "second serialise+parse pass failed at " + st2 + ": " + det2, st2
	}
	if f, m := compare(cd, x1, x2); f != "" {
		return "C09:fixpoint:" + cd.kind + ":" + f, "f(f(x)) != f(x): " + m, "diff"
	}
	if f, _ := compare(cd, x, x1); f != "" {
		return "", "", "fixpoint-normalised" // x itself was changed by the first pass: allowed
	}
	return "", "", "fixpoint-equal"
}

func runRT[T any](r *runner, cd codec[T], x *T, strict bool, k kase, describe func() string) {
	r.c.Eval(1)
	sig, msg, outcome := evalRT(cd, x, strict)
	part := "roundtrip"
	if !strict {
		part = "fixpoint"
	}
	r.c.Outcome(part + ":" + cd.kind + ":" + outcome)
	r.c.NontrivialN(1)
	if sig != "" {
		if describe != nil {
			msg += " | value: " + describe()
		}
		r.violation(sig, part, msg, k, func() string { s, _, _ := evalRT(cd, x, strict); return s })
	}
}

// ---------------------------------------------------------------- codecs

var txCodec = codec[types.Transaction]{
	kind: "tx", apiName: "UnMarshalTransaction",
	marshal: func(t *types.Transaction) ([]byte, error) { return types.MarshalTransaction(t) },
	parse: func(b []byte) (*types.Transaction, error) {
		t, err := types.UnMarshalTransaction(b)
		if err != nil {
			return nil, err
		}
		return &t, nil
	},
	diff:    txDiff,
	genHash: func(t *types.Transaction) common.Hash { return t.GenHash() },
	stored:  func(t *types.Transaction) common.Hash { return t.Hash },
}

type txList struct{ l []*types.Transaction }

func txListDiff(a, b []*types.Transaction) string {
	if len(a) != len(b) {
		return "len"
	}
	for i := range a {
		if (a[i] == nil) != (b[i] == nil) {
			return fmt.Sprintf("[%d]:nil", i)
		}
		if a[i] == nil {
			continue
		}
		if d := txDiff(a[i], b[i]); d != "" {
			return "tx." + d
		}
		if a[i].GenHash() != b[i].GenHash() {
			return "tx.GenHash"
		}
	}
	return ""
}

var txsCodec = codec[txList]{
	kind: "txs", apiName: "UnMarshalTransactions",
	marshal: func(t *txList) ([]byte, error) {
		b, err := types.MarshalTransactions(t.l)
		if err == nil && b == nil {
			b = []byte{} // an empty list legitimately serialises to zero bytes
		}
		return b, err
	},
	parse: func(b []byte) (*txList, error) {
		l, err := types.UnMarshalTransactions(b)
		if err != nil {
			return nil, err
		}
		if l == nil {
			return nil, nil
		}
		return &txList{l}, nil
	},
	diff: func(a, b *txList) string { return txListDiff(a.l, b.l) },
}

var hdrCodec = codec[types.BlockHeader]{
	kind: "header", apiName: "UnMarshalBlockHeader",
	marshal: func(h *types.BlockHeader) ([]byte, error) { return types.MarshalBlockHeader(h) },
	parse:   types.UnMarshalBlockHeader,
	diff:    hdrDiff,
	genHash: func(h *types.BlockHeader) common.Hash { return h.GenHash() },
	stored:  func(h *types.BlockHeader) common.Hash { return h.Hash },
}

var blockCodec = codec[types.Block]{
	kind: "block", apiName: "UnMarshalBlock",
	marshal: func(b *types.Block) ([]byte, error) { return types.MarshalBlock(b) },
	parse: func(b []byte) (*types.Block, error) {
		blk, err := types.UnMarshalBlock(b)
		if err == nil && blk != nil && blk.Header == nil {
			return nil, nil // a serialised block always carries its header
		}
		return blk, err
	},
	diff: func(a, b *types.Block) string {
		if d := hdrDiff(a.Header, b.Header); d != "" {
			return "Header." + d
		}
		if d := txListDiff(a.Transactions, b.Transactions); d != "" {
			return "Transactions." + d
		}
		return ""
	},
	genHash: func(b *types.Block) common.Hash { return b.Header.GenHash() },
	stored:  func(b *types.Block) common.Hash { return b.Header.Hash },
}

var groupCodec = codec[types.Group]{
	kind: "group", apiName: "UnMarshalGroup",
	marshal: func(g *types.Group) ([]byte, error) { return types.MarshalGroup(g) },
	parse: func(b []byte) (*types.Group, error) {
		g, err := types.UnMarshalGroup(b)
		if err == nil && g != nil && g.Header == nil {
			return nil, nil
		}
		return g, err
	},
	diff:    groupDiff,
	genHash: func(g *types.Group) common.Hash { return g.Header.GenHash() },
	stored:  func(g *types.Group) common.Hash { return g.Header.Hash },
}

// ---------------------------------------------------------------- product spaces

type dim[T any] struct {
	name string
	n    int
	set  func(x *T, i int)
}

type space[T any] struct {
	name   string
	dims   []dim[T]
	strict bool
	cd     codec[T]
}

func (s *space[T]) total() int64 {
	t := int64(1)
	for _, d := range s.dims {
		t *= int64(d.n)
	}
	return t
}

// build fills x from the mixed-radix digits of idx (dims applied in order).
func (s *space[T]) build(idx int64) (*T, []int) {
	x := new(T)
	digits := make([]int, len(s.dims))
	for i := len(s.dims) - 1; i >= 0; i-- {
		digits[i] = int(idx % int64(s.dims[i].n))
		idx /= int64(s.dims[i].n)
	}
	for i, d := range s.dims {
		d.set(x, digits[i])
	}
	return x, digits
}

func (s *space[T]) describe(digits []int) string {
	out := ""
	for i, d := range s.dims {
		out += fmt.Sprintf("%s=#%d ", d.name, digits[i])
	}
	return out
}

func (s *space[T]) runOne(r *runner, idx int64) {
	x, digits := s.build(idx)
	k := kase{Part: map[bool]string{true: "rt", false: "fix"}[s.strict], Kind: s.cd.kind, Space: s.name, Idx: idx, Local: r.local}
	runRT(r, s.cd, x, s.strict, k, func() string { return s.describe(digits) })
}

// runAll enumerates this worker's share of the space; false if the deadline stopped it.
func (s *space[T]) runAll(r *runner) bool {
	c := r.c
	n := int64(c.NShards)
	if n < 1 {
		n = 1
	}
	first := ((int64(c.Shard)-c.Seed)%n + n) % n
	tot := s.total()
	cnt := 0
	for idx := first; idx < tot; idx += n {
		if !c.Mine(idx) {
			panic("harness: shard arithmetic")
		}
		s.runOne(r, idx)
		cnt++
		if cnt&1023 == 0 && c.Expired() {
			c.Cap(fmt.Sprintf("space %s stopped at %d of %d", s.name, idx, tot))
			return false
		}
	}
	c.Count("space_"+s.name, 0)
	return true
}
