package main

import (
	"encoding/json"
	"fmt"
	"time"

	"com.tuntun.rangers/node/src/middleware/types"
)

type baseMsg struct {
	kind string
	name string
	b    []byte
}

func three(total int64) [3]int64 { return [3]int64{0, total/2 + 12345%total, total - 1} }

// baseMessages: 3 valid messages per parser, produced by the repository's own serialisers
// from the minimal, a middle and the maximal point of the round-trip spaces.
func baseMessages(f *families) []baseMsg {
	var out []baseMsg
	add := func(kind, name string, b []byte, err error) {
		if err == nil && len(b) > 2 {
			out = append(out, baseMsg{kind, name, b})
		}
	}
	ts := txSpace()
	for _, ix := range three(ts.total()) {
		x, _ := ts.build(ix)
		b, err := types.MarshalTransaction(x)
		add("tx", fmt.Sprintf("MarshalTransaction(tx#%d)", ix), b, err)
	}
	js := txJsonSpace()
	for _, ix := range three(js.total()) {
		x, _ := js.build(ix)
		b, err := json.Marshal(x.ToTxJson())
		add("txjson", fmt.Sprintf("json(ToTxJson(txjson#%d))", ix), b, err)
	}
	ls := txsSpace()
	for _, ix := range [3]int64{2, ls.total() / 2, ls.total() - 1} {
		x, _ := ls.build(ix)
		b, err := types.MarshalTransactions(x.l)
		add("txs", fmt.Sprintf("MarshalTransactions(txs#%d)", ix), b, err)
	}
	hs := headerSpace(false)
	for _, ix := range three(hs.total()) {
		x, _ := hs.build(ix)
		b, err := types.MarshalBlockHeader(x)
		add("header", fmt.Sprintf("MarshalBlockHeader(header-quick#%d)", ix), b, err)
	}
	bs := blockSpace()
	for _, ix := range three(bs.total()) {
		x, _ := bs.build(ix)
		b, err := types.MarshalBlock(x)
		add("block", fmt.Sprintf("MarshalBlock(block#%d)", ix), b, err)
	}
	gs := groupSpace(false)
	for _, ix := range three(gs.total()) {
		x, _ := gs.build(ix)
		b, err := types.MarshalGroup(x)
		add("group", fmt.Sprintf("MarshalGroup(group#%d)", ix), b, err)
	}
	for p := 0; p < nProfiles; p++ {
		add("signdata", "SignData all fields profile "+profileNames[p], assemble(nil, f.sd, 15, p), nil)
	}
	return out
}

var boundaryBytes = []byte{0x00, 0x01, 0x7f, 0x80, 0xff}

// mutations: prefixes, single-byte substitutions (all 256 values), wire-type intrusions;
// thorough adds deletions, insertions and two-byte boundary substitutions.
func (r *runner) mutations(f *families, mine func() bool, stop func(string) bool) bool {
	c := r.c
	msgs := baseMessages(f)
	c.Count("base_messages", 0)
	sampled := false
	for mi, m := range msgs {
		m := m
		L := len(m.b)
		// quick: the container messages (their payload is the header / transaction encoding that
		// is substituted in full on its own) get a boundary subset of the 256 values
		reduced := !c.Thorough() && (m.kind == "block" || m.kind == "txs")
		if mine() {
			r.checkParse(m.kind, m.b, func() string { return m.name })
		}
		for n := 3; n < L; n++ {
			if mine() {
				r.checkParse(m.kind, m.b[:n], func() string { return fmt.Sprintf("prefix %d of %s", n, m.name) })
			}
		}
		mut := make([]byte, L)
		for i := 0; i < L; i++ {
			o := m.b[i]
			for v := 0; v < 256; v++ {
				if byte(v) == o {
					continue
				}
				if reduced {
					switch byte(v) {
					case 0x00, 0x01, 0x7f, 0x80, 0xff, o ^ 0x01, o ^ 0x80, o + 1, o - 1:
					default:
						continue
					}
				}
				if !mine() {
					continue
				}
				copy(mut, m.b)
				mut[i] = byte(v)
				r.checkParse(m.kind, mut, func() string { return fmt.Sprintf("byte %d := 0x%02x in %s", i, v, m.name) })
			}
			if i&63 == 0 && stop("byte substitutions") {
				return false
			}
		}
		if !sampled && m.kind == "header" {
			sampled = true
			c.Sample(map[string]interface{}{"family": "substitution", "message": m.name, "length": L, "cases": L * 255})
		}
		if !c.Thorough() {
			continue
		}
		// deletions and insertions
		for i := 0; i < L; i++ {
			if mine() {
				d := append(append([]byte{}, m.b[:i]...), m.b[i+1:]...)
				if len(d) > 2 {
					r.checkParse(m.kind, d, func() string { return fmt.Sprintf("delete byte %d of %s", i, m.name) })
				}
			}
		}
		for i := 0; i <= L; i++ {
			for v := 0; v < 256; v++ {
				if !mine() {
					continue
				}
				d := append(append(append([]byte{}, m.b[:i]...), byte(v)), m.b[i:]...)
				r.checkParse(m.kind, d, func() string { return fmt.Sprintf("insert 0x%02x at %d of %s", v, i, m.name) })
			}
			if i&63 == 0 && stop("byte insertions") {
				return false
			}
		}
		// two-byte boundary substitutions on the middle message of each parser
		if mi%3 == 1 {
			for i := 0; i < L; i++ {
				for j := i + 1; j < L; j++ {
					for _, v := range boundaryBytes {
						for _, w := range boundaryBytes {
							if v == m.b[i] || w == m.b[j] || !mine() {
								continue
							}
							copy(mut, m.b)
							mut[i], mut[j] = v, w
							r.checkParse(m.kind, mut, func() string {
								return fmt.Sprintf("bytes %d,%d := 0x%02x,0x%02x in %s", i, j, v, w, m.name)
							})
						}
					}
				}
				if stop("two-byte substitutions") {
					return false
				}
			}
		}
	}

	// wire-type intrusions: one foreign (field number, wire type, payload) element, alone,
	// after and before a complete message
	payloads := map[int][][]byte{
		0: {{0}, {1}, {0x80, 0x80, 0x80, 0x80, 0x80, 0x80, 0x80, 0x80, 0x80, 0x01}, {0xff, 0xff, 0xff, 0xff, 0xff, 0xff, 0xff, 0xff, 0xff, 0x01},
			{0xff, 0xff, 0xff, 0xff, 0xff, 0xff, 0xff, 0xff, 0xff, 0xff, 0x01}, {0x80}},
		1: {rep(0xff, 8), {1, 2, 3}},
		2: {{0}, {1, 0x41}, {5, 1, 2}, {0x80, 0x80, 0x80, 0x80, 0x08}, {0xff, 0xff, 0xff, 0xff, 0xff, 0xff, 0xff, 0xff, 0xff, 0x01}, {2, 0x08, 0x01}, {2, 0x0a, 0x00}},
		3: {{}, {0x08, 0x01}},
		4: {{}},
		5: {rep(0xff, 4), {1, 2}},
		6: {{}, {0}},
		7: {{}, {0}},
	}
	type host struct {
		kind string
		max  int
		full []byte
	}
	hosts := []host{
		{"tx", 15, f.fullTx},
		{"txs", 1, fBytes(1, f.fullTx)},
		{"header", 20, f.fullHdr},
		{"block", 2, cat(fBytes(1, f.fullHdr), fBytes(2, f.fullTx))},
		{"group", 6, cat(fBytes(1, assemble(nil, f.gh, 255, 0)), assemble(nil, f.g, 31, 0))},
		{"signdata", 4, assemble(nil, f.sd, 15, 0)},
	}
	for _, h := range hosts {
		h := h
		nums := []int{0}
		for n := 1; n <= h.max+1; n++ {
			nums = append(nums, n)
		}
		nums = append(nums, 1<<29-1)
		for _, num := range nums {
			for wt := 0; wt < 8; wt++ {
				for pi, pl := range payloads[wt] {
					el := append(putTag(nil, num, wt), pl...)
					for pos, b := range [][]byte{el, cat(h.full, el), cat(el, h.full)} {
						if len(b) <= 2 || !mine() {
							continue
						}
						r.checkParse(h.kind, b, func() string {
							return fmt.Sprintf("intrusion field=%d wiretype=%d payload#%d position=%d (0 alone,1 after,2 before a full %s)", num, wt, pi, pos, h.kind)
						})
					}
				}
			}
		}
		// nested intrusions for the two nested hosts: inside Block.Header / Group.Header / Block.transactions
		if h.kind == "block" || h.kind == "group" {
			inner, innerMax := f.fullHdr, 20
			if h.kind == "group" {
				inner, innerMax = assemble(nil, f.gh, 255, 0), 8
			}
			for num := 0; num <= innerMax+1; num++ {
				for wt := 0; wt < 8; wt++ {
					for pi, pl := range payloads[wt] {
						if !mine() {
							continue
						}
						el := append(putTag(nil, num, wt), pl...)
						b := fBytes(1, cat(inner, el))
						if h.kind == "group" {
							b = cat(b, assemble(nil, f.g, 31, 0))
						}
						r.checkParse(h.kind, b, func() string {
							return fmt.Sprintf("nested intrusion in %s header: field=%d wiretype=%d payload#%d", h.kind, num, wt, pi)
						})
					}
				}
			}
		}
	}
	return !stop("intrusions")
}

// ---------------------------------------------------------------- round-trip driver

func (r *runner) runSpaceCase(name string, idx int64) bool {
	switch name {
	case "tx":
		txSpace().runOne(r, idx)
	case "txs":
		txsSpace().runOne(r, idx)
	case "header-quick":
		headerSpaceQuick().runOne(r, idx)
	case "header-mid":
		headerSpace(false).runOne(r, idx)
	case "header-full":
		headerSpace(true).runOne(r, idx)
	case "tx-quick":
		txSpaceQuick().runOne(r, idx)
	case "group-quick":
		groupSpaceQuick().runOne(r, idx)
	case "header-mini":
		headerMiniSpace().runOne(r, idx)
	case "group":
		groupSpace(false).runOne(r, idx)
	case "block":
		blockSpace().runOne(r, idx)
	case "tx-strings":
		txStringSpace().runOne(r, idx)
	case "txjson":
		txJsonSpace().runOne(r, idx)
	case "fix-txjson":
		fixTxJsonSpace().runOne(r, idx)
	case "fix-tx":
		fixTxSpace().runOne(r, idx)
	case "fix-header":
		fixHeaderSpace().runOne(r, idx)
	case "fix-group":
		fixGroupSpace().runOne(r, idx)
	default:
		return false
	}
	return true
}

// roundTrips runs the small spaces (big=false) or the large ones (big=true); false when the
// deadline stopped it.
func (r *runner) roundTrips(big bool) bool {
	c := r.c
	sizes := map[string]int64{}
	ok := true
	do := func(name string, total int64, run func() bool) {
		if !ok {
			c.Cap("space " + name + " not started")
			return
		}
		sizes[name+r.local] = total
		ok = run()
		r.lap("RT-" + name + r.local)
	}
	if !big {
		ls, bs := txsSpace(), blockSpace()
		ftx, fh, fg := fixTxSpace(), fixHeaderSpace(), fixGroupSpace()
		do(ftx.name, ftx.total(), func() bool { return ftx.runAll(r) })
		fj, sx := fixTxJsonSpace(), txStringSpace()
		do(fj.name, fj.total(), func() bool { return fj.runAll(r) })
		do(sx.name, sx.total(), func() bool { return sx.runAll(r) })
		do(fh.name, fh.total(), func() bool { return fh.runAll(r) })
		do(fg.name, fg.total(), func() bool { return fg.runAll(r) })
		do(bs.name, bs.total(), func() bool { return bs.runAll(r) })
		do(ls.name, ls.total(), func() bool { return ls.runAll(r) })

		// second pass of the time-bearing objects with a non-UTC local zone
		saved := time.Local
		r.local = localOverride
		setLocal(localOverride)
		hm := headerMiniSpace()
		do(hm.name, hm.total(), func() bool { return hm.runAll(r) })
		if c.Thorough() {
			gl, hq := groupSpaceQuick(), headerSpaceQuick()
			do(gl.name, gl.total(), func() bool { return gl.runAll(r) })
			do(hq.name, hq.total(), func() bool { return hq.runAll(r) })
		}
		time.Local = saved
		r.local = ""
		c.Note("roundtrip_space_sizes_small", sizes)
		return ok
	}
	ts, gs, hs := txSpace(), groupSpace(false), headerSpace(true)
	if !c.Thorough() {
		ts, gs, hs = txSpaceQuick(), groupSpaceQuick(), headerSpaceQuick()
	}
	tj := txJsonSpace()
	do(tj.name, tj.total(), func() bool { return tj.runAll(r) })
	do(gs.name, gs.total(), func() bool { return gs.runAll(r) })
	do(ts.name, ts.total(), func() bool { return ts.runAll(r) })
	do(hs.name, hs.total(), func() bool { return hs.runAll(r) })
	c.Note("roundtrip_space_sizes_big", sizes)
	if c.Shard == 0 {
		x, d := hs.build(hs.total() / 3)
		b, _ := types.MarshalBlockHeader(x)
		c.Sample(map[string]interface{}{"family": "roundtrip", "space": hs.name, "idx": hs.total() / 3, "digits": hs.describe(d), "bytes": len(b)})
	}
	return ok
}
