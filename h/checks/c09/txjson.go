package main

// The client-facing JSON transaction codec of core.go: Transaction.ToTxJson -> encoding/json ->
// TxJson.ToTransaction (the parser of network.ClientConn.handleClientMessage).

import (
	"encoding/json"
	"fmt"
	"math"

	"com.tuntun.rangers/node/src/common"
	"com.tuntun.rangers/node/src/middleware/types"
)

func parseTxJson(b []byte) (*types.Transaction, error) {
	var tj types.TxJson
	if err := json.Unmarshal(b, &tj); err != nil {
		return nil, err
	}
	t := tj.ToTransaction()
	return &t, nil
}

// txJsonDiff: the fields TxJson carries (ExtraDataType, SubTransactions, SubHash have no
// representation in this codec; SocketRequestId is carried both ways here).
func txJsonDiff(a, b *types.Transaction) string {
	x, y := *a, *b
	x.ExtraDataType, y.ExtraDataType = 0, 0
	x.SubTransactions, y.SubTransactions = nil, nil
	x.SubHash, y.SubHash = common.Hash{}, common.Hash{}
	if d := txDiff(&x, &y); d != "" {
		return d
	}
	if a.SocketRequestId != b.SocketRequestId {
		return "SocketRequestId"
	}
	return ""
}

var txJsonCodec = codec[types.Transaction]{
	kind: "txjson", apiName: "TxJson.ToTransaction",
	marshal: func(t *types.Transaction) ([]byte, error) { return json.Marshal(t.ToTxJson()) },
	parse:   parseTxJson,
	diff:    txJsonDiff,
	genHash: func(t *types.Transaction) common.Hash { return t.GenHash() },
	stored:  func(t *types.Transaction) common.Hash { return t.Hash },
}

// spellings of address-like strings: empty, lower-case hex, EIP-55 mixed case, upper-case
// with 0X, no prefix, plain text, surrounding spaces, unicode
var addrStrings = []string{
	"",
	"0x1111111111111111111111111111111111111111",
	"0x5aAeb6053F3E94C9b9A09f33669435E7Ef1BeAed",
	"0XABCDEF0123456789ABCDEF0123456789ABCDEF01",
	"AbCdEf0123456789aBcDeF0123456789AbCdEf0123",
	"Hello World",
	" 0xAbC1 ",
	"Ünï©ødé-世界",
}

var (
	dataStrings  = []string{"", `{"K":"V","n":1}`, " MiXed Case ", "a\x00bÉ世"}
	extraStrings = []string{"", "ExTra ", "x\x00Y"}
	timeStrings  = []string{"", "2026-09-25T12:34:56Z", " Fri Sep 25 "}
	chainStrings = []string{"", "9500", "0xAbC"}
)

func stringDims(add func(name string, n int, set func(*txT, int))) {
	add("Source", len(addrStrings), func(t *txT, i int) { t.Source = addrStrings[i] })
	add("Target", len(addrStrings), func(t *txT, i int) { t.Target = addrStrings[(i+3)%len(addrStrings)] })
	add("Data", len(dataStrings), func(t *txT, i int) { t.Data = dataStrings[i] })
	add("ExtraData", len(extraStrings), func(t *txT, i int) { t.ExtraData = extraStrings[i] })
	add("Time", len(timeStrings), func(t *txT, i int) { t.Time = timeStrings[i] })
	add("ChainId", len(chainStrings), func(t *txT, i int) { t.ChainId = chainStrings[i] })
}

// txStringSpace: every spelling of every string field through the protobuf codec.
func txStringSpace() *space[txT] {
	signs := signAlphabet()
	var ds []dim[txT]
	add := func(name string, n int, set func(*txT, int)) { ds = append(ds, dim[txT]{name, n, set}) }
	stringDims(add)
	add("Sign", 2, func(t *txT, i int) { t.Sign = signs[i] })
	add("Hash", 2, func(t *txT, i int) {
		if i == 1 {
			t.Hash = t.GenHash()
		}
	})
	return &space[txT]{name: "tx-strings", dims: ds, strict: true, cd: txCodec}
}

func txJsonSpace() *space[txT] {
	signs := signAlphabet()
	var ds []dim[txT]
	add := func(name string, n int, set func(*txT, int)) { ds = append(ds, dim[txT]{name, n, set}) }
	stringDims(add)
	add("Type", 3, func(t *txT, i int) { t.Type = []int32{0, -1, math.MaxInt32}[i] })
	add("Nonce", 2, func(t *txT, i int) { t.Nonce = u64s2[i] })
	add("RequestId", 2, func(t *txT, i int) { t.RequestId = u64s2[i] })
	add("SocketRequestId", 2, func(t *txT, i int) { t.SocketRequestId = []string{"", "Sock-1"}[i] })
	add("Sign", 3, func(t *txT, i int) { t.Sign = signs[i] })
	add("Hash", 2, func(t *txT, i int) {
		if i == 1 {
			t.Hash = t.GenHash()
		}
	})
	return &space[txT]{name: "txjson", dims: ds, strict: true, cd: txJsonCodec}
}

// arbitrary in-memory values: fields this codec does not carry, invalid UTF-8 (encoding/json
// replaces it), odd signatures -> only the fixed-point law
func fixTxJsonSpace() *space[txT] {
	s := fixTxSpace()
	ds := append([]dim[txT]{}, s.dims...)
	ds = append(ds,
		dim[txT]{"ExtraDataType", 2, func(t *txT, i int) { t.ExtraDataType = int32(i) }},
		dim[txT]{"SubHash", 2, func(t *txT, i int) { t.SubHash = []common.Hash{{}, hB}[i] }},
		dim[txT]{"Target", 2, func(t *txT, i int) { t.Target = []string{"\xfe", "0xAB"}[i] }},
	)
	return &space[txT]{name: "fix-txjson", dims: ds, strict: false, cd: txJsonCodec}
}

// jsonValues: JSON texts put at every key of the TxJson object (wrong types, extreme numbers,
// malformed hex, odd prefixes).
var jsonValues = []string{
	`null`, `true`, `0`, `-1`, `1.5`, `1e400`, `18446744073709551615`, `18446744073709551616`, `2147483648`, `-2147483649`,
	`""`, `"0x"`, `"0X"`, `"0"`, `"0xZZ"`, `"0xAbC"`, `" 0xabc "`, `"Ünï"`, `"\ud800"`, `{}`, `[]`, `[1]`, `{"a":1}`,
	`"0x` + fmt.Sprintf("%0130x", 7) + `"`, `"0X` + fmt.Sprintf("%0130X", 0xabcdef) + `"`, `"` + fmt.Sprintf("%0130x", 7) + `"`,
	`"0x` + fmt.Sprintf("%0128x", 7) + `"`, `"0x` + fmt.Sprintf("%0132x", 7) + `"`, `"0x` + fmt.Sprintf("%064x", 9) + `"`, `"0x` + fmt.Sprintf("%066X", 0xAB) + `"`,
}

var txJsonKeys = []string{"source", "target", "type", "time", "data", "extraData", "hash", "sign", "nonce", "RequestId", "socketRequestId", "chainId", "Source", "unknown"}

func (r *runner) txJsonFieldCases(mine func() bool) {
	ts := txJsonSpace()
	full, _ := ts.build(ts.total() - 1)
	fullJSON, err := json.Marshal(full.ToTxJson())
	if err != nil {
		return
	}
	for _, k := range txJsonKeys {
		for _, v := range jsonValues {
			alone := []byte(`{"` + k + `":` + v + `}`)
			// duplicate key after a complete object: the later value wins in encoding/json
			after := append(append([]byte{}, fullJSON[:len(fullJSON)-1]...), []byte(`,"`+k+`":`+v+`}`)...)
			for _, b := range [][]byte{alone, after} {
				if !mine() {
					continue
				}
				b := b
				po := r.checkParse("txjson", b, func() string { return fmt.Sprintf("TxJson key %q := %s", k, v) })
				if po.class == "ok" {
					r.parsedRT("txjson", b, po)
				}
			}
		}
	}
}
