package main

// Hand-written protobuf (proto2) wire encoder and the per-field value profiles used by the
// presence-subset enumeration.  Field numbers / wire types are those of src/middleware/pb/x.pb.go.

import (
	"time"
)

func putUvarint(b []byte, v uint64) []byte {
	for v >= 0x80 {
		b = append(b, byte(v)|0x80)
		v >>= 7
	}
	return append(b, byte(v))
}

func putTag(b []byte, field int, wt int) []byte { return putUvarint(b, uint64(field)<<3|uint64(wt)) }

func fBytes(field int, p []byte) []byte {
	b := putTag(nil, field, 2)
	b = putUvarint(b, uint64(len(p)))
	return append(b, p...)
}

func fVarint(field int, v uint64) []byte {
	return putUvarint(putTag(nil, field, 0), v)
}

func cat(parts ...[]byte) []byte {
	var out []byte
	for _, p := range parts {
		out = append(out, p...)
	}
	return out
}

func rep(b byte, n int) []byte {
	out := make([]byte, n)
	for i := range out {
		out[i] = b
	}
	return out
}

// profiles: 0 typical (well-formed non-empty values), 1 empty (present but zero-length / zero),
// 2 extreme (maximal varints, malformed inner encodings, wrong lengths).
const nProfiles = 3

var profileNames = [nProfiles]string{"typical", "empty", "extreme"}

type wfield struct {
	num  int
	name string
	enc  [nProfiles][]byte // complete encoding (tag + payload) of the field when present
}

const maxU64 = ^uint64(0)

func vfield(num int, name string, typical uint64) wfield {
	return wfield{num, name, [nProfiles][]byte{fVarint(num, typical), fVarint(num, 0), fVarint(num, maxU64)}}
}

func bfield(num int, name string, typical, extreme []byte) wfield {
	return wfield{num, name, [nProfiles][]byte{fBytes(num, typical), fBytes(num, nil), fBytes(num, extreme)}}
}

func validTimeBytes() []byte {
	b, err := time.Date(2026, 9, 25, 12, 34, 56, 123456789, time.FixedZone("", 8*3600)).MarshalBinary()
	if err != nil {
		panic(err)
	}
	return b
}

// Transaction: 15 fields.
func txFields() []wfield {
	return []wfield{
		bfield(1, "Data", []byte(`{"k":"v"}`), []byte{0xff, 0xfe, 0x00}),
		vfield(2, "Nonce", 7),
		bfield(3, "Source", []byte("0x1111111111111111111111111111111111111111"), []byte{0xff}),
		bfield(4, "Target", []byte("0x2222222222222222222222222222222222222222"), []byte{0xc0, 0x80}),
		vfield(5, "Type", 5),
		bfield(6, "Hash", rep(0xa1, 32), rep(0xa2, 33)),
		bfield(7, "ExtraData", []byte("extra"), []byte{0x00, 0xff}),
		vfield(8, "ExtraDataType", 1),
		bfield(9, "Sign", append(rep(0x07, 64), 1), rep(0x09, 64)),
		bfield(10, "Time", []byte("2026-09-25 12:34:56.000"), []byte{0xff}),
		vfield(11, "RequestId", 9),
		bfield(12, "SocketRequestId", []byte("sock-1"), []byte{0xff}),
		bfield(13, "SubTransactions", []byte(`[{"address":1,"balance":"1","Assets":{"a":"b"}}]`), []byte(`[{"address":`)),
		bfield(14, "SubHash", rep(0xb1, 32), rep(0xb2, 1)),
		bfield(15, "ChainId", []byte("9500"), []byte{0xff}),
	}
}

// BlockHeader: 20 fields.
func headerFields() []wfield {
	tb := validTimeBytes()
	th := cat(fBytes(1, rep(0xc1, 32)), fBytes(2, rep(0xc2, 32)))
	return []wfield{
		bfield(1, "Hash", rep(0xd1, 32), rep(0xd1, 33)),
		vfield(2, "Height", 12),
		bfield(3, "PreHash", rep(0xd3, 32), rep(0xd3, 31)),
		bfield(4, "PreTime", tb, []byte{0x01}),
		bfield(5, "ProveValue", append([]byte{0, 0}, rep(0x5a, 30)...), rep(0xff, 40)),
		vfield(6, "TotalQN", 3),
		bfield(7, "CurTime", tb, tb[:len(tb)-1]),
		bfield(8, "Castor", rep(0x08, 32), []byte{0}),
		bfield(9, "GroupId", rep(0x09, 32), []byte{0}),
		bfield(10, "Signature", rep(0x0a, 64), []byte{0}),
		vfield(11, "Nonce", 4),
		{12, "Transactions", [nProfiles][]byte{
			cat(fBytes(12, th), fBytes(12, th)),
			fBytes(12, nil),
			fBytes(12, cat(fBytes(1, []byte{1}))),
		}},
		bfield(13, "TxTree", rep(0x13, 32), rep(0x13, 64)),
		bfield(14, "ReceiptTree", rep(0x14, 32), []byte{0x14}),
		bfield(15, "StateTree", rep(0x15, 32), []byte{0x15}),
		bfield(16, "ExtraData", []byte("xd"), []byte{0}),
		bfield(17, "Random", rep(0x17, 32), []byte{0}),
		bfield(18, "ProveRoot", rep(0x18, 32), []byte{0}),
		bfield(19, "EvictedTxs", cat(fBytes(1, rep(0xe1, 32)), fBytes(1, rep(0xe2, 32))), fBytes(1, nil)),
		bfield(20, "RequestIds", []byte(`{"fixed":7,"g":18446744073709551615}`), []byte(`{"fixed":`)),
	}
}

// GroupHeader: 8 fields.
func groupHeaderFields() []wfield {
	return []wfield{
		bfield(1, "Hash", rep(0x71, 32), rep(0x71, 33)),
		bfield(2, "Parent", rep(0x72, 32), []byte{0}),
		bfield(3, "PreGroup", rep(0x73, 32), []byte{0}),
		bfield(4, "CreateBlockHash", rep(0x74, 32), []byte{0}),
		bfield(5, "BeginTime", validTimeBytes(), []byte{0x01}),
		bfield(6, "MemberRoot", rep(0x76, 32), rep(0x76, 31)),
		vfield(7, "CreateHeight", 10),
		bfield(8, "Extends", []byte("ext"), []byte{0xff}),
	}
}

// Group: the 5 non-header fields (the header, field 1, is assembled from groupHeaderFields).
func groupFields() []wfield {
	return []wfield{
		bfield(2, "Id", rep(0x62, 32), []byte{0}),
		bfield(3, "PubKey", rep(0x63, 128), []byte{0}),
		bfield(4, "Signature", rep(0x64, 64), []byte{0}),
		{5, "Members", [nProfiles][]byte{
			cat(fBytes(5, rep(0x65, 32)), fBytes(5, rep(0x66, 32))),
			fBytes(5, nil),
			cat(fBytes(5, []byte{1}), fBytes(5, nil), fBytes(5, rep(0x67, 33))),
		}},
		vfield(6, "GroupHeight", 2),
	}
}

// SignData: 4 fields.
func signDataFields() []wfield {
	g1 := make([]byte, 64) // generator of G1: (1, 2)
	g1[31], g1[63] = 1, 2
	return []wfield{
		bfield(1, "DataHash", rep(0x51, 32), rep(0x51, 33)),
		bfield(2, "DataSign", g1, rep(0xff, 64)),
		bfield(3, "SignMember", rep(0x53, 32), rep(0x53, 40)),
		vfield(4, "Version", 1),
	}
}

// assemble concatenates (in field order) the encodings of the fields whose bit is set in mask.
func assemble(buf []byte, fs []wfield, mask uint32, profile int) []byte {
	buf = buf[:0]
	for i := range fs {
		if mask&(1<<uint(i)) != 0 {
			buf = append(buf, fs[i].enc[profile]...)
		}
	}
	return buf
}

func maskNames(fs []wfield, mask uint32) []string {
	var out []string
	for i := range fs {
		if mask&(1<<uint(i)) != 0 {
			out = append(out, fs[i].name)
		}
	}
	return out
}

func popcount(x uint32) int {
	n := 0
	for ; x != 0; x &= x - 1 {
		n++
	}
	return n
}
