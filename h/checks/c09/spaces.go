package main

// Field alphabets and product spaces of the round-trip part.

import (
	"math"
	"math/big"
	"strings"
	"time"

	"com.tuntun.rangers/node/src/common"
	"com.tuntun.rangers/node/src/middleware/types"
)

func hashOf(b byte) common.Hash { return common.BytesToHash(rep(b, 32)) }

var (
	hA, hB, hC, hD = hashOf(0xa1), hashOf(0xb2), hashOf(0xc3), hashOf(0x04)
	u64s3          = []uint64{0, math.MaxUint64, 1}
	u64s2          = []uint64{0, math.MaxUint64}
	bytes3         = [][]byte{nil, {}, {0x00, 0x01, 0xff, 0x80}}
)

// withMono returns the instant t (in time.Local) carrying a monotonic clock reading, as
// time.Now() values do.  The wall reading is exactly t, so the case is deterministic.
func withMono(t time.Time) time.Time {
	now := time.Now()
	r := now.Add(t.Sub(now))
	if !r.Equal(t) || !strings.Contains(r.String(), " m=") {
		panic("harness: could not build a time with monotonic reading")
	}
	return r
}

// producible times: zero, UTC with nanoseconds, +08:00, -03:30, local zone, local zone with
// monotonic reading; the full alphabet adds a pre-epoch instant.
func timeAlphabet(full bool) []time.Time {
	base := time.Date(2026, 9, 25, 12, 34, 56, 123456789, time.UTC)
	ts := []time.Time{
		{},
		base,
		base.In(time.FixedZone("CST", 8*3600)),
		base.In(time.FixedZone("", -(3*3600 + 1800))),
		base.Add(time.Hour).In(time.Local),
		withMono(time.Unix(1700000000, 0)),
	}
	if full {
		ts = append(ts, time.Date(1969, 12, 31, 23, 59, 59, 999999999, time.UTC))
	}
	return ts
}

func bigHex(s string) *big.Int {
	v, ok := new(big.Int).SetString(s, 16)
	if !ok {
		panic("harness: bad hex")
	}
	return v
}

// prove values: nil, 0, 1, 32 bytes of 0xff, and values whose 32-byte form has 1 / 2 leading zero bytes.
func proveAlphabet() []*big.Int {
	return []*big.Int{
		nil,
		big.NewInt(0),
		big.NewInt(1),
		new(big.Int).SetBytes(rep(0xff, 32)),
		new(big.Int).SetBytes(append([]byte{0}, rep(0x5a, 31)...)),
		new(big.Int).SetBytes(append([]byte{0, 0}, rep(0x01, 30)...)),
	}
}

func reqIdAlphabet() []map[string]uint64 {
	return []map[string]uint64{
		nil,
		{},
		{"fixed": 7},
		{"a": 1, "b": math.MaxUint64, "fixed": 0},
	}
}

func txHashesAlphabet() [][]common.Hashes {
	return [][]common.Hashes{
		{},
		{{hA, hB}, {hC, common.Hash{}}},
		{{hD, hD}},
	}
}

func evictedAlphabet() [][]common.Hash {
	return [][]common.Hash{
		{},
		{hA, common.Hash{}},
		{hD},
	}
}

type hdr = types.BlockHeader

func headerSpace(full bool) *space[hdr] {
	times := timeAlphabet(full)
	pv := proveAlphabet()
	rq := reqIdAlphabet()
	th := txHashesAlphabet()
	ev := evictedAlphabet()
	var ds []dim[hdr]
	add := func(name string, n int, set func(*hdr, int)) { ds = append(ds, dim[hdr]{name, n, set}) }
	if full {
		add("Height", 3, func(h *hdr, i int) { h.Height = u64s3[i] })
		add("TotalQN", 2, func(h *hdr, i int) { h.TotalQN = u64s2[i] })
		add("Nonce", 2, func(h *hdr, i int) { h.Nonce = u64s2[i] })
		add("PreHash", 2, func(h *hdr, i int) { h.PreHash = []common.Hash{{}, hA}[i] })
		add("Trees", 2, func(h *hdr, i int) {
			if i == 1 {
				h.TxTree, h.ReceiptTree, h.StateTree = hB, hC, hD
			}
		})
	} else {
		add("Height", 2, func(h *hdr, i int) { h.Height = u64s2[i] })
		add("TotalQN+Nonce", 2, func(h *hdr, i int) { h.TotalQN, h.Nonce = u64s2[i], u64s2[1-i] })
		add("PreHash+Trees", 2, func(h *hdr, i int) {
			if i == 1 {
				h.PreHash, h.TxTree, h.ReceiptTree, h.StateTree = hA, hB, hC, hD
			}
		})
	}
	add("PreTime", len(times), func(h *hdr, i int) { h.PreTime = times[i] })
	add("CurTime", len(times), func(h *hdr, i int) { h.CurTime = times[i] })
	add("ProveValue", len(pv), func(h *hdr, i int) { h.ProveValue = pv[i] })
	add("Castor", 3, func(h *hdr, i int) { h.Castor = bytes3[i] })
	add("ExtraData", 3, func(h *hdr, i int) { h.ExtraData = bytes3[i] })
	if full {
		add("GroupId", 3, func(h *hdr, i int) { h.GroupId = bytes3[i] })
		// Signature and Random are plain byte fields outside GenHash(): varied jointly
		add("Signature+Random", 3, func(h *hdr, i int) { h.Signature, h.Random = bytes3[i], bytes3[(i+1)%3] })
	} else {
		add("GroupId+Signature+Random", 3, func(h *hdr, i int) {
			h.GroupId, h.Signature, h.Random = bytes3[i], bytes3[(i+1)%3], bytes3[(i+2)%3]
		})
	}
	add("RequestIds", len(rq), func(h *hdr, i int) { h.RequestIds = rq[i] })
	if full {
		add("Transactions", 3, func(h *hdr, i int) { h.Transactions = th[i] })
		add("EvictedTxs", 3, func(h *hdr, i int) { h.EvictedTxs = ev[i] })
	} else {
		add("Transactions", 2, func(h *hdr, i int) { h.Transactions = th[i] })
		add("EvictedTxs", 2, func(h *hdr, i int) { h.EvictedTxs = ev[i] })
	}
	// last: the stored hash is either unset or the digest of the header as built
	add("Hash", 2, func(h *hdr, i int) {
		if i == 1 {
			h.Hash = h.GenHash()
		}
	})
	name := "header-mid"
	if full {
		name = "header-full"
	}
	return &space[hdr]{name: name, dims: ds, strict: true, cd: hdrCodec}
}

// headerSpaceQuick: the "mid" alphabets with PreTime/CurTime varied jointly (6 pairs instead of 36).
func headerSpaceQuick() *space[hdr] {
	s := headerSpace(false)
	times := timeAlphabet(false)
	var ds []dim[hdr]
	for _, d := range s.dims {
		switch d.name {
		case "PreTime":
			ds = append(ds, dim[hdr]{"PreTime+CurTime", len(times), func(h *hdr, i int) {
				h.PreTime, h.CurTime = times[i], times[(i+1)%len(times)]
			}})
		case "CurTime":
		default:
			ds = append(ds, d)
		}
	}
	s.name, s.dims = "header-quick", ds
	return s
}

// restrict replaces the size of the named dimensions (keeping their first n values).
func restrict[T any](s *space[T], name string, sizes map[string]int) *space[T] {
	ds := make([]dim[T], len(s.dims))
	copy(ds, s.dims)
	for i := range ds {
		if n, ok := sizes[ds[i].name]; ok {
			if n > ds[i].n {
				panic("harness: restrict")
			}
			ds[i].n = n
		}
	}
	return &space[T]{name: name, dims: ds, strict: s.strict, cd: s.cd}
}

func txSpaceQuick() *space[txT] {
	return restrict(txSpace(), "tx-quick", map[string]int{"Type": 3, "ExtraDataType": 2, "RequestId": 2})
}

func groupSpaceQuick() *space[grp] {
	return restrict(groupSpace(false), "group-quick", map[string]int{"PreGroup": 1, "CreateBlockHash": 1, "PubKey": 1, "Signature": 2})
}

type txT = types.Transaction

func signAlphabet() []*common.Sign {
	small := make([]byte, 65)
	small[31], small[63], small[64] = 1, 2, 1
	return []*common.Sign{
		nil,
		common.BytesToSign(append(rep(0x77, 64), 0)),
		common.BytesToSign(small),
		common.BytesToSign(make([]byte, 65)),
	}
}

func subTxAlphabet() [][]types.UserData {
	return [][]types.UserData{
		nil,
		{},
		{
			{Address: 1, TransferData: types.TransferData{Balance: "1.5", Coin: map[string]string{"ETH.ETH": "0.1"}, FT: map[string]string{"a-b": "2"}}, Assets: map[string]string{"id1": "v"}},
			{Address: math.MaxUint64},
		},
	}
}

func txSpace() *space[txT] {
	signs := signAlphabet()
	subs := subTxAlphabet()
	i32 := []int32{0, -1, math.MaxInt32, 1, math.MinInt32}
	var ds []dim[txT]
	add := func(name string, n int, set func(*txT, int)) { ds = append(ds, dim[txT]{name, n, set}) }
	add("Source", 2, func(t *txT, i int) { t.Source = []string{"", "0x1111111111111111111111111111111111111111"}[i] })
	add("Target", 2, func(t *txT, i int) { t.Target = []string{"", "0x2222222222222222222222222222222222222222"}[i] })
	add("Type", 5, func(t *txT, i int) { t.Type = i32[i] })
	add("Time", 2, func(t *txT, i int) { t.Time = []string{"", "2026-09-25 12:34:56.789"}[i] })
	add("Data", 3, func(t *txT, i int) { t.Data = []string{"", `{"k":"v"}`, "a\x00bé世"}[i] })
	add("ExtraData", 2, func(t *txT, i int) { t.ExtraData = []string{"", "x\x00y"}[i] })
	add("ExtraDataType", 4, func(t *txT, i int) { t.ExtraDataType = i32[i+1] })
	add("SubTransactions", 3, func(t *txT, i int) { t.SubTransactions = subs[i] })
	add("SubHash", 2, func(t *txT, i int) { t.SubHash = []common.Hash{{}, hB}[i] })
	add("Sign", 4, func(t *txT, i int) { t.Sign = signs[i] })
	add("Nonce", 3, func(t *txT, i int) { t.Nonce = u64s3[i] })
	add("RequestId", 3, func(t *txT, i int) { t.RequestId = u64s3[i] })
	add("ChainId", 2, func(t *txT, i int) { t.ChainId = []string{"", "9500"}[i] })
	add("Hash", 2, func(t *txT, i int) {
		if i == 1 {
			t.Hash = t.GenHash()
		}
	})
	return &space[txT]{name: "tx", dims: ds, strict: true, cd: txCodec}
}

type grp = types.Group

func groupSpace(full bool) *space[grp] {
	times := timeAlphabet(full)
	var ds []dim[grp]
	add := func(name string, n int, set func(*grp, int)) { ds = append(ds, dim[grp]{name, n, set}) }
	add("Header", 1, func(g *grp, i int) { g.Header = &types.GroupHeader{} })
	add("Parent", 3, func(g *grp, i int) { g.Header.Parent = bytes3[i] })
	add("PreGroup", 3, func(g *grp, i int) { g.Header.PreGroup = bytes3[i] })
	add("CreateBlockHash", 3, func(g *grp, i int) { g.Header.CreateBlockHash = bytes3[i] })
	add("BeginTime", len(times), func(g *grp, i int) { g.Header.BeginTime = times[i] })
	add("MemberRoot", 2, func(g *grp, i int) { g.Header.MemberRoot = []common.Hash{{}, hC}[i] })
	add("CreateHeight", 3, func(g *grp, i int) { g.Header.CreateHeight = u64s3[i] })
	add("Extends", 2, func(g *grp, i int) { g.Header.Extends = []string{"", "exté"}[i] })
	add("Id", 3, func(g *grp, i int) { g.Id = bytes3[i] })
	add("PubKey", 3, func(g *grp, i int) { g.PubKey = bytes3[i] })
	add("Signature", 3, func(g *grp, i int) { g.Signature = bytes3[i] })
	add("Members", 4, func(g *grp, i int) {
		g.Members = [][][]byte{nil, {rep(0x65, 32)}, {rep(0x65, 32), rep(0x66, 32)}, {{}, {0x01}}}[i]
	})
	add("GroupHeight", 3, func(g *grp, i int) { g.GroupHeight = u64s3[i] })
	add("Hash", 2, func(g *grp, i int) {
		if i == 1 {
			g.Header.Hash = g.Header.GenHash()
		}
	})
	return &space[grp]{name: "group", dims: ds, strict: true, cd: groupCodec}
}

// spread returns n indices spread over [0,total) (deterministic, includes 0 and total-1).
func spread(total int64, n int) []int64 {
	out := make([]int64, n)
	for k := 0; k < n; k++ {
		out[k] = (total - 1) * int64(k) / int64(n-1)
		// perturb the low digits so that every dimension varies
		out[k] = (out[k] + int64(k)*7919) % total
	}
	out[0], out[n-1] = 0, total-1
	return out
}

func blockSpace() *space[types.Block] {
	hs := headerSpace(false)
	ts := txSpace()
	hIdx := spread(hs.total(), 64)
	tIdx := spread(ts.total(), 12)
	cands := make([]*types.Transaction, len(tIdx))
	for i, ix := range tIdx {
		cands[i], _ = ts.build(ix)
	}
	lists := [][]*types.Transaction{nil, {}}
	for i := range cands {
		lists = append(lists, []*types.Transaction{cands[i]})
	}
	for i := range cands {
		for j := range cands {
			lists = append(lists, []*types.Transaction{cands[i], cands[j]})
		}
	}
	ds := []dim[types.Block]{
		{"Header", len(hIdx), func(b *types.Block, i int) { b.Header, _ = hs.build(hIdx[i]) }},
		{"Transactions", len(lists), func(b *types.Block, i int) { b.Transactions = lists[i] }},
	}
	return &space[types.Block]{name: "block", dims: ds, strict: true, cd: blockCodec}
}

func txsSpace() *space[txList] {
	ts := txSpace()
	tIdx := spread(ts.total(), 40)
	cands := make([]*types.Transaction, len(tIdx))
	for i, ix := range tIdx {
		cands[i], _ = ts.build(ix)
	}
	lists := [][]*types.Transaction{nil, {}}
	for i := range cands {
		lists = append(lists, []*types.Transaction{cands[i]})
	}
	for i := range cands {
		for j := range cands {
			lists = append(lists, []*types.Transaction{cands[i], cands[j]})
		}
	}
	ds := []dim[txList]{
		{"list", len(lists), func(l *txList, i int) { l.l = lists[i] }},
	}
	return &space[txList]{name: "txs", dims: ds, strict: true, cd: txsCodec}
}

// headerMiniSpace: the time / prove-value / request-id core of the header alphabet, used for
// the second pass with an overridden local zone.
func headerMiniSpace() *space[hdr] {
	times := timeAlphabet(true)
	pv := proveAlphabet()
	rq := reqIdAlphabet()
	ds := []dim[hdr]{
		{"Lists", 1, func(h *hdr, i int) { h.Transactions, h.EvictedTxs = []common.Hashes{}, []common.Hash{} }},
		{"PreTime", len(times), func(h *hdr, i int) { h.PreTime = times[i] }},
		{"CurTime", len(times), func(h *hdr, i int) { h.CurTime = times[i] }},
		{"ProveValue", len(pv), func(h *hdr, i int) { h.ProveValue = pv[i] }},
		{"RequestIds", len(rq), func(h *hdr, i int) { h.RequestIds = rq[i] }},
		{"Castor", 3, func(h *hdr, i int) { h.Castor = bytes3[i] }},
		{"Hash", 2, func(h *hdr, i int) {
			if i == 1 {
				h.Hash = h.GenHash()
			}
		}},
	}
	return &space[hdr]{name: "header-mini", dims: ds, strict: true, cd: hdrCodec}
}

// ---------------------------------------------------------------- arbitrary in-memory values (fixed-point law only)

func weirdTimes() []time.Time {
	return []time.Time{
		time.Date(10000, 1, 1, 0, 0, 0, 0, time.UTC),
		time.Date(-1, 1, 1, 0, 0, 0, 1, time.UTC),
		time.Date(1900, 1, 1, 0, 0, 0, 0, time.FixedZone("LMT", 8*3600+343)),
		time.Date(2026, 1, 1, 0, 0, 0, 0, time.FixedZone("Z0", 0)),
		time.Date(2026, 1, 1, 0, 0, 0, 0, time.FixedZone("far", 40000*60)),
		time.Unix(1<<40, 999999999),
	}
}

func fixHeaderSpace() *space[hdr] {
	times := weirdTimes()
	pv := []*big.Int{nil, big.NewInt(-5), big.NewInt(0), new(big.Int).Lsh(big.NewInt(1), 300)}
	rq := []map[string]uint64{nil, {"": 0}, {"\xff": 1, "k": 2}}
	th := [][]common.Hashes{nil, {}, {{hA, hB}}}
	ev := [][]common.Hash{nil, {}, {hC}}
	ds := []dim[hdr]{
		{"Transactions", 3, func(h *hdr, i int) { h.Transactions = th[i] }},
		{"EvictedTxs", 3, func(h *hdr, i int) { h.EvictedTxs = ev[i] }},
		{"ProveValue", len(pv), func(h *hdr, i int) { h.ProveValue = pv[i] }},
		{"PreTime", len(times), func(h *hdr, i int) { h.PreTime = times[i] }},
		{"CurTime", len(times), func(h *hdr, i int) { h.CurTime = times[i] }},
		{"RequestIds", len(rq), func(h *hdr, i int) { h.RequestIds = rq[i] }},
		{"Castor", 3, func(h *hdr, i int) { h.Castor = bytes3[i] }},
		{"ExtraData", 3, func(h *hdr, i int) { h.ExtraData = bytes3[i] }},
		{"Hash", 2, func(h *hdr, i int) { h.Hash = []common.Hash{{}, hA}[i] }},
	}
	return &space[hdr]{name: "fix-header", dims: ds, strict: false, cd: hdrCodec}
}

func fixTxSpace() *space[txT] {
	odd := common.BytesToSign(append(make([]byte, 64), 0xff))
	signs := []*common.Sign{nil, odd, common.BytesToSign(append(rep(0x77, 64), 3))}
	subs := [][]types.UserData{
		nil,
		{{TransferData: types.TransferData{Coin: map[string]string{}, FT: map[string]string{}}, Assets: map[string]string{}}},
		{{Address: 1, TransferData: types.TransferData{Coin: map[string]string{}}}, {Assets: map[string]string{"\xff": "\xfe"}}},
	}
	ds := []dim[txT]{
		{"SocketRequestId", 2, func(t *txT, i int) { t.SocketRequestId = []string{"", "sock-1"}[i] }},
		{"Data", 3, func(t *txT, i int) { t.Data = []string{"", "\xff\xfe", "ok"}[i] }},
		{"ExtraData", 2, func(t *txT, i int) { t.ExtraData = []string{"", "\x80"}[i] }},
		{"Source", 2, func(t *txT, i int) { t.Source = []string{"", "\xff"}[i] }},
		{"SubTransactions", 3, func(t *txT, i int) { t.SubTransactions = subs[i] }},
		{"Sign", 3, func(t *txT, i int) { t.Sign = signs[i] }},
		{"Type", 2, func(t *txT, i int) { t.Type = []int32{math.MinInt32, 0}[i] }},
		{"Time", 2, func(t *txT, i int) { t.Time = []string{"", "\xc3"}[i] }},
		{"ChainId", 2, func(t *txT, i int) { t.ChainId = []string{"", "\xff"}[i] }},
		{"Nonce", 2, func(t *txT, i int) { t.Nonce = u64s2[i] }},
		{"Hash", 2, func(t *txT, i int) { t.Hash = []common.Hash{{}, hA}[i] }},
	}
	return &space[txT]{name: "fix-tx", dims: ds, strict: false, cd: txCodec}
}

func fixGroupSpace() *space[grp] {
	times := weirdTimes()
	ds := []dim[grp]{
		{"Header", 1, func(g *grp, i int) { g.Header = &types.GroupHeader{} }},
		{"ReadyHeight", 2, func(g *grp, i int) { g.Header.ReadyHeight = uint64(i) }},
		{"WorkHeight", 2, func(g *grp, i int) { g.Header.WorkHeight = uint64(5 * i) }},
		{"DismissHeight", 2, func(g *grp, i int) { g.Header.DismissHeight = u64s2[i] }},
		{"Members", 4, func(g *grp, i int) { g.Members = [][][]byte{nil, {}, {nil}, {{0x01}}}[i] }},
		{"Id", 3, func(g *grp, i int) { g.Id = bytes3[i] }},
		{"BeginTime", len(times), func(g *grp, i int) { g.Header.BeginTime = times[i] }},
		{"Extends", 2, func(g *grp, i int) { g.Header.Extends = []string{"", "\xff"}[i] }},
		{"Hash", 2, func(g *grp, i int) { g.Header.Hash = []common.Hash{{}, hA}[i] }},
	}
	return &space[grp]{name: "fix-group", dims: ds, strict: false, cd: groupCodec}
}
