package main

import (
	"fmt"
	"time"
	"math/big"

	"verif/h/fw"

	"com.tuntun.rangers/node/src/common"
	"com.tuntun.rangers/node/src/middleware/types"
)

func main() {
	types.InitSerialzation()
	p, v, site := fw.Try(func() { types.UnMarshalTransaction([]byte{0x28, 0x05}) })
	fmt.Println("tx only type:", p, v, site)
	p, v, site = fw.Try(func() { h, e := types.UnMarshalBlockHeader([]byte{}); fmt.Println("hdr empty:", h, e) })
	fmt.Println(p, v, site)
	tb, _ := time.Unix(1700000000, 5).UTC().MarshalBinary()
	hb := append([]byte{0x22, byte(len(tb))}, tb...)
	hb = append(hb, 0x3a, byte(len(tb)))
	hb = append(hb, tb...)
	p, v, site = fw.Try(func() { h, e := types.UnMarshalBlockHeader(hb); fmt.Println("hdr times:", h, e) })
	fmt.Println(p, v, site)
	p, v, site = fw.Try(func() { h, e := types.UnMarshalGroup([]byte{}); fmt.Println("grp empty:", h, e) })
	fmt.Println(p, v, site)
	// group header with required only: MemberRoot(6) CreateHeight(7)
	gh := []byte{0x32, 0x01, 0xaa, 0x38, 0x01}
	gb := append([]byte{0x0a, byte(len(gh))}, gh...)
	p, v, site = fw.Try(func() { h, e := types.UnMarshalGroup(gb); fmt.Println("grp req:", h, e) })
	fmt.Println(p, v, site)
	gh2 := append(gh, 0x42, 0x00)
	gb2 := append([]byte{0x0a, byte(len(gh2))}, gh2...)
	p, v, site = fw.Try(func() { h, e := types.UnMarshalGroup(gb2); fmt.Println("grp req+ext:", h, e) })
	fmt.Println(p, v, site)
	p, v, site = fw.Try(func() { h, e := types.UnMarshalBlock([]byte{}); fmt.Println("blk empty:", h, e) })
	fmt.Println(p, v, site)
	p, v, site = fw.Try(func() { h, e := types.UnMarshalBlock([]byte{0x0a, 0}); fmt.Println("blk hdr empty:", h, h != nil && h.Header == nil, e) })
	fmt.Println(p, v, site)

	// speed
	h := &types.BlockHeader{Height: 5, PreTime: time.Now(), CurTime: time.Now().UTC(), ProveValue: big.NewInt(77), Castor: []byte{1, 2}, Transactions: []common.Hashes{}, EvictedTxs: []common.Hash{}}
	h.Hash = h.GenHash()
	t0 := time.Now()
	N := 100000
	for i := 0; i < N; i++ {
		b, _ := types.MarshalBlockHeader(h)
		h2, _ := types.UnMarshalBlockHeader(b)
		if h2.GenHash() != h.GenHash() {
			panic("x")
		}
	}
	fmt.Println("hdr roundtrip per case:", time.Since(t0)/time.Duration(N))
	t0 = time.Now()
	for i := 0; i < N; i++ {
		fw.Try(func() { types.UnMarshalTransaction([]byte{0x28, 0x05}) })
	}
	fmt.Println("panic per case:", time.Since(t0)/time.Duration(N))
	t0 = time.Now()
	for i := 0; i < N; i++ {
		types.UnMarshalTransaction([]byte{0x28})
	}
	fmt.Println("err+log per case:", time.Since(t0)/time.Duration(N))
}
