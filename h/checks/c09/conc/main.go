// Companion of C09: the wire codecs are called from several goroutines at once (network
// receive workers, block sync, the consensus handler, the transaction pool).  Every thread
// must get from marshal / unmarshal / GenHash exactly what it gets alone.
package main

import (
	"fmt"
	"math/big"
	"time"

	"verif/h/conc"

	"com.tuntun.rangers/node/src/common"
	cnet "com.tuntun.rangers/node/src/consensus/net"
	middleware_pb "com.tuntun.rangers/node/src/middleware/pb"
	"com.tuntun.rangers/node/src/middleware/types"
	"github.com/gogo/protobuf/proto"
)

type nopLogger struct{}

func (nopLogger) Tracef(string, ...interface{})       {}
func (nopLogger) Debugf(string, ...interface{})       {}
func (nopLogger) Infof(string, ...interface{})        {}
func (nopLogger) Warnf(string, ...interface{}) error  { return nil }
func (nopLogger) Errorf(string, ...interface{}) error { return nil }
func (nopLogger) Debug(...interface{})                {}
func (nopLogger) Info(...interface{})                 {}
func (nopLogger) Warn(...interface{}) error           { return nil }
func (nopLogger) Error(...interface{}) error          { return nil }

func h(b byte) common.Hash {
	var x common.Hash
	for i := range x {
		x[i] = b + byte(i)
	}
	return x
}

func mkTx(seed byte, withSub bool) *types.Transaction {
	sig := make([]byte, 65)
	for i := range sig {
		sig[i] = seed ^ byte(i*7+1)
	}
	sig[64] = seed & 1
	t := &types.Transaction{
		Source: fmt.Sprintf("0x%040x", int(seed)+1), Target: fmt.Sprintf("0x%040x", int(seed)+2),
		Type: int32(seed % 5), Time: fmt.Sprintf("2026-09-25 12:00:%02d", seed%60),
		Data: fmt.Sprintf(`{"k":%d}`, seed), ExtraData: fmt.Sprintf("x%d", seed), ExtraDataType: int32(seed % 3),
		SubHash: h(seed + 3), Sign: common.BytesToSign(sig), Nonce: uint64(seed) * 1000003, RequestId: uint64(seed),
		ChainId: "9500",
	}
	if withSub {
		t.SubTransactions = []types.UserData{{Address: uint64(seed), TransferData: types.TransferData{Balance: "1.5", Coin: map[string]string{"ETH.ETH": fmt.Sprint(seed)}}, Assets: map[string]string{"id": fmt.Sprint(seed)}}}
	}
	t.Hash = t.GenHash()
	return t
}

func mkHeader(seed byte, nEvicted, nTx int) *types.BlockHeader {
	base := time.Date(2026, 9, 25, 12, 0, int(seed%60), int(seed)*1000+7, time.FixedZone("", 8*3600))
	bh := &types.BlockHeader{
		Height: uint64(seed) + 1, PreHash: h(seed), PreTime: base, CurTime: base.Add(time.Second).UTC(),
		ProveValue: new(big.Int).SetBytes(append([]byte{0, seed}, h(seed + 9).Bytes()[:29]...)),
		TotalQN:    uint64(seed) * 3, Castor: h(seed + 1).Bytes(), GroupId: h(seed + 2).Bytes(), Signature: h(seed + 4).Bytes(),
		Nonce: uint64(seed), TxTree: h(seed + 5), ReceiptTree: h(seed + 6), StateTree: h(seed + 7),
		ExtraData: []byte{seed}, Random: h(seed + 8).Bytes(),
		RequestIds:   map[string]uint64{"fixed": uint64(seed), "a": 1},
		Transactions: []common.Hashes{}, EvictedTxs: []common.Hash{},
	}
	for i := 0; i < nTx; i++ {
		bh.Transactions = append(bh.Transactions, common.Hashes{h(seed + 20 + byte(i)), h(seed + 40 + byte(i))})
	}
	for i := 0; i < nEvicted; i++ {
		bh.EvictedTxs = append(bh.EvictedTxs, h(seed+60+byte(i)))
	}
	bh.Hash = bh.GenHash()
	return bh
}

func mkGroup(seed byte, nMem int) *types.Group {
	gh := &types.GroupHeader{
		Parent: h(seed).Bytes(), PreGroup: h(seed + 1).Bytes(), CreateBlockHash: h(seed + 2).Bytes(),
		BeginTime:  time.Date(2026, 1, 2, 3, 4, int(seed%60), 0, time.UTC),
		MemberRoot: h(seed + 3), CreateHeight: uint64(seed) + 10, Extends: fmt.Sprint("ext", seed),
	}
	gh.Hash = gh.GenHash()
	g := &types.Group{Header: gh, Id: h(seed + 4).Bytes(), PubKey: append(h(seed+5).Bytes(), h(seed+6).Bytes()...), Signature: h(seed + 7).Bytes(), GroupHeight: uint64(seed)}
	for i := 0; i < nMem; i++ {
		g.Members = append(g.Members, h(seed+10+byte(i)).Bytes())
	}
	return g
}

func dumpTx(t *types.Transaction) string {
	s := "nil"
	if t.Sign != nil {
		s = fmt.Sprintf("%x", t.Sign.Bytes())
	}
	return fmt.Sprintf("{%s %s %d %s %q %q %d %+v %x %x %s %d %d %q gen=%x}", t.Source, t.Target, t.Type, t.Time, t.Data, t.ExtraData,
		t.ExtraDataType, t.SubTransactions, t.SubHash[:], t.Hash[:], s, t.Nonce, t.RequestId, t.ChainId, t.GenHash().Bytes())
}

func dumpHeader(b *types.BlockHeader) string {
	if b == nil {
		return "<nil header>"
	}
	return fmt.Sprintf("{%x %d %x %s %v %d %s %x %x %x %d %v %x %x %x %x %x %x %x gen=%x}", b.Hash[:], b.Height, b.PreHash[:],
		b.PreTime.Format(time.RFC3339Nano), b.ProveValue, b.TotalQN, b.CurTime.Format(time.RFC3339Nano), b.Castor, b.GroupId, b.Signature,
		b.Nonce, b.RequestIds, b.Transactions, b.TxTree[:], b.ReceiptTree[:], b.StateTree[:], b.ExtraData, b.Random, b.EvictedTxs, b.GenHash().Bytes())
}

func dumpGroup(g *types.Group) string {
	if g == nil || g.Header == nil {
		return "<nil group>"
	}
	x := g.Header
	return fmt.Sprintf("{%x %x %x %x %s %x %d %q | %x %x %x %x %d gen=%x}", x.Hash[:], x.Parent, x.PreGroup, x.CreateBlockHash,
		x.BeginTime.Format(time.RFC3339Nano), x.MemberRoot[:], x.CreateHeight, x.Extends, g.Id, g.PubKey, g.Signature, g.Members, g.GroupHeight, x.GenHash().Bytes())
}

// ---- bodies

func txBody(seed byte, withSub bool) func() string {
	t := mkTx(seed, withSub)
	return func() string {
		b, err := types.MarshalTransaction(t)
		back, err2 := types.UnMarshalTransaction(b)
		_, err3 := types.UnMarshalTransaction(b[:len(b)-1]) // error path
		return fmt.Sprintf("bytes=%x err=%v back=%s err=%v truncated-err=%v", b, err, dumpTx(&back), err2, err3 != nil)
	}
}

func headerBody(seed byte, nEvicted, nTx int) func() string {
	bh := mkHeader(seed, nEvicted, nTx)
	return func() string {
		b, err := types.MarshalBlockHeader(bh)
		back, err2 := types.UnMarshalBlockHeader(b)
		return fmt.Sprintf("bytes=%x err=%v back=%s err=%v", b, err, dumpHeader(back), err2)
	}
}

func blockBody(seed byte, nTx int) func() string {
	blk := &types.Block{Header: mkHeader(seed, 2, nTx)}
	for i := 0; i < nTx; i++ {
		blk.Transactions = append(blk.Transactions, mkTx(seed+byte(i), i == 0))
	}
	return func() string {
		b, err := types.MarshalBlock(blk)
		back, err2 := types.UnMarshalBlock(b)
		out := fmt.Sprintf("bytes=%x err=%v err=%v", b, err, err2)
		if back != nil {
			out += " header=" + dumpHeader(back.Header)
			for _, t := range back.Transactions {
				out += " tx=" + dumpTx(t)
			}
		}
		return out
	}
}

func groupBody(seed byte, nMem int) func() string {
	g := mkGroup(seed, nMem)
	return func() string {
		b, err := types.MarshalGroup(g)
		back, err2 := types.UnMarshalGroup(b)
		return fmt.Sprintf("bytes=%x err=%v back=%s err=%v", b, err, dumpGroup(back), err2)
	}
}

func txsBody(seed byte, n int) func() string {
	var l []*types.Transaction
	for i := 0; i < n; i++ {
		l = append(l, mkTx(seed+byte(3*i), i%2 == 1))
	}
	return func() string {
		b, err := types.MarshalTransactions(l)
		back, err2 := types.UnMarshalTransactions(b)
		out := fmt.Sprintf("bytes=%x err=%v err=%v n=%d", b, err, err2, len(back))
		for _, t := range back {
			out += " tx=" + dumpTx(t)
		}
		return out
	}
}

func g1(k byte) []byte { // points of G1 in the repository's 64-byte encoding: generator (1,2) and the point at infinity
	b := make([]byte, 64)
	if k%2 == 0 {
		b[31], b[63] = 1, 2
	}
	return b
}

func signData(seed byte) *middleware_pb.SignData {
	v := int32(seed % 3)
	return &middleware_pb.SignData{DataHash: h(seed).Bytes(), DataSign: g1(seed), SignMember: h(seed + 1).Bytes(), Version: &v}
}

func castBody(seed byte, nEvicted int) func() string {
	m := &middleware_pb.ConsensusCastMessage{Bh: types.BlockHeaderToPb(mkHeader(seed, nEvicted, 1)), GroupID: h(seed + 2).Bytes(),
		Sign: signData(seed), ProveHash: [][]byte{h(seed + 3).Bytes(), h(seed + 4).Bytes()}}
	b, err := proto.Marshal(m)
	if err != nil {
		panic(err)
	}
	return func() string {
		msg, err := cnet.UnMarshalConsensusCastMessage(b)
		if err != nil || msg == nil {
			return fmt.Sprintf("cast err=%v", err)
		}
		return fmt.Sprintf("cast bh=%s prove=%x id=%s sign={%x %s %s %d}", dumpHeader(&msg.BH), msg.ProveHash, msg.Id,
			msg.GetDataHash().Bytes(), msg.GetSignature().GetHexString(), msg.GetSignerID().GetHexString(), msg.GetVersion())
	}
}

func verifyBody(seed byte) func() string {
	m := &middleware_pb.ConsensusVerifyMessage{BlockHash: h(seed).Bytes(), RandomSign: g1(seed + 1), Sign: signData(seed + 1)}
	b, err := proto.Marshal(m)
	if err != nil {
		panic(err)
	}
	return func() string {
		msg, err := cnet.UnMarshalConsensusVerifyMessage(b)
		if err != nil || msg == nil {
			return fmt.Sprintf("verify err=%v", err)
		}
		return fmt.Sprintf("verify hash=%x random=%s id=%s sign={%x %s %s %d}", msg.BlockHash[:], msg.RandomSign.GetHexString(), msg.Id,
			msg.GetDataHash().Bytes(), msg.GetSignature().GetHexString(), msg.GetSignerID().GetHexString(), msg.GetVersion())
	}
}

func seq(fs ...func() string) func() string {
	return func() string {
		out := ""
		for _, f := range fs {
			out += f() + "\n"
		}
		return out
	}
}

func main() {
	types.VerifSetLogger(nopLogger{})
	cnet.VerifSetLogger(nopLogger{})
	conc.Main([]conc.Scenario{
		// both threads on equal inputs: a header with several EvictedTxs, and a block
		{Name: "header+block||same-header+block", Mk: func() []func() string {
			return []func() string{seq(headerBody(7, 3, 2), blockBody(11, 2)), seq(headerBody(7, 3, 2), blockBody(11, 2))}
		}},
		// same functions, different sizes
		{Name: "header-4-evicted||header-1-evicted", Mk: func() []func() string {
			return []func() string{headerBody(21, 4, 1), headerBody(90, 1, 3)}
		}},
		// different object types
		{Name: "tx+txs||group", Mk: func() []func() string {
			return []func() string{seq(txBody(5, true), txsBody(30, 2)), seq(groupBody(50, 3), txBody(6, false))}
		}},
		// consensus receive path next to block relay
		{Name: "cast+verify-message||block", Mk: func() []func() string {
			return []func() string{seq(castBody(13, 2), verifyBody(14)), seq(blockBody(60, 1), verifyBody(15))}
		}},
	})
}
