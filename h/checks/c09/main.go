// C09: block / header / transaction / group wire codecs are lossless and total.
//
// Bounded exhaustive input enumeration (E4) against the real parsers and serialisers of
// src/middleware/types/serialization.go:
//
//	totality   every subset of present protobuf fields (hand-encoded wire format, so that
//	           "absent" differs from "empty") of Transaction, BlockHeader, Group+GroupHeader,
//	           each also embedded in TransactionSlice / Block; every byte string of length <= 2;
//	           every prefix and every single-byte substitution of 3 valid messages per parser;
//	           every (field number x wire type x payload) intrusion; SignData conversion.
//	           Oracle: (object | error), no panic, no nil object with nil error.
//	stability  ordered pairs / triples of marshal+unmarshal calls on values of different kinds and
//	           sizes: earlier results (bytes and parsed objects) stay what they were.
//	round trip full product of the field alphabets of the node-producible domain:
//	           parse(serialise(x)) has equal content, equal GenHash(), equal stored Hash;
//	           arbitrary in-memory values: f(f(x)) = f(x) only.
package main

import (
	"encoding/hex"
	"encoding/json"
	"fmt"
	"os"
	"runtime/debug"
	"syscall"
	"time"

	"verif/h/fw"

	cnet "com.tuntun.rangers/node/src/consensus/net"
	middleware_pb "com.tuntun.rangers/node/src/middleware/pb"
	"com.tuntun.rangers/node/src/middleware/types"
)

func main() {
	fw.Main(fw.Check{
		ID: "C09", Level: "exploration",
		Rule: "totality cases are (parser, byte string) pairs, distinct inside each enumerated family (presence subsets x value profile, " +
			"strings <= 2 bytes, prefixes, single-byte substitutions, wire-type intrusions; strings <= 2 bytes are only counted in their own family); " +
			"a totality case is non-trivial when the protobuf decoder accepted the bytes so that the repository's conversion code ran " +
			"(the rest is counted as rejected_by_decoder); round-trip cases are the points of a cartesian product of field alphabets, " +
			"each a distinct value that is serialised, parsed back and compared field by field and by GenHash()/stored Hash; " +
			"stability cases are distinct ordered pairs / triples of values (different kinds and sizes, same value twice included) whose marshal and unmarshal results are re-checked after the later calls of the sequence",
		Assumptions: []string{
			"the harness' hand-written protobuf wire encoder (varint / length-delimited) is correct",
			"gogo/protobuf proto.Unmarshal/Marshal and the Go standard library (time, math/big, encoding/json) are trusted",
			"content equality: byte fields and lists compared by content (nil = empty) - GenHash() equality is demanded separately, which covers the nil/empty distinctions that matter for identity; times compared as instant + zone offset",
			"fields without a wire representation are outside 'content': Transaction.SocketRequestId (never written by transactionToPb) and GroupHeader.Ready/Work/DismissHeight (not in x.proto) are kept at their zero value in the round-trip domain and only appear in the fixed-point domain",
			"node-producible header domain: Transactions and EvictedTxs are non-nil (possibly empty) slices; nil slices only under the fixed-point law",
			"a non-nil Block whose Header is nil with a nil error (Header is a required field, so header bytes were present but undecodable) counts as a nil object: sig C09:nil-object:UnMarshalBlock-header",
			"error logging of the codecs is silenced through types.VerifSetLogger after the first 257 short strings per parser",
		},
		Run: run, Replay: replay,
		Budget: func(tier string) time.Duration {
			if tier == "thorough" {
				return 17 * time.Minute
			}
			return 100 * time.Second
		},
	})
}

const localOverride = "+05:30"

func setLocal(name string) {
	if name == localOverride {
		time.Local = time.FixedZone("VLT", 5*3600+1800)
	}
}

type families struct {
	tx, hdr, gh, g, sd []wfield
	fullTx, fullHdr    []byte
}

func newFamilies() *families {
	f := &families{tx: txFields(), hdr: headerFields(), gh: groupHeaderFields(), g: groupFields(), sd: signDataFields()}
	f.fullTx = assemble(nil, f.tx, 1<<15-1, 0)
	f.fullHdr = assemble(nil, f.hdr, 1<<20-1, 0)
	return f
}

// header profiles: 0 typical, 1 empty, 2 extreme, 3 empty with valid times, 4 extreme with valid times
var hdrProfileNames = []string{"typical", "empty", "extreme", "empty+valid-times", "extreme+valid-times"}

func (f *families) hdrEnc(p int) [][]byte {
	out := make([][]byte, len(f.hdr))
	for i, fl := range f.hdr {
		q := p
		if p >= 3 {
			q = p - 2
			if fl.name == "PreTime" || fl.name == "CurTime" {
				q = 0
			}
		}
		out[i] = fl.enc[q]
	}
	return out
}

func assembleEnc(buf []byte, enc [][]byte, mask uint32) []byte {
	buf = buf[:0]
	for i := range enc {
		if mask&(1<<uint(i)) != 0 {
			buf = append(buf, enc[i]...)
		}
	}
	return buf
}

func run(c *fw.Ctx) {
	c.ConcPart()
	r := &runner{c: c, reported: map[string]int{}}
	// the live heap is tiny; keep the garbage of 16 concurrent workers small even when the GC is starved of CPU
	debug.SetGCPercent(50)
	debug.SetMemoryLimit(256 << 20)
	if dn, err := os.OpenFile(os.DevNull, os.O_WRONLY, 0); err == nil {
		os.Stdout = dn // pbToTransaction prints "Bad sign ..." for every odd-length signature
	}
	types.InitSerialzation() // the real seelog logger, used for the first cases
	cnet.VerifSetLogger(nopLogger{})
	f := newFamilies()

	var idx int64
	mine := func() bool { idx++; return c.Mine(idx) }
	r.t0 = cpuNow()
	stop := func(what string) bool {
		if c.Expired() {
			c.Cap(what)
			return true
		}
		return false
	}
	allKinds := append(append([]string{}, parseKinds...), "signdata", "txjson")

	// ---- S: result stability over call sequences
	types.VerifSetLogger(nopLogger{})
	r.stability(mine)
	types.InitSerialzation()
	r.lap("S-stability")

	// ---- T1: every byte string of length <= 2, every parser
	var s1 [1]byte
	for _, k := range allKinds {
		if mine() {
			r.checkParse(k, []byte{}, func() string { return "empty string" })
		}
		for a := 0; a < 256; a++ {
			if mine() {
				s1[0] = byte(a)
				r.checkParse(k, s1[:], func() string { return "1-byte string" })
			}
		}
	}
	types.VerifSetLogger(nopLogger{})
	var s2 [2]byte
	for _, k := range allKinds {
		for a := 0; a < 65536; a++ {
			if mine() {
				s2[0], s2[1] = byte(a>>8), byte(a)
				r.checkParse(k, s2[:], func() string { return "2-byte string" })
			}
		}
	}
	c.Sample(map[string]interface{}{"family": "short-strings", "parsers": allKinds, "strings": 1 + 256 + 65536})

	r.lap("T1-short-strings")
	// ---- T2: transaction presence subsets (2^15 x 3 profiles), bare / in a TransactionSlice / in a Block
	var buf []byte
	for p := 0; p < nProfiles; p++ {
		for mask := uint32(0); mask < 1<<15; mask++ {
			if mask == 0 && p > 0 {
				continue
			}
			if !mine() {
				continue
			}
			buf = assemble(buf, f.tx, mask, p)
			org := func() string { return fmt.Sprintf("tx fields %v profile %s", maskNames(f.tx, mask), profileNames[p]) }
			if len(buf) > 2 { // shorter strings belong to T1
				po := r.checkParse("tx", buf, org)
				if po.class == "ok" {
					r.parsedRT("tx", buf, po)
				}
			}
			if p == 0 || c.Thorough() {
				r.checkParse("txs", cat(fBytes(1, buf), fBytes(1, f.fullTx)), func() string { return "TransactionSlice[" + org() + ", full tx]" })
				r.checkParse("block", cat(fBytes(1, f.fullHdr), fBytes(2, buf)), func() string { return "Block{full header, " + org() + "}" })
			}
		}
		if stop("tx subsets") {
			return
		}
	}
	c.Sample(map[string]interface{}{"family": "tx-subsets", "example_fields": maskNames(f.tx, 0x10), "example_hex": hex.EncodeToString(assemble(nil, f.tx, 0x10, 0))})

	r.lap("T2-tx-subsets")
	// ---- T4: group presence subsets: 5 group fields + header present + 8 header fields
	var hb []byte
	for p := 0; p < nProfiles; p++ {
		for mask := uint32(0); mask < 1<<14; mask++ {
			gm, hp, hm := mask&31, mask>>5&1, mask>>6
			if hp == 0 && hm != 0 {
				continue
			}
			if mask == 0 && p > 0 {
				continue
			}
			if !mine() {
				continue
			}
			buf = buf[:0]
			if hp == 1 {
				hb = assemble(hb, f.gh, hm, p)
				buf = append(buf, fBytes(1, hb)...)
			}
			for i := range f.g {
				if gm&(1<<uint(i)) != 0 {
					buf = append(buf, f.g[i].enc[p]...)
				}
			}
			org := func() string {
				return fmt.Sprintf("group fields %v header=%v header fields %v profile %s", maskNames(f.g, gm), hp == 1, maskNames(f.gh, hm), profileNames[p])
			}
			if len(buf) > 2 {
				po := r.checkParse("group", buf, org)
				if po.class == "ok" {
					r.parsedRT("group", buf, po)
				}
			}
		}
		if stop("group subsets") {
			return
		}
	}

	r.lap("T4-group-subsets")
	// ---- T7a: SignData presence subsets
	for p := 0; p < nProfiles; p++ {
		for mask := uint32(0); mask < 16; mask++ {
			if buf = assemble(buf, f.sd, mask, p); len(buf) > 2 && mine() {
				r.checkParse("signdata", buf, func() string {
					return fmt.Sprintf("SignData fields %v profile %s", maskNames(f.sd, mask), profileNames[p])
				})
			}
		}
	}
	for i := int64(0); i < signDataStructTotal; i++ {
		if mine() {
			r.signDataStruct(i)
		}
	}

	r.txJsonFieldCases(mine)
	r.lap("T7-signdata")
	if !r.mutations(f, mine, stop) {
		return
	}
	r.lap("T5-T6-mutations")
	if !r.roundTrips(false) {
		return
	}
	if !r.headerSubsets(f, mine, stop) {
		return
	}
	r.lap("T3-header-subsets")
	r.roundTrips(true)
}

// headerSubsets is T3: header presence subsets (2^20 per profile), bare and inside a Block.
func (r *runner) headerSubsets(f *families, mine func() bool, stop func(string) bool) bool {
	c := r.c
	var buf []byte
	// ---- T3: header presence subsets (2^20), bare and inside a Block
	for p := 0; p < len(hdrProfileNames); p++ {
		enc := f.hdrEnc(p)
		restricted := !c.Thorough() && p > 0
		for mask := uint32(0); mask < 1<<20; mask++ {
			if mask == 0 && p > 0 {
				continue
			}
			if restricted {
				if n := popcount(mask); n > 3 && n < 17 {
					continue
				}
			}
			if !mine() {
				continue
			}
			buf = assembleEnc(buf, enc, mask)
			org := func() string { return fmt.Sprintf("header fields %v profile %s", maskNames(f.hdr, mask), hdrProfileNames[p]) }
			if len(buf) > 2 {
				po := r.checkParse("header", buf, org)
				if po.class == "ok" {
					r.parsedRT("header", buf, po)
				}
			}
			if n := popcount(mask); c.Thorough() || n <= 3 || n >= 17 {
				r.checkParse("block", cat(fBytes(1, buf), fBytes(2, f.fullTx)), func() string { return "Block{" + org() + ", full tx}" })
			}
			if mask&0xffff == 0 && stop("header subsets") {
				return false
			}
		}
		if restricted {
			c.Note("quick_header_profiles_1_to_4", "subsets with <=3 or >=17 present fields only; all 2^20 subsets in profile 0; thorough: all subsets in all 5 profiles")
		}
	}
	c.Sample(map[string]interface{}{"family": "header-subsets", "example_fields": maskNames(f.hdr, 0x4a), "example_hex": hex.EncodeToString(assembleEnc(nil, f.hdrEnc(0), 0x4a))})

	return true
}


func cpuNow() time.Duration {
	var ru syscall.Rusage
	syscall.Getrusage(syscall.RUSAGE_SELF, &ru)
	return time.Duration(ru.Utime.Nano() + ru.Stime.Nano())
}

// lap records the CPU-side cost of a family (informational only, never an oracle).
func (r *runner) lap(name string) {
	now := cpuNow()
	r.c.Count("cpu_ms_"+name, (now - r.t0).Milliseconds())
	r.t0 = now
}

// parsedRT: a value obtained by parsing is in the strong round-trip domain.
func (r *runner) parsedRT(kind string, b []byte, po parsed) {
	k := kase{Part: "parse-rt", Kind: kind, Hex: hex.EncodeToString(b)}
	switch kind {
	case "tx":
		runRT(r, txCodec, po.tx, true, k, nil)
	case "header":
		runRT(r, hdrCodec, po.hdr, true, k, nil)
	case "txjson":
		runRT(r, txJsonCodec, po.tx, true, k, nil)
	case "group":
		runRT(r, groupCodec, po.group, true, k, nil)
	case "block":
		if po.block.Header != nil {
			runRT(r, blockCodec, po.block, true, k, nil)
		}
	}
}

// ---------------------------------------------------------------- SignData as a struct

var (
	sdHash   = [][]byte{nil, {}, {1}, rep(0x51, 32), rep(0x51, 33)}
	sdMember = [][]byte{nil, {}, {1}, rep(0x53, 32), rep(0x53, 40)}
	sdVer    = []*int32{nil, i32p(0), i32p(1), i32p(-1)}
)

func i32p(v int32) *int32 { return &v }

func sdSigns() [][]byte {
	g1 := make([]byte, 64)
	g1[31], g1[63] = 1, 2
	return [][]byte{nil, {}, {1}, rep(0, 63), make([]byte, 64), g1, rep(0xff, 64), append(append([]byte{}, g1...), 9)}
}

const signDataStructTotal = 5 * 8 * 5 * 4

func (r *runner) signDataStruct(i int64) {
	signs := sdSigns()
	s := &middleware_pb.SignData{
		DataHash:   sdHash[i%5],
		DataSign:   signs[i/5%8],
		SignMember: sdMember[i/40%5],
		Version:    sdVer[i/200%4],
	}
	r.c.Eval(1)
	r.c.NontrivialN(1)
	obs := func() (string, string) {
		var nilres bool
		p, v, site := fw.Try(func() { nilres = cnet.VerifPbToSignData(s) == nil })
		if p {
			return "C09:panic:" + site, fmt.Sprintf("pbToSignData(%+v) panicked: %v at %s", s, v, site)
		}
		if nilres {
			r.c.Outcome("signdata-struct:rejected")
		} else {
			r.c.Outcome("signdata-struct:ok")
		}
		return "", ""
	}
	if sig, msg := obs(); sig != "" {
		r.c.Outcome("signdata-struct:panic")
		r.violation(sig, "totality", msg, kase{Part: "signdata-struct", Kind: "signdata", Idx: i}, func() string { s, _ := obs(); return s })
	}
}

// ---------------------------------------------------------------- replay

func replay(c *fw.Ctx, raw json.RawMessage) {
	var k kase
	if err := json.Unmarshal(raw, &k); err != nil {
		fmt.Fprintln(os.Stderr, "bad case:", err)
		os.Exit(2)
	}
	r := &runner{c: c, reported: map[string]int{}, local: k.Local}
	types.VerifSetLogger(nopLogger{})
	cnet.VerifSetLogger(nopLogger{})
	setLocal(k.Local)
	switch k.Part {
	case "parse", "parse-rt":
		b, err := hex.DecodeString(k.Hex)
		if err != nil {
			fmt.Fprintln(os.Stderr, "bad hex:", err)
			os.Exit(2)
		}
		po := r.checkParse(k.Kind, b, func() string { return k.Origin })
		fmt.Printf("replay: %s(%s) -> %s %s %s\n", po.api, short(b), po.class, po.site, po.pval)
		if po.class == "ok" {
			r.parsedRT(k.Kind, b, po)
		}
	case "signdata-struct":
		r.signDataStruct(k.Idx)
	case "stability":
		all, small := stabilityPool()
		r.stabilityCase(all, small, k.Idx)
	case "rt", "fix":
		if !r.runSpaceCase(k.Space, k.Idx) {
			fmt.Fprintln(os.Stderr, "unknown space", k.Space)
			os.Exit(2)
		}
	default:
		fmt.Fprintln(os.Stderr, "unknown part", k.Part)
		os.Exit(2)
	}
}
