package main

import (
	"bytes"
	"encoding/hex"
	"fmt"
	"time"

	"verif/h/fw"

	cnet "com.tuntun.rangers/node/src/consensus/net"
	middleware_pb "com.tuntun.rangers/node/src/middleware/pb"
	"com.tuntun.rangers/node/src/middleware/types"
	"github.com/gogo/protobuf/proto"
)

// nopLogger silences the codec's error logging during mass enumeration (the first
// short-string cases run with the real seelog logger).
type nopLogger struct{}

func (nopLogger) Tracef(string, ...interface{})       {}
func (nopLogger) Debugf(string, ...interface{})       {}
func (nopLogger) Infof(string, ...interface{})        {}
func (nopLogger) Warnf(string, ...interface{}) error  { return nil }
func (nopLogger) Errorf(string, ...interface{}) error { return nil }
func (nopLogger) Debug(...interface{})                {}
func (nopLogger) Info(...interface{})                 {}
func (nopLogger) Warn(...interface{}) error           { return nil }
func (nopLogger) Error(...interface{}) error          { return nil }

type kase struct {
	Part   string `json:"part"`             // parse | rt | fix | signdata-struct
	Kind   string `json:"kind"`             // tx | txs | block | header | group | signdata
	Hex    string `json:"hex,omitempty"`    // input bytes (parse)
	Origin string `json:"origin,omitempty"` // how the input was derived
	Space  string `json:"space,omitempty"`  // product space name (rt / fix)
	Idx    int64  `json:"idx"`              // index inside the product space
	Local  string `json:"local,omitempty"`  // time.Local override in force ("" = process default)
}

var parseKinds = []string{"tx", "txs", "block", "header", "group"}

// parsed is what one parser call produced.
type parsed struct {
	class string // ok | err | nil-object | panic
	site  string // panic site
	pval  string
	api   string
	tx    *types.Transaction
	txs   []*types.Transaction
	block *types.Block
	hdr   *types.BlockHeader
	group *types.Group
}

func (p parsed) key() string { return p.class + "|" + p.site + "|" + p.api }

func parseOnce(kind string, b []byte) parsed {
	var p parsed
	var err error
	panicked, v, site := fw.Try(func() {
		switch kind {
		case "tx":
			p.api = "UnMarshalTransaction"
			var t types.Transaction
			t, err = types.UnMarshalTransaction(b)
			if err == nil {
				p.tx = &t
			}
		case "txs":
			p.api = "UnMarshalTransactions"
			p.txs, err = types.UnMarshalTransactions(b)
		case "block":
			p.api = "UnMarshalBlock"
			p.block, err = types.UnMarshalBlock(b)
		case "header":
			p.api = "UnMarshalBlockHeader"
			p.hdr, err = types.UnMarshalBlockHeader(b)
		case "group":
			p.api = "UnMarshalGroup"
			p.group, err = types.UnMarshalGroup(b)
		case "txjson":
			p.api = "TxJson.ToTransaction"
			p.tx, err = parseTxJson(b)
		case "signdata":
			p.api = "pbToSignData"
			s := new(middleware_pb.SignData)
			if err = proto.Unmarshal(b, s); err == nil {
				cnet.VerifPbToSignData(s) // nil result = rejected, fine
			}
		default:
			panic("harness: unknown kind " + kind)
		}
	})
	switch {
	case panicked:
		p.class, p.site, p.pval = "panic", site, fmt.Sprint(v)
	case err != nil:
		p.class = "err"
	default:
		p.class = "ok"
		switch kind {
		case "txs":
			if p.txs == nil {
				p.class = "nil-object"
			}
			for _, t := range p.txs {
				if t == nil {
					p.class = "nil-object"
				}
			}
		case "block":
			if p.block == nil {
				p.class = "nil-object"
			} else if p.block.Header == nil {
				// Header is a required field: the bytes carried a header, the parser dropped it
				// without an error and callers dereference block.Header
				p.class, p.api = "nil-object", "UnMarshalBlock-header"
			}
		case "header":
			if p.hdr == nil {
				p.class = "nil-object"
			}
		case "group":
			if p.group == nil || p.group.Header == nil {
				p.class = "nil-object"
			}
		}
	}
	return p
}

type runner struct {
	c        *fw.Ctx
	local    string
	reported map[string]int
	t0       time.Duration
}

func (r *runner) violation(sig, part, msg string, k kase, again func() string) {
	// confirm: same input must give the same observation
	if r.reported[sig] < 3 {
		if again != nil {
			if s2 := again(); s2 != sig {
				r.c.Count("unconfirmed_observations", 1)
				return
			}
		}
	}
	r.reported[sig]++
	r.c.Violation(sig, part, msg, k)
}

// checkParse runs one totality case.  It returns the observation so that callers can
// feed successfully parsed objects into the round-trip oracle.
func (r *runner) checkParse(kind string, b []byte, originf func() string) parsed {
	r.c.Eval(1)
	p := parseOnce(kind, b)
	r.c.Outcome(kind + ":" + p.class)
	if p.class != "err" {
		r.c.NontrivialN(1)
	} else {
		r.c.Count("rejected_by_decoder", 1)
	}
	if sig := parseSig(p); sig != "" {
		origin := ""
		if originf != nil {
			origin = originf()
		}
		k := kase{Part: "parse", Kind: kind, Hex: hex.EncodeToString(b), Origin: origin}
		msg := fmt.Sprintf("%s(%d bytes %s) [%s]: ", p.api, len(b), short(b), origin)
		if p.class == "panic" {
			msg += "panic " + p.pval + " at " + p.site
		} else {
			msg += "returned a nil object together with a nil error"
		}
		bc := append([]byte{}, b...)
		r.violation(sig, "totality", msg, k, func() string { return parseSig(parseOnce(kind, bc)) })
	}
	return p
}

func parseSig(p parsed) string {
	switch p.class {
	case "panic":
		return "C09:panic:" + p.site
	case "nil-object":
		return "C09:nil-object:" + p.api
	}
	return ""
}

func short(b []byte) string {
	if len(b) <= 48 {
		return hex.EncodeToString(b)
	}
	return hex.EncodeToString(b[:48]) + "…"
}

// ---------------------------------------------------------------- content comparison

func timeDiff(a, b time.Time) bool {
	_, oa := a.Zone()
	_, ob := b.Zone()
	return !a.Equal(b) || oa != ob
}

func hdrDiff(a, b *types.BlockHeader) string {
	switch {
	case a.Hash != b.Hash:
		return "Hash"
	case a.Height != b.Height:
		return "Height"
	case a.PreHash != b.PreHash:
		return "PreHash"
	case timeDiff(a.PreTime, b.PreTime):
		return "PreTime"
	case (a.ProveValue == nil) != (b.ProveValue == nil) || (a.ProveValue != nil && a.ProveValue.Cmp(b.ProveValue) != 0):
		return "ProveValue"
	case a.TotalQN != b.TotalQN:
		return "TotalQN"
	case timeDiff(a.CurTime, b.CurTime):
		return "CurTime"
	case !bytes.Equal(a.Castor, b.Castor):
		return "Castor"
	case !bytes.Equal(a.GroupId, b.GroupId):
		return "GroupId"
	case !bytes.Equal(a.Signature, b.Signature):
		return "Signature"
	case a.Nonce != b.Nonce:
		return "Nonce"
	case a.TxTree != b.TxTree:
		return "TxTree"
	case a.ReceiptTree != b.ReceiptTree:
		return "ReceiptTree"
	case a.StateTree != b.StateTree:
		return "StateTree"
	case !bytes.Equal(a.ExtraData, b.ExtraData):
		return "ExtraData"
	case !bytes.Equal(a.Random, b.Random):
		return "Random"
	}
	if len(a.RequestIds) != len(b.RequestIds) {
		return "RequestIds"
	}
	for k, v := range a.RequestIds {
		if w, ok := b.RequestIds[k]; !ok || w != v {
			return "RequestIds"
		}
	}
	if len(a.Transactions) != len(b.Transactions) {
		return "Transactions"
	}
	for i := range a.Transactions {
		if a.Transactions[i] != b.Transactions[i] {
			return "Transactions"
		}
	}
	if len(a.EvictedTxs) != len(b.EvictedTxs) {
		return "EvictedTxs"
	}
	for i := range a.EvictedTxs {
		if a.EvictedTxs[i] != b.EvictedTxs[i] {
			return "EvictedTxs"
		}
	}
	return ""
}

func strMapDiff(a, b map[string]string) bool {
	if len(a) != len(b) {
		return true
	}
	for k, v := range a {
		if w, ok := b[k]; !ok || w != v {
			return true
		}
	}
	return false
}

// txDiff compares every field that has a wire representation in both directions
// (SocketRequestId is written by no serialiser: node-local routing id, not compared).
func txDiff(a, b *types.Transaction) string {
	switch {
	case a.Source != b.Source:
		return "Source"
	case a.Target != b.Target:
		return "Target"
	case a.Type != b.Type:
		return "Type"
	case a.Time != b.Time:
		return "Time"
	case a.Data != b.Data:
		return "Data"
	case a.ExtraData != b.ExtraData:
		return "ExtraData"
	case a.ExtraDataType != b.ExtraDataType:
		return "ExtraDataType"
	case a.SubHash != b.SubHash:
		return "SubHash"
	case a.Hash != b.Hash:
		return "Hash"
	case a.Nonce != b.Nonce:
		return "Nonce"
	case a.RequestId != b.RequestId:
		return "RequestId"
	case a.ChainId != b.ChainId:
		return "ChainId"
	case (a.Sign == nil) != (b.Sign == nil):
		return "Sign"
	case a.Sign != nil && !bytes.Equal(a.Sign.Bytes(), b.Sign.Bytes()):
		return "Sign"
	case len(a.SubTransactions) != len(b.SubTransactions):
		return "SubTransactions"
	}
	for i := range a.SubTransactions {
		x, y := a.SubTransactions[i], b.SubTransactions[i]
		if x.Address != y.Address || x.Balance != y.Balance || strMapDiff(x.Coin, y.Coin) ||
			strMapDiff(x.FT, y.FT) || strMapDiff(x.Assets, y.Assets) {
			return "SubTransactions"
		}
	}
	return ""
}

func bytesListDiff(a, b [][]byte) bool {
	if len(a) != len(b) {
		return true
	}
	for i := range a {
		if !bytes.Equal(a[i], b[i]) {
			return true
		}
	}
	return false
}

func groupDiff(a, b *types.Group) string {
	ha, hb := a.Header, b.Header
	switch {
	case ha.Hash != hb.Hash:
		return "Header.Hash"
	case !bytes.Equal(ha.Parent, hb.Parent):
		return "Header.Parent"
	case !bytes.Equal(ha.PreGroup, hb.PreGroup):
		return "Header.PreGroup"
	case !bytes.Equal(ha.CreateBlockHash, hb.CreateBlockHash):
		return "Header.CreateBlockHash"
	case timeDiff(ha.BeginTime, hb.BeginTime):
		return "Header.BeginTime"
	case ha.MemberRoot != hb.MemberRoot:
		return "Header.MemberRoot"
	case ha.CreateHeight != hb.CreateHeight:
		return "Header.CreateHeight"
	case ha.Extends != hb.Extends:
		return "Header.Extends"
	case ha.ReadyHeight != hb.ReadyHeight || ha.WorkHeight != hb.WorkHeight || ha.DismissHeight != hb.DismissHeight:
		return "Header.Ready/Work/DismissHeight"
	case !bytes.Equal(a.Id, b.Id):
		return "Id"
	case !bytes.Equal(a.PubKey, b.PubKey):
		return "PubKey"
	case !bytes.Equal(a.Signature, b.Signature):
		return "Signature"
	case bytesListDiff(a.Members, b.Members):
		return "Members"
	case a.GroupHeight != b.GroupHeight:
		return "GroupHeight"
	}
	return ""
}
