package main

// Result-stability oracle over call sequences (non-initial states): what a Marshal* call
// returned must stay what it was after later Marshal*/UnMarshal* calls, objects returned by
// UnMarshal* must not change when later calls run or when the caller reuses its input
// buffer.  Sequences are all ordered pairs (same input twice included, cross-kind included)
// and all ordered triples over a smaller pool of values of different sizes drawn from the
// round-trip alphabets.

import (
	"bytes"
	"fmt"
	"time"

	"verif/h/fw"

	cnet "com.tuntun.rangers/node/src/consensus/net"
	middleware_pb "com.tuntun.rangers/node/src/middleware/pb"
	"com.tuntun.rangers/node/src/middleware/types"
	"github.com/gogo/protobuf/proto"
)

type item struct {
	kind, name string
	marshal    func() ([]byte, error)
	parse      func([]byte) (interface{}, error)
	same       func(a, b interface{}) string // "" when equal (content + identifying hash)
	original   interface{}                   // nil: decode-only item (bytes built by the harness)
}

func itemOf[T any](cd codec[T], x *T, name string) item {
	return item{
		kind: cd.kind, name: name,
		marshal: func() ([]byte, error) { return cd.marshal(x) },
		parse: func(b []byte) (interface{}, error) {
			o, err := cd.parse(b)
			if err == nil && o == nil {
				err = fmt.Errorf("nil object")
			}
			return o, err
		},
		same: func(a, b interface{}) string {
			f, _ := compare(cd, a.(*T), b.(*T))
			return f
		},
		original: x,
	}
}

// decode-only items: consensus messages carrying a header (the marshal side of consensus/net
// is unexported; the bytes are produced by proto.Marshal of the generated structs).
func consensusItem(kind, name string, m proto.Message, parse func([]byte) (string, error)) item {
	return item{
		kind: kind, name: name,
		marshal: func() ([]byte, error) { return proto.Marshal(m) },
		parse: func(b []byte) (interface{}, error) {
			s, err := parse(b)
			return s, err
		},
		same: func(a, b interface{}) string {
			if a.(string) != b.(string) {
				return "content"
			}
			return ""
		},
	}
}

func hdrString(b *types.BlockHeader) string {
	return fmt.Sprintf("%x %d %x %s %v %d %s %x %x %x %d %v %x %x %x %x %x %x %x gen=%x", b.Hash[:], b.Height, b.PreHash[:],
		b.PreTime.Format(time.RFC3339Nano), b.ProveValue, b.TotalQN, b.CurTime.Format(time.RFC3339Nano), b.Castor, b.GroupId, b.Signature,
		b.Nonce, b.RequestIds, b.Transactions, b.TxTree[:], b.ReceiptTree[:], b.StateTree[:], b.ExtraData, b.Random, b.EvictedTxs, b.GenHash().Bytes())
}

func stabilityPool() (all []item, small []item) {
	add := func(it item, inSmall bool) {
		all = append(all, it)
		if inSmall {
			small = append(small, it)
		}
	}
	ts, ls, hs, bs, gs := txSpace(), txsSpace(), headerSpace(false), blockSpace(), groupSpace(false)
	for i, ix := range spread(ts.total(), 6) {
		x, _ := ts.build(ix)
		add(itemOf(txCodec, x, fmt.Sprintf("tx#%d", ix)), i == 0 || i == 5)
	}
	js := txJsonSpace()
	for i, ix := range spread(js.total(), 3) {
		x, _ := js.build(ix)
		add(itemOf(txJsonCodec, x, fmt.Sprintf("txjson#%d", ix)), i == 2)
	}
	for i, ix := range []int64{1, 2, ls.total() / 2, ls.total() - 1} {
		x, _ := ls.build(ix)
		add(itemOf(txsCodec, x, fmt.Sprintf("txs#%d", ix)), i == 1 || i == 3)
	}
	for i, ix := range spread(hs.total(), 6) {
		x, _ := hs.build(ix)
		add(itemOf(hdrCodec, x, fmt.Sprintf("header-mid#%d", ix)), i == 0 || i == 5)
	}
	for i, ix := range spread(bs.total(), 6) {
		x, _ := bs.build(ix)
		add(itemOf(blockCodec, x, fmt.Sprintf("block#%d", ix)), i == 0 || i == 5 || i == 2)
	}
	for i, ix := range spread(gs.total(), 5) {
		x, _ := gs.build(ix)
		add(itemOf(groupCodec, x, fmt.Sprintf("group#%d", ix)), i == 0 || i == 4)
	}
	g1 := make([]byte, 64)
	g1[31], g1[63] = 1, 2
	sd := func(k byte) *middleware_pb.SignData {
		v := int32(k)
		return &middleware_pb.SignData{DataHash: rep(k, 32), DataSign: g1, SignMember: rep(k+1, 32), Version: &v}
	}
	for i, ix := range []int64{hs.total() / 3, hs.total() - 1} {
		x, _ := hs.build(ix)
		m := &middleware_pb.ConsensusCastMessage{Bh: types.BlockHeaderToPb(x), GroupID: rep(7, 32), Sign: sd(byte(i + 1)), ProveHash: [][]byte{rep(byte(i), 32)}}
		add(consensusItem("cast-message", fmt.Sprintf("cast(header-mid#%d)", ix), m, func(b []byte) (string, error) {
			msg, err := cnet.UnMarshalConsensusCastMessage(b)
			if err != nil || msg == nil {
				return "", fmt.Errorf("rejected: %v", err)
			}
			return fmt.Sprintf("%s | %x %s %x %s %s %d", hdrString(&msg.BH), msg.ProveHash, msg.Id, msg.GetDataHash().Bytes(),
				msg.GetSignature().GetHexString(), msg.GetSignerID().GetHexString(), msg.GetVersion()), nil
		}), i == 0)
	}
	for i := 0; i < 2; i++ {
		m := &middleware_pb.ConsensusVerifyMessage{BlockHash: rep(byte(0x30+i), 32), RandomSign: g1, Sign: sd(byte(i + 5))}
		add(consensusItem("verify-message", fmt.Sprintf("verify#%d", i), m, func(b []byte) (string, error) {
			msg, err := cnet.UnMarshalConsensusVerifyMessage(b)
			if err != nil || msg == nil {
				return "", fmt.Errorf("rejected: %v", err)
			}
			return fmt.Sprintf("%x %s %s %x %s %s %d", msg.BlockHash[:], msg.RandomSign.GetHexString(), msg.Id, msg.GetDataHash().Bytes(),
				msg.GetSignature().GetHexString(), msg.GetSignerID().GetHexString(), msg.GetVersion()), nil
		}), i == 0)
	}
	return
}

// evalSequence runs marshal+parse for every item in order and then checks that every earlier
// result is still what it was.  Returns (sig, message); sig == "" when stable.
func evalSequence(seq []item) (sig, msg string) {
	sig, msg, _ = evalSequence2(seq)
	return
}

func evalSequence2(seq []item) (sig, msg string, skipped bool) {
	names := ""
	for _, it := range seq {
		names += it.name + " ; "
	}
	panicked, v, site := fw.Try(func() {
		n := len(seq)
		out := make([][]byte, n)
		snap := make([][]byte, n)
		in := make([][]byte, n)
		obj := make([]interface{}, n)
		for i, it := range seq {
			b, err := it.marshal()
			if err != nil || b == nil {
				skipped = true
				return // unserialisable value: the round-trip part reports that
			}
			out[i] = b
			snap[i] = append([]byte{}, b...)
			in[i] = append([]byte{}, b...)
			o, perr := it.parse(in[i])
			if perr != nil {
				skipped = true
				return // not decodable even in isolation: the round-trip part reports that
			}
			obj[i] = o
		}
		for i, it := range seq {
			if !bytes.Equal(out[i], snap[i]) {
				sig = "C09:stability:" + it.kind + ":marshal-result-overwritten"
				msg = fmt.Sprintf("the bytes returned by the marshal call #%d (%s) changed after the later calls of the sequence [%s]", i, it.name, names)
				return
			}
		}
		ref := make([]interface{}, n)
		for i, it := range seq {
			o, err := it.parse(append([]byte{}, snap[i]...))
			if err != nil {
				sig = "C09:stability:" + it.kind + ":decode-depends-on-history"
				msg = fmt.Sprintf("bytes of %s decoded before but not after the sequence [%s]: %v", it.name, names, err)
				return
			}
			ref[i] = o
			if it.original != nil {
				if f := it.same(it.original, o); f != "" {
					sig = "C09:stability:" + it.kind + ":decode-after-later-calls:" + f
					msg = fmt.Sprintf("marshal result #%d (%s) no longer decodes to the value (%s) after the sequence [%s]", i, it.name, f, names)
					return
				}
			}
			if f := it.same(obj[i], o); f != "" {
				sig = "C09:stability:" + it.kind + ":parsed-object-changed"
				msg = fmt.Sprintf("the object returned by the unmarshal call #%d (%s) changed (%s) during the later calls of the sequence [%s]", i, it.name, f, names)
				return
			}
		}
		// the caller reuses its receive buffers and scribbles over its own copies of the results
		for i := range seq {
			for j := range in[i] {
				in[i][j] ^= 0xff
			}
		}
		for j := range out[n-1] {
			out[n-1][j] = 0
		}
		for i, it := range seq {
			if i < n-1 && !bytes.Equal(out[i], snap[i]) {
				sig = "C09:stability:" + it.kind + ":marshal-results-share-memory"
				msg = fmt.Sprintf("zeroing the last marshal result changed marshal result #%d (%s) in the sequence [%s]", i, it.name, names)
				return
			}
			if f := it.same(obj[i], ref[i]); f != "" {
				sig = "C09:stability:" + it.kind + ":parsed-object-aliases-input"
				msg = fmt.Sprintf("overwriting the input slice after unmarshal call #%d (%s) changed the returned object (%s)", i, it.name, f)
				return
			}
		}
	})
	if panicked {
		return "C09:stability:panic:" + site, fmt.Sprintf("sequence [%s] panicked: %v at %s", names, v, site), false
	}
	return
}

// sequenceAt decodes sequence number idx: first the ordered pairs over the full pool, then
// the ordered triples over the small pool.
func sequenceAt(all, small []item, idx int64) []item {
	na, ns := int64(len(all)), int64(len(small))
	if idx < na*na {
		return []item{all[idx/na], all[idx%na]}
	}
	idx -= na * na
	if idx < ns*ns*ns {
		return []item{small[idx/(ns*ns)], small[idx/ns%ns], small[idx%ns]}
	}
	return nil
}

func (r *runner) stabilityCase(all, small []item, idx int64) {
	seq := sequenceAt(all, small, idx)
	if seq == nil {
		return
	}
	r.c.Eval(1)
	r.c.NontrivialN(1)
	sig, msg, skipped := evalSequence2(seq)
	if skipped {
		r.c.Outcome(fmt.Sprintf("stability:len%d:skipped-not-serialisable", len(seq)))
		return
	}
	if sig == "" {
		r.c.Outcome(fmt.Sprintf("stability:len%d:stable", len(seq)))
		return
	}
	r.c.Outcome(fmt.Sprintf("stability:len%d:unstable", len(seq)))
	r.violation(sig, "stability", msg, kase{Part: "stability", Kind: seq[0].kind, Space: "sequences", Idx: idx},
		func() string { s, _ := evalSequence(seq); return s })
}

func (r *runner) stability(mine func() bool) {
	all, small := stabilityPool()
	na, ns := int64(len(all)), int64(len(small))
	total := na*na + ns*ns*ns
	for idx := int64(0); idx < total; idx++ {
		if mine() {
			r.stabilityCase(all, small, idx)
		}
	}
	r.c.Note("stability_sequences", fmt.Sprintf("%d ordered pairs over %d values (tx, tx list, header, block, group, cast/verify message; same value twice and cross-kind included) + %d ordered triples over %d values", na*na, na, ns*ns*ns, ns))
	if r.c.Shard == 0 {
		r.c.Sample(map[string]interface{}{"family": "stability", "sequence": []string{all[len(all)/2].name, all[0].name}, "checks": "earlier marshal results unchanged, still decode to the value; parsed objects unchanged; no aliasing of input or of other results"})
	}
}
