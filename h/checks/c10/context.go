// Execution-context dimension: the computational opcodes must behave in a read-only (static) frame exactly as
// in a plain call frame.  Contexts: (static) evm.StaticCall on the code, (wrap1) the code entered by the
// STATICCALL opcode of a wrapper contract, (wrap2) two static levels deep.  Oracle for the modelled programs:
// the reference result of the program itself (a frame's computation does not depend on how it was entered), and
// for the direct static call also the gas left of the plain call.  A second, table-driven part takes EVERY
// opcode of the jump table under test: the state-modifying set of the specification must be refused in a static
// frame with ErrWriteProtection, every other opcode must not carry the `writes` flag and must give the same
// status / output / gas under StaticCall as under Call.
package main

import (
	"bytes"
	"encoding/hex"
	"fmt"
	"math/big"

	"verif/h/asm"
	"verif/h/fw"
	"verif/h/node"
	"verif/h/refevm"

	"com.tuntun.rangers/node/src/common"
	"com.tuntun.rangers/node/src/vm"
)

var (
	wrapAddr1 = common.HexToAddress("0xf100000000000000000000000000000000000c10")
	wrapAddr2 = common.HexToAddress("0xf200000000000000000000000000000000000c10")
)

// wrapper: forward the calldata through STATICCALL to callee with all gas; return flag(32) ++ return data.
func wrapperCode(callee common.Address) []byte {
	z := []byte{0}
	p := asm.New().Op(vm.CALLDATASIZE).PushN(1, z).PushN(1, z).Op(vm.CALLDATACOPY)
	p.PushN(1, z).PushN(1, z).Op(vm.CALLDATASIZE).PushN(1, z).PushN(20, callee.Bytes()).Op(vm.GAS, vm.STATICCALL)
	p.PushN(1, z).Op(vm.MSTORE)
	p.Op(vm.RETURNDATASIZE).PushN(1, z).PushN(1, []byte{32}).Op(vm.RETURNDATACOPY)
	p.Op(vm.RETURNDATASIZE).PushN(1, []byte{32}).Op(vm.ADD).PushN(1, z).Op(vm.RETURN)
	return p.Bytes()
}

// callCtx runs code in one of the contexts plain | static | wrap1 | wrap2 and also reports the gas left.
func (r *runner) callCtx(ctx string, code, input []byte, gas uint64) (o obs, left uint64) {
	if r.state == nil || r.n >= 2000 {
		r.fresh()
	}
	r.n++
	var ret []byte
	var err error
	p, v, site := fw.Try(func() {
		r.state.SetCode(r.addr, code)
		evm := node.NewEVM(r.state, r.origin, r.height, gas)
		switch ctx {
		case "plain":
			ret, left, _, err = evm.Call(vm.AccountRef(r.origin), r.addr, input, gas, big.NewInt(0))
		case "static":
			ret, left, _, err = evm.StaticCall(vm.AccountRef(r.origin), r.addr, input, gas)
		case "wrap1":
			r.state.SetCode(wrapAddr1, wrapperCode(r.addr))
			ret, left, _, err = evm.Call(vm.AccountRef(r.origin), wrapAddr1, input, gas, big.NewInt(0))
		case "wrap2":
			r.state.SetCode(wrapAddr1, wrapperCode(r.addr))
			r.state.SetCode(wrapAddr2, wrapperCode(wrapAddr1))
			ret, left, _, err = evm.Call(vm.AccountRef(r.origin), wrapAddr2, input, gas, big.NewInt(0))
		default:
			panic("context " + ctx)
		}
	})
	switch {
	case p:
		r.fresh()
		return obs{Status: "panic", Err: site + " (" + fmt.Sprint(v) + ")"}, 0
	case err == nil:
		return obs{Status: "success", Ret: append([]byte{}, ret...)}, left
	case err == vm.ErrExecutionReverted:
		return obs{Status: "revert", Ret: append([]byte{}, ret...)}, left
	default:
		return obs{Status: "fault", Err: err.Error()}, left
	}
}

var contexts = []string{"static", "wrap1", "wrap2"}

// wrapped: what a wrapper returns around an inner (status, ret).
func wrapped(status string, ret []byte) []byte {
	out := make([]byte, 32)
	if status == "success" {
		out[31] = 1
	}
	if status == "success" || status == "revert" {
		out = append(out, ret...)
	}
	return out
}

// pickCtx: which cases also run in the static contexts.  Thorough: every case of the opcode families and a
// per-key subset of the big program families; quick: the first few cases of every (family, opcode, class) key
// of this worker's shard.
func (g *checker) pickCtx(s *spec) bool {
	big := s.fam == "prog3" || s.fam == "jump-pc0" || s.fam == "jump-sled"
	if g.c.Thorough() && !big {
		return true
	}
	key := s.fam + "|" + s.op + "|" + s.class
	limit := 4
	if big {
		key = s.fam + "|" + s.op
		limit = 40
	}
	if g.ctxSeen == nil {
		g.ctxSeen = map[string]int{}
	}
	g.ctxSeen[key]++
	return g.ctxSeen[key] <= limit
}

// judgeContexts: the case agreed with the reference in a plain call frame; now the static frames.
func (g *checker) judgeContexts(k *kase, code []byte, only string) *verdict {
	ref := refevm.Run(code, g.refcfg(k.Probe))
	if ref.Status == refevm.Unsupported {
		return nil
	}
	gas := uint64(10_000_000_000)
	want := ref.Status.String()
	if ref.Status == refevm.Loop {
		gas, want = 1_000_000, "fault"
	}
	var wantRet []byte
	if want != "fault" {
		wantRet = ref.Ret
	}
	_, plainLeft := obs{}, uint64(0)
	for _, ctx := range contexts {
		if only != "" && ctx != only {
			continue
		}
		g.c.Eval(1)
		g.c.Count("cases_context_"+ctx, 1)
		o, left := g.run.callCtx(ctx, code, calldata, gas)
		ok := false
		expDesc := ""
		switch ctx {
		case "static":
			ok = o.Status == want && (want == "fault" || bytes.Equal(o.Ret, wantRet))
			expDesc = fmt.Sprintf("%s ret=%x", want, wantRet)
			if ok && want != "fault" {
				var po obs
				po, plainLeft = g.run.callCtx("plain", code, calldata, gas)
				if po.Status == want && left != plainLeft {
					ok = false
					expDesc += fmt.Sprintf(" gas_left=%d (plain call)", plainLeft)
					o.Err = fmt.Sprintf("gas_left=%d", left)
				}
			}
		case "wrap1":
			e := wrapped(want, wantRet)
			ok = o.Status == "success" && bytes.Equal(o.Ret, e)
			expDesc = fmt.Sprintf("success ret=%x", e)
		case "wrap2":
			e := wrapped("success", wrapped(want, wantRet))
			ok = o.Status == "success" && bytes.Equal(o.Ret, e)
			expDesc = fmt.Sprintf("success ret=%x", e)
		}
		g.c.Outcome("context:" + ctx + ":" + o.Status)
		if ok {
			continue
		}
		g.run.fresh()
		if o2, _ := g.run.callCtx(ctx, code, calldata, gas); !o.same(o2) {
			return &verdict{sig: "C10:unstable:" + k.Op, msg: k.Desc + ": two executions differ in context " + ctx, k: k}
		}
		kk := *k
		kk.Ctx = ctx
		kk.Sig = "C10:static-context:" + k.Op
		if k.Op == "" {
			kk.Sig = "C10:static-context:" + k.Fam
		}
		if o.Status == "panic" {
			kk.Sig = "C10:panic:" + o.Err
		}
		return &verdict{sig: kk.Sig, k: &kk, msg: fmt.Sprintf("%s [table %s] in context %s (static frame) code=%s: expected %s | implementation %s %s ret=%x",
			k.Desc, k.Table, ctx, k.Code, expDesc, o.Status, o.Err, o.Ret)}
	}
	return nil
}

// state-modifying set of the specification plus the chain's own state-writing opcodes (fix 26a6ab5)
var modifying = map[byte]string{0x55: "SSTORE", 0xa0: "LOG0", 0xa1: "LOG1", 0xa2: "LOG2", 0xa3: "LOG3", 0xa4: "LOG4", 0xf0: "CREATE", 0xf5: "CREATE2",
	0xff: "SELFDESTRUCT", 0x5d: "TSTORE", 0xee: "STAKE", 0xef: "UNSTAKE", 0xeb: "UNSTAKEALL", 0xf7: "AUTHCALL"}

// famContextTable: every opcode of the jump table under test, operands all zero (CALL additionally with value 1).
func (g *checker) famContextTable() {
	state := node.LatestState()
	table := vm.VerifJumpTable(node.NewEVM(state, g.run.origin, g.run.height, 1))
	for _, info := range table {
		info := info
		op := byte(info.Op)
		_, mod := modifying[op]
		variants := []int{0}
		if op == 0xf1 {
			variants = []int{0, 1} // CALL: value 0 is a computation, value != 0 modifies state
		}
		for _, value := range variants {
			value := value
			i := g.idx
			g.idx++
			if g.stop || !g.mine(i) {
				continue
			}
			g.c.Count("cases_context-table", 1)
			g.c.NontrivialN(1)
			mustFail := mod || value == 1
			// flags: exactly the state-modifying opcodes may carry `writes` (CALL-with-value and TSTORE are refused by
			// the interpreter / the operation itself, which the behavioural test below decides)
			p := asm.New()
			for j := 0; j < info.Pops; j++ {
				if op == 0xf1 && j == info.Pops-3 {
					p.PushN(1, []byte{byte(value)}) // stack position 2 from the top = value
				} else if info.Jumps && j == info.Pops-1 {
					p.PushN(1, []byte{0}) // destination 0: not a JUMPDEST, faults alike in both frames
				} else {
					p.PushN(1, []byte{0})
				}
			}
			p.Raw(op)
			if info.Pushes == 1 {
				p.PushN(1, []byte{0}).Op(vm.MSTORE)
			}
			p.Op(vm.MSIZE).PushN(1, []byte{0}).Op(vm.RETURN)
			code := p.Bytes()
			name := info.Name
			k := &kase{Fam: "context-table", Op: name, Desc: fmt.Sprintf("%s with %d zero operands (value %d)", name, info.Pops, value), Table: g.table,
				Code: hex.EncodeToString(code), Input: hex.EncodeToString(calldata), Ctx: "static"}
			if v := g.judgeTableOp(k, code, info.Writes, mod, mustFail); v != nil {
				g.c.Violation(v.sig, "context-table", v.msg, v.k)
			}
		}
	}
}

func (g *checker) judgeTableOp(k *kase, code []byte, flagged, mod, mustFail bool) *verdict {
	if flagged && !mod {
		k.Sig = "C10:static-context:writes-flag:" + k.Op
		return &verdict{sig: k.Sig, k: k, msg: fmt.Sprintf("%s [table %s]: the jump table marks the computational opcode %s as state-modifying (writes=true): every read-only frame aborts at it", k.Desc, k.Table, k.Op)}
	}
	const gas = 50_000_000
	g.c.Eval(1)
	so, sleft := g.run.callCtx("static", code, calldata, gas)
	g.c.Outcome("context-table:" + so.Status)
	if mustFail { // (not run in a plain frame: it would really modify the harness state)
		if so.Status == "fault" && so.Err == vm.ErrWriteProtection.Error() {
			return nil
		}
		k.Sig = "C10:static-context:not-refused:" + k.Op
		return &verdict{sig: k.Sig, k: k, msg: fmt.Sprintf("%s [table %s]: state-modifying opcode in a static frame must fail with write protection; got %s %s ret=%x", k.Desc, k.Table, so.Status, so.Err, so.Ret)}
	}
	g.c.Eval(1)
	po, pleft := g.run.callCtx("plain", code, calldata, gas)
	if so.Status == po.Status && bytes.Equal(so.Ret, po.Ret) && (so.Status == "fault" && so.Err == po.Err || so.Status != "fault" && sleft == pleft) {
		return nil
	}
	k.Sig = "C10:static-context:" + k.Op
	if so.Status == "panic" {
		k.Sig = "C10:panic:" + so.Err
	}
	return &verdict{sig: k.Sig, k: k, msg: fmt.Sprintf("%s [table %s] code=%s: plain call %s %s ret=%x gas_left=%d | static call %s %s ret=%x gas_left=%d",
		k.Desc, k.Table, k.Code, po.Status, po.Err, po.Ret, pleft, so.Status, so.Err, so.Ret, sleft)}
}
