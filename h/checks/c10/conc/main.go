// Companion of C10: two nodes' block verifications (and RPC eth_call) run EVM interpreters on different
// goroutines.  Every body builds its own in-memory state, its own EVM / interpreter and runs one short program;
// output, gas left and error must be what the same body gets alone, under every schedule.  Interpreter- or
// package-level scratch (keccak hasher / buffer, pooled stacks, jump-destination analysis keyed by too little,
// memory scratch) shows up as a schedule-dependent result.
package main

import (
	"fmt"
	"math/big"
	"os"

	"verif/h/asm"
	"verif/h/conc"

	"com.tuntun.rangers/node/src/common"
	"com.tuntun.rangers/node/src/middleware/db"
	"com.tuntun.rangers/node/src/storage/account"
	"com.tuntun.rangers/node/src/vm"
)

func word(b byte) []byte {
	w := make([]byte, 32)
	for i := range w {
		w[i] = b + byte(3*i)
	}
	return w
}

// ret32 stores the top of stack at 0 and returns memory[0:n].
func ret(p *asm.Prog, n int) []byte {
	return p.PushN(1, []byte{0}).Op(vm.MSTORE).PushN(1, []byte{byte(n)}).PushN(1, []byte{0}).Op(vm.RETURN).Bytes()
}

// arithmetic: MULMOD(a, b, n) EXP SIGNEXTEND XOR, then KECCAK256 over the stored result
func progArith(seed byte) []byte {
	p := asm.New().PushN(32, word(seed+7)).PushN(32, word(seed)).PushN(32, word(seed+1)).Op(vm.MULMOD)
	p.PushN(1, []byte{5}).PushN(2, []byte{seed, 3}).Op(vm.EXP).Op(vm.XOR)
	p.PushN(1, []byte{seed % 31}).Op(vm.SIGNEXTEND)
	p.PushN(1, []byte{0}).Op(vm.MSTORE).PushN(1, []byte{32}).PushN(1, []byte{0}).Op(vm.SHA3)
	return ret(p, 32)
}

// memory: MSTORE, overlapping MCOPY with expansion, KECCAK256 over the unaligned middle, result stored behind
func progMem(seed byte, n byte) []byte {
	p := asm.New().PushN(32, word(seed)).PushN(1, []byte{0}).Op(vm.MSTORE)
	p.PushN(1, []byte{n}).PushN(1, []byte{0}).PushN(1, []byte{7}).Op(vm.MCOPY) // dst 7, src 0, len n
	p.PushN(1, []byte{n + 7}).PushN(1, []byte{1}).Op(vm.SHA3)
	p.PushN(1, []byte{64}).Op(vm.MSTORE)
	return p.PushN(1, []byte{96}).PushN(1, []byte{0}).Op(vm.RETURN).Bytes()
}

// jumps: a JUMPDEST byte inside PUSH data in front of the real one; the program jumps to `target`
// layout: 0 PUSH1 target | 2 JUMP | 3 PUSH3 5b 5b 5b | 7 JUMPDEST | 8 PUSH1 marker ...
// variant b shifts the real JUMPDEST by one byte (PUSH4), so position 7 is data there and 8 is code.
func progJump(variantB bool, target, marker byte) []byte {
	p := asm.New().PushN(1, []byte{target}).Op(vm.JUMP)
	if variantB {
		p.PushN(4, []byte{0x5b, 0x5b, 0x5b, 0x5b})
	} else {
		p.PushN(3, []byte{0x5b, 0x5b, 0x5b})
	}
	p.Op(vm.JUMPDEST).PushN(1, []byte{marker})
	return ret(p, 32)
}

// return data: identity precompile over memory[1:1+n], RETURNDATACOPY of its tail, RETURNDATASIZE
func progReturnData(seed, n byte) []byte {
	p := asm.New().PushN(32, word(seed)).PushN(1, []byte{0}).Op(vm.MSTORE)
	p.PushN(1, []byte{0}).PushN(1, []byte{0}).PushN(1, []byte{n}).PushN(1, []byte{1}).PushN(1, []byte{4}).PushN(3, []byte{0x0f, 0xff, 0xff}).Op(vm.STATICCALL, vm.POP)
	p.PushN(1, []byte{n - 2}).PushN(1, []byte{2}).PushN(1, []byte{64}).Op(vm.RETURNDATACOPY)
	p.Op(vm.RETURNDATASIZE).PushN(1, []byte{32}).Op(vm.MSTORE)
	return p.PushN(1, []byte{96}).PushN(1, []byte{0}).Op(vm.RETURN).Bytes()
}

// body: fresh in-memory state, fresh EVM, one call.
func body(addr byte, code, input []byte, gas uint64) func() string {
	return func() string {
		mem, err := db.NewMemDatabase()
		if err != nil {
			return "memdb: " + err.Error()
		}
		state, err := account.NewAccountDB(common.Hash{}, account.NewDatabase(mem))
		if err != nil {
			return "state: " + err.Error()
		}
		a := common.BytesToAddress([]byte{0xc1, addr})
		origin := common.BytesToAddress([]byte{0x0a})
		state.SetCode(a, code)
		ctx := vm.Context{CanTransfer: vm.CanTransfer, Transfer: vm.Transfer,
			GetHash: func(uint64) common.Hash { return common.Hash{} }, Origin: origin,
			BlockNumber: big.NewInt(5), Time: big.NewInt(1700000000), Difficulty: big.NewInt(1), GasPrice: big.NewInt(1), GasLimit: gas}
		evm := vm.NewEVMWithNFT(ctx, state, state)
		out, left, _, cerr := evm.Call(vm.AccountRef(origin), a, input, gas, big.NewInt(0))
		return fmt.Sprintf("out=%x gas_left=%d err=%v", out, left, cerr)
	}
}

func main() {
	const gas = 3_000_000
	// process-wide start-up of the node pieces the interpreter reads (config / fork table, loggers, current height);
	// done once, before any thread exists.  No chain, no LevelDB: every body owns an in-memory state.
	// (common.Init prints to stdout, which carries the companion's JSON report)
	stdout := os.Stdout
	os.Stdout = os.Stderr
	common.Init(0, "1.ini", "dev")
	account.Init()
	vm.InitVM()
	common.SetBlockHeight(5)
	os.Stdout = stdout
	scenarios := []conc.Scenario{
		// equal inputs on both threads: any shared scratch is written with equal values unless the interleaving tears it
		{Name: "arith-keccak||arith-keccak-same", Mk: func() []func() string {
			return []func() string{body(1, progArith(0x21), nil, gas), body(1, progArith(0x21), nil, gas)}
		}},
		// different values and sizes through keccak / MCOPY / memory expansion
		{Name: "mcopy-keccak||arith-keccak-different", Mk: func() []func() string {
			return []func() string{body(1, progMem(0x40, 30), nil, gas), body(2, progArith(0x93), nil, gas)}
		}},
		// the same contract address on two states with different code: the destination that is code in one is push data
		// in the other (one of the jumps must fail, each exactly as alone)
		{Name: "jump-pushdata||jump-pushdata-same-address", Mk: func() []func() string {
			return []func() string{body(7, progJump(false, 7, 0xaa), nil, gas), body(7, progJump(true, 7, 0xbb), nil, gas)}
		}},
		// return buffer of a precompile call vs. a plain hashing program
		{Name: "returndatacopy||mcopy-keccak", Mk: func() []func() string {
			return []func() string{body(3, progReturnData(0x55, 24), nil, gas), body(4, progMem(0x11, 9), nil, gas)}
		}},
	}
	if len(os.Args) > 1 && os.Args[1] == "dump" { // what every body returns alone (for the reader)
		for _, sc := range scenarios {
			for i, b := range sc.Mk() {
				fmt.Printf("%s [%d] %s\n", sc.Name, i, b())
			}
		}
		return
	}
	conc.Main(scenarios)
}
