// Height dimension for the fork-gated opcodes.  A proposal that installs opcodes is "active from block F on"
// (chain configuration): with the fork block set to F, a program using a gated opcode must be an invalid
// opcode at height F-1 and follow the specification model at F and F+1.  The gated set is not written down
// here: it is the difference between the jump tables the interpreter builds at F+1 and at F-1.
package main

import (
	"encoding/hex"
	"fmt"
	"math/big"
	"strings"

	"verif/h/asm"
	"verif/h/node"

	"com.tuntun.rangers/node/src/common"
	"com.tuntun.rangers/node/src/vm"
)

const forkAt = 1000

// gates: the proposals whose activation changes the instruction set (NewEVMInterpreter)
var gates = []struct {
	name string
	ptr  func() *uint64
}{
	{"proposal022", func() *uint64 { return &common.LocalChainConfig.Proposal022Block }},
}

func heightWord(h uint64) string {
	switch {
	case h < forkAt:
		return "before-activation"
	case h == forkAt:
		return "at-activation-height"
	}
	return "after-activation"
}

// atHeight runs f with the gate at forkAt and the EVM at height h, then restores everything.
func (g *checker) atHeight(gate func() *uint64, h uint64, f func()) {
	p := gate()
	oldF, oldH, oldC := *p, g.run.height, g.cancun
	*p, g.run.height, g.cancun = forkAt, h, h >= forkAt
	g.run.fresh()
	defer func() { *p, g.run.height, g.cancun = oldF, oldH, oldC; g.run.fresh() }()
	f()
}

func (g *checker) famForkGate() {
	for _, gate := range gates {
		gate := gate
		// gated set = table(F+1) \ table(F-1)
		var before, after map[byte]vm.VerifOpInfo
		tableAt := func(h uint64) map[byte]vm.VerifOpInfo {
			m := map[byte]vm.VerifOpInfo{}
			g.atHeight(gate.ptr, h, func() {
				for _, i := range vm.VerifJumpTable(node.NewEVM(node.LatestState(), g.run.origin, h, 1)) {
					m[byte(i.Op)] = i
				}
			})
			return m
		}
		before, after = tableAt(forkAt-1), tableAt(forkAt+1)
		for b := 0; b < 256; b++ {
			info, ok := after[byte(b)]
			if _, was := before[byte(b)]; !ok || was {
				continue
			}
			for _, h := range []uint64{forkAt - 1, forkAt, forkAt + 1} {
				info, h := info, h
				i := g.idx
				g.idx++
				if g.stop || !g.mine(i) {
					continue
				}
				g.c.Count("cases_fork-gate", 1)
				g.atHeight(gate.ptr, h, func() {
					if v := g.judgeGate(gate.name, info, h); v != nil {
						g.c.Violation(v.sig, "fork-gate", v.msg, v.k)
					}
				})
			}
		}
	}
}

// judgeGate: modelled opcodes (PUSH0, MCOPY) against the reference for the fork state of height h; the others
// (zero operands) must be an invalid opcode before F and execute from F on.
func (g *checker) judgeGate(gate string, info vm.VerifOpInfo, h uint64) *verdict {
	op := byte(info.Op)
	sig := fmt.Sprintf("C10:fork-gate:%s:%s", info.Name, heightWord(h))
	var s *spec
	switch op {
	case 0x5f:
		s = &spec{fam: "fork-gate", op: "PUSH0", body: withSentinel().Raw(0x5f).Bytes()}
	case 0x5e:
		s = memCase("fork-gate", 2, 0x5e, "", big.NewInt(7), big.NewInt(0), big.NewInt(30))
	}
	if s != nil {
		code, probe := g.assemble(s)
		k := &kase{Fam: "fork-gate", Op: info.Name, Desc: fmt.Sprintf("%s at height %d with %s active from block %d", info.Name, h, gate, forkAt), Table: g.table,
			Code: hex.EncodeToString(code), Input: hex.EncodeToString(calldata), Probe: probe, Height: h, Gate: gate}
		v := g.judge(k, code, "")
		if v != nil && !strings.HasPrefix(v.sig, "C10:panic:") {
			v.sig, v.k.Sig = sig, sig
		}
		return v
	}
	p := asm.New()
	for j := 0; j < info.Pops; j++ {
		p.PushN(1, []byte{0})
	}
	p.Raw(op)
	code := p.PushN(1, []byte{0}).PushN(1, []byte{0}).Op(vm.RETURN).Bytes()
	k := &kase{Fam: "fork-gate", Op: info.Name, Desc: fmt.Sprintf("%s (zero operands) at height %d with %s active from block %d", info.Name, h, gate, forkAt), Table: g.table,
		Code: hex.EncodeToString(code), Input: hex.EncodeToString(calldata), Height: h, Gate: gate, Sig: sig}
	g.c.Eval(1)
	g.c.NontrivialN(1)
	o, _ := g.run.callCtx("plain", code, calldata, 50_000_000)
	g.c.Outcome("fork-gate:" + o.Status)
	want := "success"
	if h < forkAt {
		want = "fault"
	}
	if o.Status == want && (want == "success" || strings.Contains(o.Err, "invalid opcode")) {
		return nil
	}
	return &verdict{sig: sig, k: k, msg: fmt.Sprintf("%s [table %s] code=%x: expected %s | implementation %s %s", k.Desc, k.Table, code, want, o.Status, o.Err)}
}
