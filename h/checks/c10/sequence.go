// Non-initial-state differential: a code Y is executed AFTER another code X inside one call tree of ONE EVM
// object, in every code-identity combination (deployed contract with a code hash, hash-less initcode of CREATE /
// top-level Create, CREATE2 initcode, nested and sibling frames).  Y must do exactly what the reference says Y
// does on its own: the jump verdict comes from refevm.JumpDests, the returned bytes of the computational
// probes from refevm.Run.  Anything the interpreter keeps per EVM / per call tree / per process (JUMPDEST
// analysis map handed from caller to callee, keccak hasher and buffer, return-data buffer, pooled stacks)
// is exercised in a non-fresh state this way.
package main

import (
	"bytes"
	"encoding/hex"
	"fmt"
	"math/big"
	"sort"

	"verif/h/asm"
	"verif/h/fw"
	"verif/h/node"
	"verif/h/refevm"

	"com.tuntun.rangers/node/src/common"
	"com.tuntun.rangers/node/src/vm"
)

const seqT = 96 // the offset every jump probe classifies differently

var (
	seqDriver = common.HexToAddress("0xd100000000000000000000000000000000000c10")
	seqAddrs  = []common.Address{common.HexToAddress("0xe100000000000000000000000000000000000c10"), common.HexToAddress("0xe200000000000000000000000000000000000c10")}
)

// createSnippet: CODECOPY the child (appended to the code at childOff) to memory 0x400, CREATE/CREATE2 it, store the
// success flag (address != 0) at memory 0x20.  Straight-line, fixed length.
func createSnippet(childOff, childLen int, create2 bool) []byte {
	be := func(v int) []byte { return []byte{byte(v >> 8), byte(v)} }
	p := asm.New().PushN(2, be(childLen)).PushN(2, be(childOff)).PushN(2, be(0x400)).Op(vm.CODECOPY)
	if create2 {
		p.PushN(1, []byte{0x5a})
	}
	p.PushN(2, be(childLen)).PushN(2, be(0x400)).PushN(1, []byte{0})
	if create2 {
		p.Op(vm.CREATE2)
	} else {
		p.Op(vm.CREATE)
	}
	return p.Op(vm.ISZERO, vm.ISZERO).PushN(1, []byte{0x20}).Op(vm.MSTORE).Bytes()
}

// jprobe is a jump probe.  Layout:
//
//	[pre: create child first]  PUSH1 dest  JUMP  00.. | T-1: region(kind) | T+2: JUMPDEST [post: create child]  report
//
// kind at offset T: 'J' JUMPDEST opcodes (5b 5b 5b), 'D' 0x5b inside PUSH2 data (61 5b 5b), 'N' other opcodes (58 58 50),
// 'S' the code is shorter than T (PUSH1 3 JUMP JUMPDEST report).  toT: jump to T, otherwise to the always-valid T+2.
// report: memory[0] = marker byte, memory[0x20] = child flag; RETURN(0, 64).
type jprobe struct {
	kind         byte
	toT          bool
	marker       byte
	childFirst   bool // create the child before the jump (the child's frame runs first)
	childCreate2 bool
}

func (p jprobe) dest() int {
	if p.kind == 'S' {
		return 3
	}
	if p.toT {
		return seqT
	}
	return seqT + 2
}

func (p jprobe) code(child []byte) []byte {
	report := asm.New().PushN(1, []byte{p.marker}).PushN(1, []byte{0}).Op(vm.MSTORE8).PushN(1, []byte{64}).PushN(1, []byte{0}).Op(vm.RETURN).Bytes()
	if p.kind == 'S' {
		return append([]byte{0x60, 3, 0x56, 0x5b}, report...)
	}
	build := func(childOff int) []byte {
		var b []byte
		if child != nil && p.childFirst {
			b = append(b, createSnippet(childOff, len(child), p.childCreate2)...)
		}
		b = append(b, 0x60, byte(p.dest()), 0x56)
		for len(b) < seqT-1 {
			b = append(b, 0x00)
		}
		switch p.kind {
		case 'J':
			b = append(b, 0x5b, 0x5b, 0x5b)
		case 'D':
			b = append(b, 0x61, 0x5b, 0x5b)
		default:
			b = append(b, 0x58, 0x58, 0x50)
		}
		b = append(b, 0x5b)
		if child != nil && !p.childFirst {
			b = append(b, createSnippet(childOff, len(child), p.childCreate2)...)
		}
		return append(b, report...)
	}
	n := len(build(0)) // all pushes are fixed width: the length does not depend on the offset
	return append(build(n), child...)
}

func (p jprobe) String() string {
	to := "T+2"
	if p.toT {
		to = "T"
	}
	if p.kind == 'S' {
		to = "3"
	}
	return fmt.Sprintf("%c@T->%s", p.kind, to)
}

// lands: the reference's verdict on the probe's own jump.
func lands(code []byte, dest int) bool {
	d := refevm.JumpDests(code)
	return dest < len(d) && d[dest]
}

// report the reference expects from a probe frame (nil = exceptional halt).
func (p jprobe) expect(code []byte, childFlag byte) []byte {
	if !lands(code, p.dest()) {
		return nil
	}
	r := make([]byte, 64)
	r[0] = p.marker
	r[63] = childFlag
	return r
}

// computational probes: returned bytes decided by refevm.Run on the code alone
type qprobe struct {
	name string
	code []byte
}

func qprobes() []qprobe {
	ret := func(p *asm.Prog, n int) []byte {
		return p.PushN(1, []byte{byte(n)}).PushN(1, []byte{0}).Op(vm.RETURN).Bytes()
	}
	q1 := asm.New().PushN(32, pat1.Bytes()).PushN(1, []byte{0}).Op(vm.MSTORE).PushN(32, pat2.Bytes()).PushN(1, []byte{32}).Op(vm.MSTORE).
		PushN(1, []byte{40}).PushN(1, []byte{3}).Op(vm.SHA3).PushN(1, []byte{0}).Op(vm.MSTORE)
	q2 := asm.New().PushN(1, []byte{0x7e}).PushN(1, []byte{0}).Op(vm.MSTORE8).PushN(1, []byte{1}).PushN(1, []byte{0}).Op(vm.SHA3).PushN(1, []byte{0}).Op(vm.MSTORE)
	q3 := asm.New().Op(vm.RETURNDATASIZE).PushN(1, []byte{0}).Op(vm.MSTORE).Op(vm.MSIZE).PushN(1, []byte{32}).Op(vm.MSTORE).Op(vm.CALLDATASIZE).PushN(1, []byte{64}).Op(vm.MSTORE)
	q4 := asm.New().PushN(32, mixedA.Bytes()).PushN(1, []byte{0}).Op(vm.MSTORE).
		PushN(1, []byte{0}).PushN(1, []byte{0}).PushN(1, []byte{29}).PushN(1, []byte{2}).PushN(1, []byte{4}).PushN(4, []byte{0x00, 0xff, 0xff, 0xff}).Op(vm.STATICCALL, vm.POP).
		PushN(1, []byte{29}).PushN(1, []byte{0}).PushN(1, []byte{32}).Op(vm.RETURNDATACOPY).Op(vm.RETURNDATASIZE).PushN(1, []byte{64}).Op(vm.MSTORE)
	q5 := asm.New()
	for i := 0; i < 24; i++ {
		q5.PushN(32, distinct(i).Bytes())
	}
	q5.PushN(2, []byte{0x03, 0xe8}).Op(vm.MSTORE).Op(vm.MSIZE).PushN(1, []byte{0}).Op(vm.MSTORE).Op(vm.ADD).PushN(1, []byte{32}).Op(vm.MSTORE)
	return []qprobe{{"keccak40", ret(q1, 32)}, {"keccak1", ret(q2, 32)}, {"frame-env", ret(q3, 96)}, {"identity-returndata", ret(q4, 96)}, {"deep-stack-memory", ret(q5, 64)}}
}

// one step of a driver: run a code as deployed contract (CALL), or as CREATE / CREATE2 initcode
type seqStep struct {
	mode   string // call | create | create2
	code   []byte
	name   string
	expect []byte // expected returned bytes (call: return data, create: deployed code); nil = exceptional halt
}

const seqOut = 96 // bytes of return data captured per CALL step

// driver: jump-free code performing the steps in order.  Memory: flags at 32*i, CALL return bytes at 0x100+seqOut*i,
// EXTCODESIZE of a created contract at 0x100+seqOut*i.  RETURN(0, 0x100+seqOut*n).
func driverCode(steps []seqStep) ([]byte, map[common.Address][]byte) {
	be := func(v int) []byte { return []byte{byte(v >> 8), byte(v)} }
	deploy := map[common.Address][]byte{}
	build := func(offs []int) []byte {
		p := asm.New()
		for i, s := range steps {
			out := 0x100 + seqOut*i
			switch s.mode {
			case "call":
				deploy[seqAddrs[i]] = s.code
				p.PushN(1, []byte{seqOut}).PushN(2, be(out)).PushN(1, []byte{0}).PushN(1, []byte{0}).PushN(1, []byte{0}).
					PushN(20, seqAddrs[i].Bytes()).PushN(4, []byte{0x0f, 0xff, 0xff, 0xff}).Op(vm.CALL)
			default:
				p.PushN(2, be(len(s.code))).PushN(2, be(offs[i])).PushN(2, be(0x400)).Op(vm.CODECOPY)
				if s.mode == "create2" {
					p.PushN(1, []byte{byte(0x51 + i)})
				}
				p.PushN(2, be(len(s.code))).PushN(2, be(0x400)).PushN(1, []byte{0})
				if s.mode == "create2" {
					p.Op(vm.CREATE2)
				} else {
					p.Op(vm.CREATE)
				}
				// deployed code of the new contract -> out region (EXTCODECOPY(addr, out, 0, seqOut)), flag = addr != 0
				p.PushN(1, []byte{seqOut}).PushN(1, []byte{0}).PushN(2, be(out)).Op(vm.DUP4, vm.EXTCODECOPY).Op(vm.ISZERO, vm.ISZERO)
			}
			p.PushN(2, be(32*i)).Op(vm.MSTORE)
		}
		p.PushN(2, be(0x100+seqOut*len(steps))).PushN(1, []byte{0}).Op(vm.RETURN)
		return p.Bytes()
	}
	offs := make([]int, len(steps))
	n := len(build(offs))
	for i, s := range steps {
		offs[i] = n
		if s.mode != "call" {
			n += len(s.code)
		}
	}
	code := build(offs)
	for _, s := range steps {
		if s.mode != "call" {
			code = append(code, s.code...)
		}
	}
	return code, deploy
}

func driverExpect(steps []seqStep) []byte {
	r := make([]byte, 0x100+seqOut*len(steps))
	for i, s := range steps {
		if s.expect != nil {
			r[32*i+31] = 1
			copy(r[0x100+seqOut*i:0x100+seqOut*(i+1)], s.expect)
		}
	}
	return r
}

// seqCase is a complete scenario on a fresh state and ONE EVM object.
type seqCase struct {
	Combo  string            `json:"combo"`
	Desc   string            `json:"desc"`
	Table  string            `json:"table"`
	Deploy map[string]string `json:"deploy"` // address -> code set before the run
	Top    string            `json:"top"`    // call (to the driver address) | create (top-level contract creation)
	Code   string            `json:"code"`   // driver code (call) / initcode (create)
	Expect string            `json:"expect"` // expected returned bytes; "fault" = exceptional halt
	Fam    string            `json:"fam"`
}

func (g *checker) runSeq(sc *seqCase) obs {
	var o obs
	p, v, site := fw.Try(func() {
		state := node.LatestState()
		var keys []string
		for a := range sc.Deploy {
			keys = append(keys, a)
		}
		sort.Strings(keys)
		for _, a := range keys {
			code, _ := hex.DecodeString(sc.Deploy[a])
			state.SetCode(common.HexToAddress(a), code)
		}
		code, _ := hex.DecodeString(sc.Code)
		gas := uint64(2_000_000_000)
		evm := node.NewEVM(state, g.run.origin, g.run.height, gas)
		var ret []byte
		var err error
		if sc.Top == "create" {
			ret, _, _, _, err = evm.Create(vm.AccountRef(g.run.origin), code, gas, big.NewInt(0))
		} else {
			state.SetCode(seqDriver, code)
			ret, _, _, err = evm.Call(vm.AccountRef(g.run.origin), seqDriver, nil, gas, big.NewInt(0))
		}
		switch {
		case err == nil:
			o = obs{Status: "success", Ret: append([]byte{}, ret...)}
		case err == vm.ErrExecutionReverted:
			o = obs{Status: "revert", Ret: append([]byte{}, ret...)}
		default:
			o = obs{Status: "fault", Err: err.Error()}
		}
	})
	if p {
		return obs{Status: "panic", Err: site + " (" + fmt.Sprint(v) + ")"}
	}
	return o
}

func (g *checker) judgeSeq(sc *seqCase) *verdict {
	g.c.Eval(1)
	g.c.NontrivialN(1)
	o := g.runSeq(sc)
	want, _ := hex.DecodeString(sc.Expect)
	ok := false
	if sc.Expect == "fault" {
		ok = o.Status == "fault"
	} else {
		ok = o.Status == "success" && bytes.Equal(o.Ret, want)
	}
	g.c.Outcome("sequence:" + sc.Combo + ":" + o.Status)
	if ok {
		return nil
	}
	if o2 := g.runSeq(sc); !o.same(o2) {
		return &verdict{sig: "C10:unstable:sequence", msg: sc.Desc + ": two executions differ", k: nil}
	}
	sig := "C10:sequence:" + sc.Combo
	if o.Status == "panic" {
		sig = "C10:sequence-panic:" + sc.Combo
	}
	diff := ""
	if o.Status == "success" && len(o.Ret) == len(want) {
		for i := 0; i+32 <= len(want); i += 32 {
			if !bytes.Equal(want[i:i+32], o.Ret[i:i+32]) {
				diff = fmt.Sprintf(" | first differing word at %#x: want %x got %x", i, want[i:i+32], o.Ret[i:i+32])
				break
			}
		}
	}
	return &verdict{sig: sig, msg: fmt.Sprintf("%s [table %s]: expected %s | implementation %s %s ret=%x%s", sc.Desc, sc.Table, sc.Expect, o.Status, o.Err, o.Ret, diff)}
}

func (g *checker) seq(mk func() *seqCase) {
	i := g.idx
	g.idx++
	if g.stop || !g.mine(i) {
		return
	}
	sc := mk()
	sc.Table, sc.Fam = g.table, "sequence"
	g.c.Count("cases_sequence", 1)
	if v := g.judgeSeq(sc); v != nil {
		g.c.Violation(v.sig, "sequence", v.msg, sc)
	}
}

func hexmap(m map[common.Address][]byte) map[string]string {
	out := map[string]string{}
	for a, c := range m {
		out[a.GetHexString()] = hex.EncodeToString(c)
	}
	return out
}

func exp(b []byte) string {
	if b == nil {
		return "fault"
	}
	return hex.EncodeToString(b)
}

func (g *checker) famSequence() {
	kindsX := []byte{'J', 'D', 'N', 'S'}
	kindsY := []byte{'J', 'D', 'N'}
	modes := []string{"call", "create", "create2"}
	// (1) sibling frames under a jump-free driver: X then Y in every identity combination
	for _, mx := range modes {
		for _, my := range modes {
			for _, kx := range kindsX {
				for _, ky := range kindsY {
					for _, xToT := range []bool{false, true} {
						mx, my, kx, ky, xToT := mx, my, kx, ky, xToT
						g.seq(func() *seqCase {
							X := jprobe{kind: kx, toT: xToT, marker: 0xa1}
							Y := jprobe{kind: ky, toT: true, marker: 0xb2}
							cx, cy := X.code(nil), Y.code(nil)
							steps := []seqStep{{mx, cx, X.String(), X.expect(cx, 0)}, {my, cy, Y.String(), Y.expect(cy, 0)}}
							code, dep := driverCode(steps)
							return &seqCase{Combo: mx + "-then-" + my, Desc: fmt.Sprintf("driver: %s X(%s) then %s Y(%s); T=%d", mx, X, my, Y, seqT),
								Deploy: hexmap(dep), Top: "call", Code: hex.EncodeToString(code), Expect: exp(driverExpect(steps))}
						})
					}
				}
			}
		}
	}
	// (2) nesting through top-level contract creation: parent X jumps, then CREATEs child Y (child second);
	//     and parent Y CREATEs child X first, then jumps itself (parent second)
	for _, c2 := range []bool{false, true} {
		for _, kx := range kindsX {
			for _, ky := range kindsY {
				c2, kx, ky := c2, kx, ky
				name := "create"
				if c2 {
					name = "create2"
				}
				if kx != 'S' {
					g.seq(func() *seqCase {
						Y := jprobe{kind: ky, toT: true, marker: 0xb2}
						cy := Y.code(nil)
						X := jprobe{kind: kx, toT: false, marker: 0xa1, childCreate2: c2}
						cx := X.code(cy)
						flag := byte(0)
						if Y.expect(cy, 0) != nil {
							flag = 1
						}
						return &seqCase{Combo: "toplevel-create-parent-then-" + name + "-child", Desc: fmt.Sprintf("top-level Create of X(%s) which then %ss Y(%s); T=%d", X, name, Y, seqT),
							Deploy: map[string]string{}, Top: "create", Code: hex.EncodeToString(cx), Expect: exp(X.expect(cx, flag))}
					})
				}
				g.seq(func() *seqCase {
					X := jprobe{kind: kx, toT: false, marker: 0xa1}
					cx := X.code(nil)
					Y := jprobe{kind: ky, toT: true, marker: 0xb2, childFirst: true, childCreate2: c2}
					cy := Y.code(cx)
					return &seqCase{Combo: name + "-child-then-toplevel-create-parent", Desc: fmt.Sprintf("top-level Create of Y(%s) which first %ss X(%s), then jumps; T=%d", Y, name, X, seqT),
						Deploy: map[string]string{}, Top: "create", Code: hex.EncodeToString(cy), Expect: exp(Y.expect(cy, 1))}
				})
			}
		}
	}
	// (3) the same differential for everything else an interpreter keeps across frames (keccak hasher / buffer,
	//     return-data buffer, pooled stacks and memory): Y's returned bytes after X = reference result of Y alone
	qs := qprobes()
	for _, mx := range modes {
		for xi := range qs {
			for yi := range qs {
				mx, xi, yi := mx, xi, yi
				g.seq(func() *seqCase {
					X, Y := qs[xi], qs[yi]
					want := func(q qprobe) []byte {
						r := refevm.Run(q.code, refevm.Config{Cancun: g.cancun, Probe: -1})
						if r.Status != refevm.Success {
							panic("sequence probe " + q.name + ": reference " + r.Status.String() + " " + r.Why)
						}
						out := make([]byte, seqOut)
						copy(out, r.Ret)
						return out
					}
					steps := []seqStep{{mx, X.code, X.name, want(X)}, {"call", Y.code, Y.name, want(Y)}}
					code, dep := driverCode(steps)
					return &seqCase{Combo: mx + "-then-call-computation", Desc: fmt.Sprintf("driver: %s %s then call %s", mx, X.name, Y.name),
						Deploy: hexmap(dep), Top: "call", Code: hex.EncodeToString(code), Expect: exp(driverExpect(steps))}
				})
			}
		}
	}
}
