// C10: EVM computational opcodes implement the Ethereum specification.
//
// Bounded-exhaustive enumeration (E4): every generated program is deployed with
// state.SetCode and executed by the real interpreter through evm.Call; the same
// bytes are interpreted by verif/h/refevm (math/big, own JUMPDEST analysis,
// x/crypto keccak).  The program under test is followed by an epilogue that pushes
// MSIZE, stores every stack item behind the memory image and RETURNs the lot, so
// "identical return data" means identical memory, msize and stack.  The reference
// interprets the *whole* deployed code (prologue, program, epilogue), so the oracle
// is simply: same halt class (success / revert / exceptional) and same return data.
package main

import (
	"bytes"
	"encoding/hex"
	"encoding/json"
	"fmt"
	"math/big"
	"os"
	"path/filepath"
	"runtime"
	"runtime/debug"
	"sort"
	"strings"
	"time"

	"verif/h/asm"
	"verif/h/fw"
	"verif/h/node"
	"verif/h/refevm"

	"com.tuntun.rangers/node/src/common"
	"com.tuntun.rangers/node/src/storage/account"
	"com.tuntun.rangers/node/src/vm"
)

// ---------------------------------------------------------------------------------------------
// words

func pow2(n uint) *big.Int { return new(big.Int).Lsh(big.NewInt(1), n) }
func sub(a *big.Int, n int64) *big.Int {
	return new(big.Int).Sub(a, big.NewInt(n))
}
func hexw(s string) *big.Int {
	x, ok := new(big.Int).SetString(strings.ReplaceAll(s, " ", ""), 16)
	if !ok {
		panic(s)
	}
	return x
}

var (
	mixedA = hexw("0123456789abcdef fedcba9876543210 0f1e2d3c4b5a6978 8796a5b4c3d2e1f0")
	mixedB = hexw("f0e1d2c3b4a59687 78695a4b3c2d1e0f 00000000ffffffff ffffffff00000001")
	sent   = hexw("5e5e5e5e17171717 c3c3c3c3a9a9a9a9 0b0b0b0b6d6d6d6d e2e2e2e24f4f4f4f") // stack-bottom sentinel
	pat1   = hexw("a0a1a2a3a4a5a6a7 a8a9aaabacadaeaf b0b1b2b3b4b5b6b7 b8b9babbbcbdbebf")
	pat2   = hexw("c0c1c2c3c4c5c6c7 c8c9cacbcccdcecf d0d1d2d3d4d5d6d7 d8d9dadbdcdddedf")

	// W: the boundary operand set of DESIGN §4 C10 (|W| = 18)
	W = []*big.Int{
		big.NewInt(0), big.NewInt(1), big.NewInt(2), big.NewInt(31), big.NewInt(32), big.NewInt(255), big.NewInt(256),
		pow2(63), sub(pow2(64), 1), pow2(64), pow2(128),
		sub(pow2(255), 1), pow2(255), new(big.Int).Add(pow2(255), big.NewInt(1)),
		sub(pow2(256), 2), sub(pow2(256), 1), mixedA, mixedB,
	}
	// V4/V5: operand sets of the straight-line programs
	V4 = []*big.Int{big.NewInt(0), big.NewInt(1), pow2(255), sub(pow2(256), 1)}
	V5 = []*big.Int{big.NewInt(0), big.NewInt(1), pow2(255), sub(pow2(256), 1), mixedA}
	// S: memory offsets / sizes
	S = []int64{0, 1, 31, 32, 33, 64, 1000}
	// H: offsets / sizes around the uint64 boundary (memory-size overflow handling)
	H = []*big.Int{big.NewInt(0), big.NewInt(32), pow2(63), sub(pow2(64), 1), pow2(64), sub(pow2(256), 1)}

	calldata = func() []byte {
		b := make([]byte, 40)
		for i := range b {
			b[i] = byte(0x11 + 5*i)
		}
		return b
	}()
)

var opName = map[byte]string{
	0x00: "STOP", 0x01: "ADD", 0x02: "MUL", 0x03: "SUB", 0x04: "DIV", 0x05: "SDIV", 0x06: "MOD", 0x07: "SMOD",
	0x08: "ADDMOD", 0x09: "MULMOD", 0x0a: "EXP", 0x0b: "SIGNEXTEND", 0x10: "LT", 0x11: "GT", 0x12: "SLT", 0x13: "SGT",
	0x14: "EQ", 0x15: "ISZERO", 0x16: "AND", 0x17: "OR", 0x18: "XOR", 0x19: "NOT", 0x1a: "BYTE", 0x1b: "SHL",
	0x1c: "SHR", 0x1d: "SAR", 0x20: "KECCAK256", 0x35: "CALLDATALOAD", 0x36: "CALLDATASIZE", 0x37: "CALLDATACOPY",
	0x38: "CODESIZE", 0x39: "CODECOPY", 0x3d: "RETURNDATASIZE", 0x3e: "RETURNDATACOPY", 0x50: "POP", 0x51: "MLOAD",
	0x52: "MSTORE", 0x53: "MSTORE8", 0x56: "JUMP", 0x57: "JUMPI", 0x58: "PC", 0x59: "MSIZE", 0x5b: "JUMPDEST",
	0x5e: "MCOPY", 0x5f: "PUSH0", 0xf3: "RETURN", 0xfd: "REVERT", 0xfa: "STATICCALL",
}

func name(op byte) string {
	switch {
	case op >= 0x60 && op <= 0x7f:
		return fmt.Sprintf("PUSH%d", op-0x5f)
	case op >= 0x80 && op <= 0x8f:
		return fmt.Sprintf("DUP%d", op-0x7f)
	case op >= 0x90 && op <= 0x9f:
		return fmt.Sprintf("SWAP%d", op-0x8f)
	}
	if n, ok := opName[op]; ok {
		return n
	}
	return fmt.Sprintf("OP%02x", op)
}

// pops per opcode of the computational set (for the underflow family)
var pops = map[byte]int{
	0x01: 2, 0x02: 2, 0x03: 2, 0x04: 2, 0x05: 2, 0x06: 2, 0x07: 2, 0x08: 3, 0x09: 3, 0x0a: 2, 0x0b: 2,
	0x10: 2, 0x11: 2, 0x12: 2, 0x13: 2, 0x14: 2, 0x15: 1, 0x16: 2, 0x17: 2, 0x18: 2, 0x19: 1, 0x1a: 2, 0x1b: 2, 0x1c: 2, 0x1d: 2,
	0x20: 2, 0x35: 1, 0x37: 3, 0x39: 3, 0x3e: 3, 0x50: 1, 0x51: 1, 0x52: 2, 0x53: 2, 0x56: 1, 0x57: 2, 0x5e: 3, 0xf3: 2, 0xfd: 2,
}

// ---------------------------------------------------------------------------------------------
// case

type kase struct {
	Fam    string `json:"fam"`
	Op     string `json:"op"`              // opcode under test (signature component)
	Class  string `json:"class,omitempty"` // boundary class of the operands (signature component)
	Desc   string `json:"desc"`
	Table  string `json:"table"` // new = all forks on (PUSH0, MCOPY, gas x30) | old = proposals 022/026 off
	Code   string `json:"code"`  // the complete deployed code (program + observation epilogue)
	Input  string `json:"input,omitempty"`
	Probe  int    `json:"epilogue_at"`
	Sig    string `json:"sig,omitempty"`
	Ctx    string `json:"context,omitempty"` // static | wrap1 | wrap2: the frame is read-only
	Height uint64 `json:"height,omitempty"`  // fork-gate family: EVM block height, with Gate active from block 1000
	Gate   string `json:"gate,omitempty"`
}

// spec is a case before assembly.
type spec struct {
	fam, op, class, desc string
	body                 []byte // prologue + program under test
	noEpilogue           bool
	sigKind              string // opcode | jump
}

// epilogue observes the machine state: MSIZE; store depth+1 items behind the memory image; RETURN(0, all).
func epilogue(depth, msize int) []byte {
	p := asm.New()
	total := msize + 32*(depth+1)
	if total > 0xffffff || depth+2 > 1024 {
		return p.Op(vm.MSIZE).PushN(1, []byte{0}).Op(vm.RETURN).Bytes()
	}
	w := 2 // offsets as PUSH2, or PUSH3 once the image exceeds 64 KiB
	if total > 0xffff {
		w = 3
	}
	be := func(o int) []byte { return []byte{byte(o >> 16), byte(o >> 8), byte(o)}[3-w:] }
	p.Op(vm.MSIZE)
	for i := 0; i <= depth; i++ {
		p.PushN(w, be(msize+32*i)).Op(vm.MSTORE)
	}
	p.PushN(w, be(total)).PushN(1, []byte{0}).Op(vm.RETURN)
	return p.Bytes()
}

type checker struct {
	c       *fw.Ctx
	table   string
	cancun  bool
	mine    func(int64) bool
	idx     int64
	done    int64
	run     *runner
	stop    bool
	opHist  [256]int64
	sample  map[string]int
	ctxSeen map[string]int
}

func (g *checker) refcfg(probe int) refevm.Config {
	return refevm.Config{Cancun: g.cancun, Input: calldata, MaxSteps: 400000, Probe: probe}
}

// assemble appends the observation epilogue that fits the state in which the
// reference reaches the end of the program (fixed point over a few iterations, because
// the program may depend on the code that follows it).
func (g *checker) assemble(s *spec) (code []byte, probe int) {
	probe = len(s.body)
	if s.noEpilogue {
		return s.body, probe
	}
	d, ms := 0, 0
	for it := 0; it < 4; it++ {
		code = append(append([]byte{}, s.body...), epilogue(d, ms)...)
		r := refevm.Run(code, g.refcfg(probe))
		if !r.ProbeHit || (r.ProbeDepth == d && r.ProbeMsize == ms) {
			break
		}
		d, ms = r.ProbeDepth, r.ProbeMsize
	}
	return code, probe
}

// next numbers a case and executes it if it belongs to this worker.
func (g *checker) next(mk func() *spec) {
	i := g.idx
	g.idx++
	if g.stop || !g.mine(i) {
		return
	}
	g.done++
	if g.done%64 == 0 && g.c.Expired() {
		g.stop = true
		g.c.Cap("time budget reached; remaining cases of this worker's shard not executed")
		return
	}
	s := mk()
	code, probe := g.assemble(s)
	k := &kase{Fam: s.fam, Op: s.op, Class: s.class, Desc: s.desc, Table: g.table, Code: hex.EncodeToString(code),
		Input: hex.EncodeToString(calldata), Probe: probe}
	g.c.Count("cases_"+s.fam, 1)
	v := g.judge(k, code, s.sigKind)
	if v != nil && s.fam == "prog3" {
		v = g.minimiseProg(s, v)
	}
	if v == nil && g.pickCtx(s) {
		v = g.judgeContexts(k, code, "")
	}
	if v != nil {
		g.c.Violation(v.sig, s.fam, v.msg, v.k)
	}
}

type verdict struct {
	sig, msg string
	k        *kase
}

type obs struct {
	Status string // success | revert | fault | panic
	Ret    []byte
	Err    string
}

func (o obs) same(p obs) bool { return o.Status == p.Status && bytes.Equal(o.Ret, p.Ret) }

// judge runs one assembled case on both sides and compares.
func (g *checker) judge(k *kase, code []byte, sigKind string) *verdict {
	ref := refevm.Run(code, g.refcfg(k.Probe))
	if ref.Status == refevm.Unsupported {
		g.c.Count("skipped_outside_model", 1)
		g.c.Count("skipped: "+k.Fam+": "+ref.Why, 1)
		return nil
	}
	gas := uint64(10_000_000_000)
	if ref.Status == refevm.Loop {
		gas = 1_000_000 // the machine provably diverges: it must burn any gas limit
	}
	g.c.Eval(1)
	o := g.run.call(code, calldata, gas)
	want := ref.Status.String()
	if ref.Status == refevm.Loop {
		want = "fault"
	}
	for op, n := range ref.Ops {
		g.opHist[op] += int64(n)
	}
	observed := ref.ProbeHit || k.Fam == "ret" || sigKind == "jump" || ref.Status == refevm.Fault || ref.Status == refevm.Loop
	if observed {
		g.c.NontrivialN(1)
	}
	g.c.Outcome(k.Fam + ":" + ref.Status.String())
	if g.sample[k.Fam] < 1 && ref.Status == refevm.Success && len(ref.Ret) > 0 && fw.U64(code)%97 == 0 {
		g.sample[k.Fam]++
		g.c.Sample(map[string]interface{}{"case": k, "reference": want, "implementation": o.Status, "return_data": hex.EncodeToString(o.Ret)})
	}
	if o.Status == want && (want == "fault" || bytes.Equal(o.Ret, ref.Ret)) {
		return nil
	}
	// same input again on a fresh state object: the observation must be stable
	g.run.fresh()
	o2 := g.run.call(code, calldata, gas)
	if !o.same(o2) {
		g.c.Count("unstable_observation", 1)
		return &verdict{sig: "C10:unstable:" + k.Op, msg: fmt.Sprintf("%s: two executions of the same code differ: %s/%x vs %s/%x", k.Desc, o.Status, o.Ret, o2.Status, o2.Ret), k: k}
	}
	var sig string
	switch {
	case o.Status == "panic":
		sig = "C10:panic:" + o.Err
	case sigKind == "jump":
		switch {
		case want == "fault" && o.Status != "fault":
			sig = "C10:jump:invalid-destination-accepted"
		case want != "fault" && o.Status == "fault":
			sig = "C10:jump:valid-destination-rejected"
		default:
			sig = "C10:jump:result-differs"
		}
		if k.Op != "" {
			sig += ":" + k.Op
		}
	case k.Fam == "returndata":
		// the return buffer is set by the preceding call: key on how that call was arranged
		sig = "C10:returndata:" + k.Class
	default:
		sig = "C10:opcode:" + k.Op
		if k.Class != "" {
			sig += ":" + k.Class
		}
	}
	k.Sig = sig
	msg := fmt.Sprintf("%s [table %s] code=%s: reference %s (%s) ret=%x | implementation %s %s ret=%x%s",
		k.Desc, k.Table, k.Code, want, ref.Why, ref.Ret, o.Status, o.Err, o.Ret, diffWords(ref, o))
	return &verdict{sig: sig, msg: msg, k: k}
}

func diffWords(ref refevm.Result, o obs) string {
	if o.Status != "success" || ref.Status != refevm.Success || !ref.ProbeHit {
		return ""
	}
	ms := ref.ProbeMsize
	if len(o.Ret) != len(ref.Ret) {
		return fmt.Sprintf(" | return length %d vs %d", len(ref.Ret), len(o.Ret))
	}
	for i := 0; i+32 <= len(ref.Ret); i += 32 {
		if !bytes.Equal(ref.Ret[i:i+32], o.Ret[i:i+32]) {
			where := fmt.Sprintf("memory word at %d", i)
			if i == ms {
				where = "MSIZE"
			} else if i > ms {
				where = fmt.Sprintf("stack item %d from the top", (i-ms)/32-1)
			}
			return fmt.Sprintf(" | first difference: %s: want %x got %x", where, ref.Ret[i:i+32], o.Ret[i:i+32])
		}
	}
	return ""
}

// ---------------------------------------------------------------------------------------------
// real interpreter

type runner struct {
	state  *account.AccountDB
	n      int
	addr   common.Address
	origin common.Address
	height uint64
}

func (r *runner) fresh() { r.state = node.LatestState(); r.n = 0 }

func (r *runner) call(code, input []byte, gas uint64) (o obs) {
	if r.state == nil || r.n >= 2000 {
		r.fresh()
	}
	r.n++
	var ret []byte
	var err error
	p, v, site := fw.Try(func() {
		r.state.SetCode(r.addr, code)
		evm := node.NewEVM(r.state, r.origin, r.height, gas)
		ret, _, _, err = evm.Call(vm.AccountRef(r.origin), r.addr, input, gas, big.NewInt(0))
	})
	switch {
	case p:
		r.fresh()
		return obs{Status: "panic", Err: site + " (" + fmt.Sprint(v) + ")"}
	case err == nil:
		return obs{Status: "success", Ret: append([]byte{}, ret...)}
	case err == vm.ErrExecutionReverted:
		return obs{Status: "revert", Ret: append([]byte{}, ret...)}
	default:
		return obs{Status: "fault", Err: err.Error()}
	}
}

// ---------------------------------------------------------------------------------------------
// program builders

func withSentinel() *asm.Prog { return asm.New().PushN(32, sent.Bytes()) }

// memory prologue: 0, 32 or 64 bytes of patterned memory
func memPrologue(p *asm.Prog, words int) *asm.Prog {
	if words >= 1 {
		p.PushN(32, pat1.Bytes()).Push(0).Op(vm.MSTORE)
	}
	if words >= 2 {
		p.PushN(32, pat2.Bytes()).Push(32).Op(vm.MSTORE)
	}
	return p
}

func short(x *big.Int) string {
	s := x.Text(16)
	if len(s) > 18 {
		return fmt.Sprintf("0x%s..%s(%db)", s[:6], s[len(s)-6:], x.BitLen())
	}
	return "0x" + s
}

func classOf(op byte, args ...*big.Int) string {
	ge := func(x *big.Int, n int64) bool { return x.Cmp(big.NewInt(n)) >= 0 }
	switch op {
	case 0x1b, 0x1c, 0x1d:
		if ge(args[0], 256) {
			return "count>=256"
		}
		return "count<256"
	case 0x1a:
		if ge(args[0], 32) {
			return "index>=32"
		}
		return "index<32"
	case 0x0b:
		if ge(args[0], 31) {
			return "index>=31"
		}
		return "index<31"
	case 0x04, 0x05, 0x06, 0x07:
		if args[1].Sign() == 0 {
			return "divisor=0"
		}
	case 0x08, 0x09:
		if args[2].Sign() == 0 {
			return "modulus=0"
		}
	}
	return ""
}

// opCase: sentinel, operands (last argument ends on top), opcode.  args[0] is the top of stack.
func opCase(fam string, op byte, args ...*big.Int) *spec {
	p := withSentinel()
	var ds []string
	for i := len(args) - 1; i >= 0; i-- {
		p.Push(args[i])
	}
	for _, a := range args {
		ds = append(ds, short(a))
	}
	p.Raw(op)
	return &spec{fam: fam, op: name(op), class: classOf(op, args...), desc: fmt.Sprintf("%s(%s)", name(op), strings.Join(ds, ", ")), body: p.Bytes()}
}

var (
	binOps   = []byte{0x01, 0x02, 0x03, 0x04, 0x05, 0x06, 0x07, 0x0a, 0x0b, 0x10, 0x11, 0x12, 0x13, 0x14, 0x16, 0x17, 0x18, 0x1a, 0x1b, 0x1c, 0x1d}
	countOps = []byte{0x1b, 0x1c, 0x1d, 0x1a, 0x0b}
)

func (g *checker) famArith() {
	for _, op := range binOps {
		for _, x := range W {
			for _, y := range W {
				op, x, y := op, x, y
				g.next(func() *spec { return opCase("binary", op, x, y) })
			}
		}
	}
	for _, op := range []byte{0x15, 0x19, 0x50} {
		for _, x := range W {
			op, x := op, x
			g.next(func() *spec { return opCase("unary", op, x) })
		}
	}
	for _, op := range []byte{0x08, 0x09} {
		for _, a := range W {
			for _, b := range W {
				for _, n := range W {
					op, a, b, n := op, a, b, n
					g.next(func() *spec { return opCase("ternary", op, a, b, n) })
				}
			}
		}
	}
	for _, op := range countOps {
		for cnt := int64(0); cnt <= 257; cnt++ {
			for _, v := range W {
				op, cnt, v := op, cnt, v
				g.next(func() *spec { return opCase("count", op, big.NewInt(cnt), v) })
			}
		}
	}
}

func bigs(xs []int64) []*big.Int {
	out := make([]*big.Int, len(xs))
	for i, x := range xs {
		out[i] = big.NewInt(x)
	}
	return out
}

func overlapClass(dst, src, n *big.Int) string {
	if !dst.IsInt64() || !src.IsInt64() || !n.IsInt64() || n.Sign() == 0 {
		return ""
	}
	d, s, l := dst.Int64(), src.Int64(), n.Int64()
	switch {
	case d == s:
		return "same"
	case d > s && d < s+l:
		return "overlap-forward"
	case s > d && s < d+l:
		return "overlap-backward"
	}
	return "disjoint"
}

// memCase: sentinel, memory prologue, operands, opcode.
func memCase(fam string, words int, op byte, class string, args ...*big.Int) *spec {
	p := memPrologue(withSentinel(), words)
	var ds []string
	for i := len(args) - 1; i >= 0; i-- {
		p.Push(args[i])
	}
	for _, a := range args {
		ds = append(ds, short(a))
	}
	p.Raw(op)
	return &spec{fam: fam, op: name(op), class: class, desc: fmt.Sprintf("%s(%s) on %d-byte memory", name(op), strings.Join(ds, ", "), 32*words), body: p.Bytes()}
}

type rdSetup struct {
	name                       string
	inOff, inSz, outOff, outSz int64
}

var rdSetups = []rdSetup{
	{"empty", 0, 0, 0, 0},             // no call: return buffer empty
	{"plain", 0, 40, 0, 0},            // identity precompile on memory[0:40], output not copied
	{"out-disjoint", 0, 33, 64, 16},   // output region disjoint from the input
	{"out-overlaps-in", 0, 32, 1, 32}, // output region overlaps the input region
}

func rdPrologue(p *asm.Prog, s rdSetup) *asm.Prog {
	memPrologue(p, 2)
	if s.name == "empty" {
		return p
	}
	// STATICCALL(gas, 4, inOff, inSz, outOff, outSz); POP
	p.Push(s.outSz).Push(s.outOff).Push(s.inSz).Push(s.inOff).Push(4).PushN(4, []byte{0x7f, 0xff, 0xff, 0xff}).Op(vm.STATICCALL, vm.POP)
	return p
}

func (g *checker) famMemory() {
	Sb := bigs(S)
	vals := []*big.Int{mixedA, sub(pow2(256), 1)}
	for words := 0; words <= 2; words++ {
		words := words
		for _, off := range append(append([]*big.Int{}, Sb...), H...) {
			off := off
			g.next(func() *spec { return memCase("memory", words, 0x51, "", off) })
			for _, v := range vals {
				v := v
				g.next(func() *spec { return memCase("memory", words, 0x52, "", off, v) })
			}
			for _, v := range []*big.Int{mixedB, big.NewInt(0x1ab)} {
				v := v
				g.next(func() *spec { return memCase("memory", words, 0x53, "", off, v) })
			}
		}
		for _, a := range Sb {
			for _, b := range Sb {
				a, b := a, b
				g.next(func() *spec { return memCase("memory", words, 0x20, "", a, b) })
				for _, op := range []byte{0xf3, 0xfd} {
					op := op
					g.next(func() *spec {
						s := memCase("ret", words, op, "", a, b)
						return s
					})
				}
				for _, c3 := range Sb {
					c3 := c3
					g.next(func() *spec { return memCase("memory", words, 0x5e, overlapClass(a, b, c3), a, b, c3) })
					g.next(func() *spec { return memCase("memory", words, 0x37, "", a, b, c3) })
					g.next(func() *spec { return memCase("memory", words, 0x39, "", a, b, c3) })
				}
			}
		}
	}
	// offsets / sizes around 2^64 (size 0 with a huge offset is a no-op; everything else must fault)
	for _, a := range H {
		for _, b := range H {
			a, b := a, b
			g.next(func() *spec { return memCase("memory-huge", 1, 0x20, "huge", a, b) })
			g.next(func() *spec { return memCase("ret", 1, 0xf3, "huge", a, b) })
			g.next(func() *spec { return memCase("ret", 1, 0xfd, "huge", a, b) })
			for _, c3 := range H {
				c3 := c3
				for _, op := range []byte{0x5e, 0x37, 0x39} {
					op := op
					g.next(func() *spec { return memCase("memory-huge", 1, op, "huge", a, b, c3) })
				}
			}
		}
	}
	// return data buffer
	for _, st := range rdSetups {
		st := st
		g.next(func() *spec {
			p := rdPrologue(withSentinel(), st).Op(vm.RETURNDATASIZE)
			return &spec{fam: "returndata", op: "RETURNDATASIZE", class: st.name, desc: "RETURNDATASIZE after " + st.name, body: p.Bytes()}
		})
		args := append(append([]*big.Int{}, Sb...), big.NewInt(39), big.NewInt(40), big.NewInt(41))
		for _, mo := range Sb {
			for _, ro := range args {
				for _, n := range args {
					mo, ro, n := mo, ro, n
					g.next(func() *spec {
						p := rdPrologue(withSentinel(), st).Push(n).Push(ro).Push(mo).Op(vm.RETURNDATACOPY)
						return &spec{fam: "returndata", op: "RETURNDATACOPY", class: st.name,
							desc: fmt.Sprintf("RETURNDATACOPY(%s, %s, %s) after %s", short(mo), short(ro), short(n), st.name), body: p.Bytes()}
					})
				}
			}
		}
		for _, a := range H {
			for _, b := range H {
				for _, c3 := range H {
					a, b, c3 := a, b, c3
					g.next(func() *spec {
						p := rdPrologue(withSentinel(), st).Push(c3).Push(b).Push(a).Op(vm.RETURNDATACOPY)
						return &spec{fam: "returndata", op: "RETURNDATACOPY", class: st.name,
							desc: fmt.Sprintf("RETURNDATACOPY(%s, %s, %s) after %s", short(a), short(b), short(c3), st.name), body: p.Bytes()}
					})
				}
			}
		}
	}
	// environment reads of the frame itself
	offs := append(bigs([]int64{0, 1, 8, 9, 31, 32, 39, 40, 41, 1000}), H...)
	for _, o := range offs {
		o := o
		g.next(func() *spec { return opCase("frame", 0x35, o) })
	}
	for _, op := range []byte{0x36, 0x38, 0x3d, 0x58, 0x59} {
		for words := 0; words <= 2; words++ {
			op, words := op, words
			g.next(func() *spec { return memCase("frame", words, op, "") })
		}
	}
	// MSIZE after a touching read (memory grows by reads too) and PC at several positions
	for _, off := range Sb {
		off := off
		g.next(func() *spec {
			p := withSentinel().Push(off).Op(vm.MLOAD, vm.POP, vm.MSIZE, vm.PC)
			return &spec{fam: "frame", op: "MSIZE", desc: "MLOAD(" + short(off) + ") POP MSIZE PC", body: p.Bytes()}
		})
	}
}

func distinct(i int) *big.Int { // distinguishable stack filler
	return new(big.Int).Add(new(big.Int).Lsh(big.NewInt(int64(0xd0+i)), 248), big.NewInt(int64(i+1)))
}

func (g *checker) famStack() {
	// DUPn / SWAPn on every depth from "one too few" to 17
	for n := 1; n <= 16; n++ {
		for depth := 0; depth <= 18; depth++ {
			for _, swap := range []bool{false, true} {
				n, depth, swap := n, depth, swap
				g.next(func() *spec {
					p := asm.New()
					for i := 0; i < depth; i++ {
						p.PushN(32, distinct(i).Bytes())
					}
					op := byte(0x80 + n - 1)
					if swap {
						op = byte(0x90 + n - 1)
					}
					p.Raw(op)
					return &spec{fam: "dupswap", op: name(op), desc: fmt.Sprintf("%s on a stack of %d distinct items", name(op), depth), body: p.Bytes()}
				})
			}
		}
	}
	// PUSH0..PUSH32 with complete immediates
	pats := [][]byte{bytes.Repeat([]byte{0xff}, 32), mixedA.FillBytes(make([]byte, 32)), append([]byte{0x00, 0x00, 0x5b, 0x60}, mixedB.FillBytes(make([]byte, 32))[4:]...)}
	for n := 0; n <= 32; n++ {
		for pi, pat := range pats {
			n, pi, pat := n, pi, pat
			if n == 0 && pi > 0 {
				continue
			}
			g.next(func() *spec {
				p := withSentinel()
				if n == 0 {
					p.Raw(0x5f)
				} else {
					p.Raw(byte(0x5f + n)).Raw(pat[:n]...)
				}
				return &spec{fam: "push", op: name(byte(0x5f + n)), desc: fmt.Sprintf("%s %x", name(byte(0x5f+n)), pat[:n]), body: p.Bytes()}
			})
		}
	}
	// truncated immediates at the end of the code: the value is unobservable by construction
	// (execution stops), what is observable is a clean stop and the jump analysis of the tail.
	for n := 1; n <= 32; n++ {
		for t := 0; t < n; t++ {
			tail := append([]byte{0x5b, byte(0x5f + n)}, bytes.Repeat([]byte{0x5b}, t)...) // at pc 3: JUMPDEST PUSHn <t bytes of 0x5b>
			for target := 0; target <= 3+len(tail)+1; target++ {
				n, t, target := n, t, target
				g.next(func() *spec {
					code := append([]byte{0x60, byte(target), 0x56}, tail...)
					return &spec{fam: "truncated-push", op: "truncated-push", sigKind: "jump", noEpilogue: true,
						desc: fmt.Sprintf("JUMP to %d in code ending with %s carrying %d of %d immediate bytes (all 0x5b)", target, name(byte(0x5f+n)), t, n), body: code}
				})
			}
		}
	}
	// too few operands: every opcode with every depth below its arity
	var ops []int
	for op := range pops {
		ops = append(ops, int(op))
	}
	for i := 0; i < 16; i++ {
		ops = append(ops, 0x80+i, 0x90+i)
	}
	sort.Ints(ops)
	for _, o := range ops {
		op := byte(o)
		need := pops[op]
		if op >= 0x80 && op <= 0x8f {
			need = int(op-0x80) + 1
		}
		if op >= 0x90 && op <= 0x9f {
			need = int(op-0x90) + 2
		}
		for depth := 0; depth <= need; depth++ {
			op, depth := op, depth
			g.next(func() *spec {
				p := asm.New()
				for i := 0; i < depth; i++ {
					p.Push(0) // harmless operands: offset 0, size 0, destination 0 (not a JUMPDEST: JUMP faults either way)
				}
				p.Raw(op)
				return &spec{fam: "arity", op: name(op), class: "underflow", desc: fmt.Sprintf("%s with %d of %d operands", name(op), depth, need), body: p.Bytes()}
			})
		}
	}
	// the 1024 limit
	for _, n := range []int{1023, 1024, 1025} {
		for _, op := range []byte{0x60, 0x80, 0x58, 0x59, 0x36, 0x5f} {
			n, op := n, op
			g.next(func() *spec {
				p := asm.New().Push(1)
				for i := 1; i < n; i++ {
					if op == 0x60 {
						p.Raw(0x60, byte(i))
					} else {
						p.Raw(op)
					}
				}
				p.Op(vm.POP, vm.POP) // room for the epilogue's MSIZE and offset push
				return &spec{fam: "stack-limit", op: name(op), class: "depth-limit", desc: fmt.Sprintf("%d items built with %s", n, name(op)), body: p.Bytes()}
			})
		}
	}
}

// truncation aliases: every operand that is used as an index / offset / size / count / destination, at a small
// meaningful value v, is replaced by v + 2^k (k = 8, 16, 32, 63, 64, 128, 255).  By specification the result never
// behaves like v; an implementation that narrows the 256-bit operand to 8/16/32/63/64 bits at any point does.
var aliasK = []uint{8, 16, 32, 63, 64, 128, 255}

func genCase(fam string, op byte, class string, words int, rd *rdSetup, args ...*big.Int) *spec {
	p := withSentinel()
	after := fmt.Sprintf("on %d-byte memory", 32*words)
	if rd != nil {
		rdPrologue(p, *rd)
		after = "after identity call (" + rd.name + ")"
	} else {
		memPrologue(p, words)
	}
	var ds []string
	for i := len(args) - 1; i >= 0; i-- {
		p.Push(args[i])
	}
	for _, a := range args {
		ds = append(ds, short(a))
	}
	p.Raw(op)
	return &spec{fam: fam, op: name(op), class: class, desc: fmt.Sprintf("%s(%s) %s", name(op), strings.Join(ds, ", "), after), body: p.Bytes()}
}

// jumpLayout builds [PUSH1 1] PUSH32 dest JUMP|JUMPI STOP <v:> ... and returns the code and v.
//
//	short:   v: JUMPDEST PUSH1 0x77 (epilogue follows)
//	long:    v: JUMPDEST PUSH1 0x77 PUSH3 end JUMP, zero padding up to end = v+65536+16: JUMPDEST   (v+256, v+65536 are in range, not JUMPDESTs)
//	shifted: v: STOP ... v+256: JUMPDEST PUSH1 0x78 PUSH3 end JUMP ... v+65536: JUMPDEST PUSH1 0x79 PUSH3 end JUMP ... end: JUMPDEST
func jumpLayout(kind string, jumpi bool, dest func(v int64) *big.Int) ([]byte, int64) {
	v := int64(35)
	p := asm.New()
	if jumpi {
		v = 37
		p.PushN(1, []byte{1})
	}
	p.PushN(32, dest(v).Bytes())
	if jumpi {
		p.Op(vm.JUMPI)
	} else {
		p.Op(vm.JUMP)
	}
	p.Op(vm.STOP)
	code := p.Bytes()
	end := int(v) + 65536 + 16
	land := func(at int, marker byte) {
		for len(code) < at {
			code = append(code, 0x00)
		}
		code = append(code, 0x5b, 0x60, marker, 0x62, byte(end>>16), byte(end>>8), byte(end), 0x56)
	}
	switch kind {
	case "short":
		code = append(code, 0x5b, 0x60, 0x77)
		return code, v
	case "long":
		land(int(v), 0x77)
	case "shifted":
		code = append(code, 0x00)
		land(int(v)+256, 0x78)
		land(int(v)+65536, 0x79)
	}
	for len(code) < end {
		code = append(code, 0x00)
	}
	code = append(code, 0x5b)
	return code, v
}

func (g *checker) famAlias() {
	add := func(v *big.Int, k uint) *big.Int { return new(big.Int).Add(v, pow2(k)) }
	// sub(i) = args with operand i aliased
	each := func(fam string, op byte, words int, rd *rdSetup, args []*big.Int, positions ...int) {
		for _, pos := range positions {
			for _, k := range aliasK {
				pos, k := pos, k
				g.next(func() *spec {
					a2 := append([]*big.Int{}, args...)
					a2[pos] = add(args[pos], k)
					return genCase(fam, op, fmt.Sprintf("alias-operand%d", pos), words, rd, a2...)
				})
			}
		}
	}
	vals := []*big.Int{mixedA, mixedB}
	for _, x := range vals {
		for _, v := range []int64{0, 1, 31} {
			each("alias", 0x1a, 0, nil, []*big.Int{big.NewInt(v), x}, 0) // BYTE index
		}
		for _, v := range []int64{0, 1, 31, 32, 255} {
			for _, op := range []byte{0x1b, 0x1c, 0x1d} {
				each("alias", op, 0, nil, []*big.Int{big.NewInt(v), x}, 0) // shift count
			}
		}
	}
	for _, x := range []*big.Int{mixedA, mixedB, big.NewInt(0x80), big.NewInt(0x7fff)} {
		for _, v := range []int64{0, 1, 30, 31} {
			each("alias", 0x0b, 0, nil, []*big.Int{big.NewInt(v), x}, 0) // SIGNEXTEND index
		}
	}
	for _, v := range []int64{0, 1, 31, 32} {
		each("alias", 0x51, 2, nil, []*big.Int{big.NewInt(v)}, 0)
		each("alias", 0x52, 2, nil, []*big.Int{big.NewInt(v), mixedA}, 0)
		each("alias", 0x53, 2, nil, []*big.Int{big.NewInt(v), mixedB}, 0)
	}
	for _, v := range []int64{0, 1, 8, 31, 32, 39} {
		each("alias", 0x35, 0, nil, []*big.Int{big.NewInt(v)}, 0) // CALLDATALOAD offset
	}
	plain := rdSetups[1]
	for _, b := range [][]int64{{0, 0, 32}, {32, 1, 31}, {1, 32, 1}, {0, 0, 0}, {31, 0, 33}} {
		args := bigs(b)
		for _, op := range []byte{0x37, 0x39, 0x5e} {
			each("alias", op, 2, nil, args, 0, 1, 2)
		}
		each("alias", 0x3e, 2, &plain, args, 0, 1, 2)
	}
	for _, b := range [][]int64{{0, 32}, {1, 31}, {32, 0}, {0, 0}, {0, 64}} {
		args := bigs(b)
		for _, op := range []byte{0x20, 0xf3, 0xfd} {
			fam := "alias"
			if op != 0x20 {
				fam = "ret"
			}
			each(fam, op, 2, nil, args, 0, 1)
		}
	}
	// jump destinations: v is a real JUMPDEST (short, long) or the JUMPDESTs sit at v+2^8 and v+2^16 (shifted)
	for _, kind := range []string{"short", "long", "shifted"} {
		for _, jumpi := range []bool{false, true} {
			var dests []func(v int64) *big.Int
			var names []string
			for _, base := range []int64{0, 256, 65536} {
				if base != 0 && kind != "shifted" {
					continue
				}
				base := base
				dests = append(dests, func(v int64) *big.Int { return big.NewInt(v + base) })
				names = append(names, fmt.Sprintf("v+%d", base))
				for _, k := range aliasK {
					if k < 32 && base >= int64(1)<<k {
						continue
					}
					k := k
					dests = append(dests, func(v int64) *big.Int { return add(big.NewInt(v+base), k) })
					names = append(names, fmt.Sprintf("v+%d+2^%d", base, k))
				}
			}
			for i := range dests {
				kind, jumpi, d, dn := kind, jumpi, dests[i], names[i]
				g.next(func() *spec {
					code, v := jumpLayout(kind, jumpi, d)
					op := "JUMP"
					if jumpi {
						op = "JUMPI"
					}
					return &spec{fam: "alias-jump", op: "alias", sigKind: "jump",
						desc: fmt.Sprintf("%s to %s (v=%d) in layout %q", op, dn, v, kind), body: code}
				})
			}
		}
	}
}

// straight-line programs
var (
	prog20 = []byte{0x01, 0x02, 0x03, 0x05, 0x07, 0x08, 0x09, 0x0a, 0x0b, 0x12, 0x11, 0x15, 0x18, 0x19, 0x1a, 0x1b, 0x1d, 0x81, 0x91, 0x50}
	prog26 = append(append([]byte{}, prog20...), 0x04, 0x06, 0x16, 0x1c, 0x52, 0x51)
)

func progSpec(vals []*big.Int, ops []byte) *spec {
	p := withSentinel()
	var ds, os []string
	for _, v := range vals {
		p.Push(v)
		ds = append(ds, short(v))
	}
	for _, o := range ops {
		os = append(os, name(o))
	}
	p.Raw(ops...)
	last := ""
	if len(ops) > 0 {
		last = name(ops[len(ops)-1])
	}
	return &spec{fam: "prog3", op: last, desc: fmt.Sprintf("stack[%s] (top last); %s", strings.Join(ds, ", "), strings.Join(os, " ")), body: p.Bytes()}
}

func (g *checker) famProg() {
	ops, V, slots := prog20, V4, 4
	if g.c.Thorough() {
		ops, V, slots = prog26, V5, 4
	}
	nst := 1
	for i := 0; i < slots; i++ {
		nst *= len(V)
	}
	for l := 1; l <= 3; l++ {
		n := 1
		for i := 0; i < l; i++ {
			n *= len(ops)
		}
		for pi := 0; pi < n; pi++ {
			seq := make([]byte, l)
			x := pi
			for i := l - 1; i >= 0; i-- {
				seq[i] = ops[x%len(ops)]
				x /= len(ops)
			}
			for si := 0; si < nst; si++ {
				if g.stop {
					return
				}
				si := si
				g.next(func() *spec {
					vals := make([]*big.Int, slots)
					y := si
					for i := 0; i < slots; i++ {
						vals[i] = V[y%len(V)]
						y /= len(V)
					}
					return progSpec(vals, seq)
				})
			}
		}
	}
}

// minimiseProg finds the shortest failing prefix of a failing straight-line program and keys the finding on the
// last opcode of that prefix with the operand class the reference sees there, i.e. the same signature the
// single-opcode families give to the same defect.
func (g *checker) minimiseProg(s *spec, v *verdict) *verdict {
	if !strings.HasPrefix(v.sig, "C10:opcode:") {
		return v
	}
	// recover values / ops from the body: sentinel (33 bytes) + pushes + ops
	body := s.body
	i := 33
	for i < len(body) && body[i] >= 0x60 && body[i] <= 0x7f {
		i += 1 + int(body[i]-0x5f)
	}
	ops := body[i:]
	for l := 1; l <= len(ops); l++ {
		ps := &spec{fam: "prog3", op: name(ops[l-1]), body: append(append([]byte{}, body[:i]...), ops[:l]...)}
		ps.desc = s.desc
		if l < len(ops) {
			ps.desc += fmt.Sprintf(" (first %d ops)", l)
		}
		code, probe := g.assemble(ps)
		// operands of the last op as the reference sees them
		r := refevm.Run(code, g.refcfg(i+l-1))
		args := []*big.Int{big.NewInt(1), big.NewInt(1), big.NewInt(1)}
		for j := 0; j < 3 && j < len(r.ProbeStack); j++ {
			args[j] = r.ProbeStack[len(r.ProbeStack)-1-j]
		}
		k := &kase{Fam: ps.fam, Op: ps.op, Class: classOf(ops[l-1], args...), Desc: ps.desc, Table: g.table, Code: hex.EncodeToString(code),
			Input: hex.EncodeToString(calldata), Probe: probe}
		if pv := g.judge(k, code, ""); pv != nil {
			return pv
		}
	}
	return v
}

// jump programs
func (g *checker) allStrings(alpha []byte, maxLen int, f func(s []byte)) {
	for l := 0; l <= maxLen; l++ {
		n := 1
		for i := 0; i < l; i++ {
			n *= len(alpha)
		}
		for x := 0; x < n; x++ {
			if g.stop {
				return
			}
			x, l := x, l
			f(func() []byte {
				s := make([]byte, l)
				y := x
				for i := l - 1; i >= 0; i-- {
					s[i] = alpha[y%len(alpha)]
					y /= len(alpha)
				}
				return s
			}())
		}
	}
}

func (g *checker) famJump() {
	// (a) every byte string of length <= 6 over {PUSH1, PUSH2, JUMPDEST, JUMP, JUMPI, STOP}; the same byte is
	// opcode or immediate data depending on its position (0x5b-as-data, 0x00-as-data).  The string is placed at
	// pc 0x56..0x5b behind a JUMPDEST sled so that the alphabet's own bytes 0x56, 0x57, 0x5b (and 0x00) are
	// meaningful destinations: string positions 0, 1, 5 and the sled start.  Five values are pre-pushed.
	sled := asm.New().Op(vm.JUMPDEST).PushN(1, []byte{0x5b}).PushN(1, []byte{0x01}).PushN(1, []byte{0x5a}).PushN(1, []byte{0x00}).PushN(1, []byte{0x58})
	for sled.Len() < 0x56 {
		sled.Op(vm.JUMPDEST)
	}
	pre := sled.Bytes()
	alpha6 := []byte{0x60, 0x61, 0x5b, 0x56, 0x57, 0x00}
	g.allStrings(alpha6, 6, func(s []byte) {
		g.next(func() *spec {
			return &spec{fam: "jump-sled", sigKind: "jump", desc: fmt.Sprintf("byte string %x at pc 0x56 behind a JUMPDEST sled", s), body: append(append([]byte{}, pre...), s...)}
		})
	})
	// (b) byte strings at pc 0 over the same six bytes plus the data bytes 0x01..0x05 (= ADD..SDIV as opcodes), so that
	// every position of the string is a possible PUSH1 destination
	alpha11 := []byte{0x60, 0x61, 0x5b, 0x56, 0x57, 0x00, 0x01, 0x02, 0x03, 0x04, 0x05}
	max := 5
	if g.c.Thorough() {
		max = 6
	}
	g.allStrings(alpha11, max, func(s []byte) {
		g.next(func() *spec {
			return &spec{fam: "jump-pc0", sigKind: "jump", desc: fmt.Sprintf("byte string %x at pc 0", s), body: append([]byte{}, s...)}
		})
	})
	// (c) immediate data of every PUSHn is never a destination, the byte right behind it is; all bit alignments of
	// the analysis bitmap (0..8 leading JUMPDESTs), three data patterns
	for n := 1; n <= 32; n++ {
		for a := 0; a <= 8; a++ {
			for pi := 0; pi < 3; pi++ {
				data := make([]byte, n)
				for i := range data {
					switch pi {
					case 0:
						data[i] = 0x5b
					case 1:
						data[i] = 0x7f // PUSH32 as data: must not be decoded
					default:
						data[i] = []byte{0x60, 0x5b}[i%2]
					}
				}
				tail := append(bytes.Repeat([]byte{0x5b}, a), byte(0x5f+n))
				tail = append(append(tail, data...), 0x5b)
				for target := 3; target <= 4+len(tail)+1; target++ {
					n, a, pi, target := n, a, pi, target
					g.next(func() *spec {
						code := append([]byte{0x61, byte(target >> 8), byte(target), 0x56}, tail...)
						return &spec{fam: "pushdata", op: "push-data", sigKind: "jump",
							desc: fmt.Sprintf("JUMP to %d; code: %d JUMPDEST, %s with data pattern %d, JUMPDEST", target, a, name(byte(0x5f+n)), pi), body: code}
					})
				}
			}
		}
	}
	// (d) JUMPI: condition x destination over W (destination validity only matters when the condition is non-zero).
	// layout: 0 PUSH32 sentinel | 33 PUSH32 cond | 66 PUSH32 dest | 99 JUMPI | 100 PUSH1 0x5b | 102 JUMPDEST | 103 PUSH1 9 | 105 epilogue
	dsts := append(append([]*big.Int{}, W...), bigs([]int64{99, 100, 101, 102, 103, 104, 105, 1000})...)
	for _, cond := range W {
		for _, dst := range dsts {
			cond, dst := cond, dst
			g.next(func() *spec {
				p := withSentinel().PushN(32, cond.Bytes()).PushN(32, dst.Bytes()).Op(vm.JUMPI).PushN(1, []byte{0x5b}).Op(vm.JUMPDEST).PushN(1, []byte{9})
				return &spec{fam: "jumpi", op: "JUMPI", sigKind: "jump", desc: fmt.Sprintf("JUMPI(dest %s, cond %s); valid destination is 102, 101 is 0x5b inside PUSH1 data", short(dst), short(cond)), body: p.Bytes()}
			})
		}
	}
}

// the repository's own vectors (src/vm/testdata/testcases_*.json: X, Y pushed in that order, Expected on top)
var vectorOps = map[string]byte{"add": 0x01, "sub": 0x03, "mul": 0x02, "div": 0x04, "sdiv": 0x05, "mod": 0x06, "smod": 0x07, "exp": 0x0a,
	"signext": 0x0b, "lt": 0x10, "gt": 0x11, "slt": 0x12, "sgt": 0x13, "eq": 0x14, "and": 0x16, "or": 0x17, "xor": 0x18, "byte": 0x1a,
	"shl": 0x1b, "shr": 0x1c, "sar": 0x1d}

func (g *checker) famVectors() {
	repo := os.Getenv("VERIF_REPO")
	if repo == "" {
		repo = "/repo"
	}
	var names []string
	for n := range vectorOps {
		names = append(names, n)
	}
	sort.Strings(names)
	for _, n := range names {
		b, err := os.ReadFile(filepath.Join(repo, "src/vm/testdata", "testcases_"+n+".json"))
		if err != nil {
			g.c.Count("vector_files_missing", 1)
			continue
		}
		var tcs []struct{ X, Y, Expected string }
		if json.Unmarshal(b, &tcs) != nil {
			g.c.Count("vector_files_missing", 1)
			continue
		}
		for _, tc := range tcs {
			n, tc := n, tc
			i := g.idx
			g.next(func() *spec {
				s := opCase("vectors", vectorOps[n], hexw(tc.Y), hexw(tc.X))
				s.class = classOf(vectorOps[n], hexw(tc.Y), hexw(tc.X))
				return s
			})
			if g.stop || !g.mine(i) {
				continue
			}
			// additionally: the vector's Expected value against the reference (three-way agreement)
			s := opCase("vectors", vectorOps[n], hexw(tc.Y), hexw(tc.X))
			r := refevm.Run(s.body, g.refcfg(-1))
			if r.Status != refevm.Success || len(r.Stack) != 2 || r.Stack[1].Cmp(hexw(tc.Expected)) != 0 {
				g.c.Violation("C10:vector:"+n, "vectors", fmt.Sprintf("repository vector %s(X=%s,Y=%s) expects %s, specification gives %x", n, tc.X, tc.Y, tc.Expected, r.Stack),
					&kase{Fam: "vectors", Op: s.op, Desc: s.desc + " expected " + tc.Expected, Table: g.table, Code: hex.EncodeToString(s.body), Probe: len(s.body), Sig: "C10:vector:" + n})
			}
		}
	}
}

// ---------------------------------------------------------------------------------------------

func forksOld(c *common.ChainConfig) {
	c.Proposal022Block = 1 << 62 // no PUSH0 / MCOPY / TLOAD...: the pre-Cancun table
	c.Proposal026Block = 1 << 62 // no x30 gas magnification
}

func boot(table string) error {
	f := node.ForksAllOn
	if table == "old" {
		f = forksOld
	}
	if err := node.Boot(f, true); err != nil {
		return err
	}
	common.SetBlockHeight(5)
	return nil
}

func newChecker(c *fw.Ctx, table string, mine func(int64) bool) *checker {
	return &checker{c: c, table: table, cancun: table == "new", mine: mine, sample: map[string]int{},
		run: &runner{addr: common.HexToAddress("0xc10c10c10c10c10c10c10c10c10c10c10c10c10c"), origin: common.HexToAddress("0x00000000000000000000000000000000000c1000"), height: 5}}
}

func run(c *fw.Ctx) {
	c.ConcPart() // schedule companion (checks/c10/conc): interpreters on two goroutines, every schedule with <= 1 / <= 2 preemptions
	// a booted node keeps ~640 MB of goleveldb write buffers alive (5 databases x 128 MB memdb); with the default
	// GOGC=100 each of the 16 workers would float up to twice that.  The check itself allocates only short-lived garbage.
	debug.SetGCPercent(12)
	runtime.GOMAXPROCS(2) // a worker is one sequential loop; 16 workers x 16 Ps only makes GC hand-offs slow on a busy machine
	table, mine := "new", c.Mine
	if c.Thorough() && c.NShards >= 2 {
		// two fork tables, one boot per process: even shards run the newest table, odd shards the old one; each half
		// enumerates the full space and partitions it among its own members.
		nOld := c.NShards / 2
		nNew := c.NShards - nOld
		grp, n := int64(c.Shard/2), int64(nNew)
		if c.Shard%2 == 1 {
			table, n = "old", int64(nOld)
		}
		mine = func(i int64) bool { return (i+c.Seed)%n == grp }
	} else if c.Thorough() {
		c.Cap("single worker: the old fork table was not run")
	}
	if err := boot(table); err != nil {
		fmt.Fprintln(os.Stderr, "boot:", err)
		os.Exit(3)
	}
	g := newChecker(c, table, mine)
	g.famVectors()
	g.famArith()
	g.famMemory()
	g.famStack()
	g.famContextTable()
	g.famForkGate()
	g.famAlias()
	g.famSequence()
	g.famJump()
	g.famProg()
	var nops int64
	var total int64
	for _, n := range g.opHist {
		if n > 0 {
			nops++
			total += n
		}
	}
	c.Note("distinct_opcodes_executed_per_worker", nops)
	c.Count("reference_steps", total)
	c.Note("cases_enumerated_per_table", g.idx)
}

func replay(c *fw.Ctx, raw json.RawMessage) {
	var k kase
	if err := json.Unmarshal(raw, &k); err != nil {
		fmt.Fprintln(os.Stderr, err)
		os.Exit(2)
	}
	if err := boot(k.Table); err != nil {
		fmt.Fprintln(os.Stderr, "boot:", err)
		os.Exit(3)
	}
	g := newChecker(c, k.Table, func(int64) bool { return true })
	if k.Fam == "sequence" {
		var sc seqCase
		if json.Unmarshal(raw, &sc) == nil {
			if v := g.judgeSeq(&sc); v != nil {
				c.Violation(v.sig, "sequence", v.msg, &sc)
			}
		}
		return
	}
	code, err := hex.DecodeString(k.Code)
	if err != nil {
		fmt.Fprintln(os.Stderr, err)
		os.Exit(2)
	}
	if k.Fam == "fork-gate" {
		g.famForkGate() // ~20 executions: re-judges every gated opcode at F-1, F, F+1
		return
	}
	if k.Fam == "context-table" {
		g.famContextTable() // the whole table is ~150 executions; re-judges every opcode including the recorded one
		return
	}
	if k.Ctx != "" {
		if v := g.judgeContexts(&k, code, k.Ctx); v != nil {
			c.Violation(v.sig, k.Fam, v.msg, v.k)
		}
		return
	}
	kind := ""
	if strings.HasPrefix(k.Sig, "C10:jump:") {
		kind = "jump"
	}
	if v := g.judge(&k, code, kind); v != nil {
		c.Violation(v.sig, k.Fam, v.msg, v.k)
	}
}

func main() {
	fw.Main(fw.Check{
		ID: "C10", Level: "exploration",
		Rule: "a case is one deployed byte string (prologue + program + observation epilogue) on one fork table; every case is generated exactly once " +
			"(cartesian products / all strings up to the length bound) and partitioned over the workers; it counts as non-trivial when the reference " +
			"reaches the epilogue (stack, msize and memory are then compared word by word through the return data) or when the expected result is an " +
			"exceptional halt / a taken-or-refused jump; cases that leave the modelled fragment are skipped and counted separately",
		Assumptions: []string{
			"reference semantics verif/h/refevm (math/big, own JUMPDEST scan, golang.org/x/crypto/sha3 keccak) is the specification",
			"no gas model: 10^10 gas is enough for every terminating case (memory <= 1 MiB), programs whose state provably repeats must fail with any gas limit, memory beyond 2^32 bytes is unaffordable",
			"all exceptional halts are one class (the EVM does not expose the reason to the caller)",
			"the state below the sentinel / beyond the returned bytes is not observed: stack depth is pinned by a bottom sentinel, memory by MSIZE",
			"harness assembler and node fixture (boot with accept-all consensus stub)",
		},
		Run: run, Replay: replay,
		Budget: func(tier string) time.Duration {
			if tier == "thorough" {
				return 17 * time.Minute
			}
			return 55 * time.Second
		},
	})
}
