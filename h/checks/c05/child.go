package main

import (
	"encoding/hex"
	"encoding/json"
	"fmt"
	"math"
	"os"
	"time"

	"verif/h/crash"
	"verif/h/node"

	"com.tuntun.rangers/node/src/common"
	"com.tuntun.rangers/node/src/core"
	"com.tuntun.rangers/node/src/middleware"
	"com.tuntun.rangers/node/src/middleware/types"
	"com.tuntun.rangers/node/src/service"
)

// ---- specifications (input to the builder) ----

type BlockSpec struct {
	Name   string   `json:"name"`
	Parent string   `json:"parent"` // "G" = genesis
	Height uint64   `json:"height"` // 0 = parent+1
	QN     uint64   `json:"qn"`     // added to the parent's TotalQN
	PV     int64    `json:"pv"`
	Sec    int      `json:"sec"` // timestamp salt (different hash, same weight)
	Txs    []string `json:"txs"`
}

type TreeSpec struct {
	Name   string      `json:"name"`
	Blocks []BlockSpec `json:"blocks"`
}

// ---- built tree (output of the builder, input of the runner and the oracle) ----

type BuiltBlock struct {
	Name    string   `json:"name"`
	Parent  string   `json:"parent"`
	Hash    string   `json:"hash"`
	PreHash string   `json:"pre"`
	Height  uint64   `json:"height"`
	TotalQN uint64   `json:"qn"`
	PV      int64    `json:"pv"`
	State   string   `json:"state"`
	Raw     string   `json:"raw"`
	Txs     []string `json:"txs"`   // tx names
	BalA    string   `json:"bal_a"` // balances in the block's post-state (read when the block was built)
	BalB    string   `json:"bal_b"`
}

type BuiltTx struct {
	Name string `json:"name"`
	Hash string `json:"hash"`
	Raw  string `json:"raw"`
}

type BuiltTree struct {
	Name    string       `json:"name"`
	Genesis string       `json:"genesis"`
	Blocks  []BuiltBlock `json:"blocks"`
	Txs     []BuiltTx    `json:"txs"`
}

func c05Forks(c *common.ChainConfig) {
	// dev table (every proposal active from height 0) except P026, which the shipped genesis
	// cannot be created under; off for the whole tree so no fork boundary lies inside it
	c.Proposal026Block = math.MaxUint64
}

func mkTx(name string) *types.Transaction {
	// transfer of 1 RPG from A to B; the name makes the hash unique
	return node.TransferTx(node.AcctA, fmt.Sprintf("{%q:{\"balance\":\"1\"}}", node.AcctB), 0, "c05-"+name)
}

func childBuild(specFile, outFile string) {
	var spec TreeSpec
	mustRead(specFile, &spec)
	if err := node.Boot(c05Forks, true); err != nil {
		panic(err)
	}
	chain := core.GetBlockChain()
	gen := chain.TopBlock()
	out := BuiltTree{Name: spec.Name, Genesis: gen.Hash.Hex()}
	headers := map[string]*types.BlockHeader{"G": gen}
	txs := map[string]*types.Transaction{}
	for _, bs := range spec.Blocks {
		pre := headers[bs.Parent]
		if pre == nil {
			panic("parent not built: " + bs.Parent)
		}
		h := bs.Height
		if h == 0 {
			h = pre.Height + 1
		}
		hd := node.Header(pre, h, bs.QN, bs.PV, time.Date(2024, 5, 1, 0, int(h), bs.Sec, 0, time.UTC))
		b := &types.Block{Header: hd}
		for _, tn := range bs.Txs {
			if txs[tn] == nil {
				txs[tn] = mkTx(tn)
				raw, _ := types.MarshalTransaction(txs[tn])
				out.Txs = append(out.Txs, BuiltTx{Name: tn, Hash: txs[tn].Hash.Hex(), Raw: hex.EncodeToString(raw)})
			}
			b.Transactions = append(b.Transactions, txs[tn])
		}
		// exactly what a validator does in checkStates(setHash=true), on the parent's state
		common.SetBlockHeight(pre.Height)
		st := node.StateAt(pre.StateTree)
		root, evicted, executed, receipts := core.VerifExecuteBlock(st, b, "fullverify")
		hd.StateTree = root
		hd.ReceiptTree = core.VerifCalcReceiptsTree(receipts)
		hd.EvictedTxs = evicted
		b.Transactions = executed
		hs := make([]common.Hashes, len(executed))
		for i, t := range executed {
			hs[i] = common.Hashes{t.Hash, t.SubHash}
		}
		hd.Transactions = hs
		hd.TxTree = core.VerifCalcTxTree(executed)
		hd.Hash = hd.GenHash()
		// make the state available to children (content-addressed nodes, no chain state touched)
		r2, err := st.Commit(true)
		if err != nil || r2 != root {
			panic(fmt.Sprintf("commit: %v %s %s", err, r2.Hex(), root.Hex()))
		}
		if err := middleware.AccountDBManagerInstance.GetTrieDB().Commit(root, false); err != nil {
			panic(err)
		}
		raw, err := types.MarshalBlock(b)
		if err != nil {
			panic(err)
		}
		headers[bs.Name] = hd
		post := node.StateAt(root)
		bb := BuiltBlock{Name: bs.Name, Parent: bs.Parent, Hash: hd.Hash.Hex(), PreHash: hd.PreHash.Hex(), Height: h, TotalQN: hd.TotalQN,
			PV: bs.PV, State: root.Hex(), Raw: hex.EncodeToString(raw), Txs: bs.Txs,
			BalA: post.GetBalance(common.HexToAddress(node.AcctA)).String(), BalB: post.GetBalance(common.HexToAddress(node.AcctB)).String()}
		out.Blocks = append(out.Blocks, bb)
	}
	mustWrite(outFile, out)
}

// ---- runner ----

type Plan struct {
	Order   []string `json:"order"`   // block names delivered through AddBlockOnChain
	Restart bool     `json:"restart"` // boot over an existing directory (no deliveries unless Order given)
	ArmBoot bool     `json:"arm_boot"` // the store writes of the FIRST boot (genesis creation) are crash points too
}

type TxObs struct {
	Executed  bool   `json:"executed"`
	ExecBlock string `json:"exec_block,omitempty"`
	Pending   bool   `json:"pending"`
}

type Obs struct {
	Step       int               `json:"step"`
	Delivered  string            `json:"delivered,omitempty"`
	Result     int               `json:"result"`
	Head       string            `json:"head"`
	HeadHeight uint64            `json:"head_height"`
	HeadQN     uint64            `json:"head_qn"`
	StateOpens bool              `json:"state_opens"`
	Heights    map[string]string `json:"heights"`     // height -> hash returned by the height index ("" = none)
	HeightBody map[string]bool   `json:"height_body"` // height -> QueryBlock(h) returned a body (hash index contains it)
	Walk       []string          `json:"walk"`        // head, parent, ..., until genesis or a missing link
	WalkOK     bool              `json:"walk_ok"`     // reached genesis
	HasHash    map[string]bool   `json:"has_hash"`    // block name -> hash index contains it
	Tx         map[string]TxObs  `json:"tx"`
	MemHead    string            `json:"mem_head"` // TopBlock() (in-memory) vs stored latest
	BalA       string            `json:"bal_a"`    // read from the head's state ("ERR: ..." if unreadable)
	BalB       string            `json:"bal_b"`
}

type RunOut struct {
	Obs        []Obs    `json:"obs"`
	Writes     int      `json:"writes"`
	BootWrites int      `json:"boot_writes"` // physical writes issued by the boot / recovery path
	Trace      []string `json:"trace,omitempty"`
	Marks      []int    `json:"marks"` // write count before each delivery step
}

func observe(tree *BuiltTree, step int) Obs {
	chain := core.GetBlockChain()
	pool := service.GetTransactionPool()
	o := Obs{Step: step, Heights: map[string]string{}, HeightBody: map[string]bool{}, HasHash: map[string]bool{}, Tx: map[string]TxObs{}}
	top := chain.QueryBlockHeaderByHeight([]byte("bcurrent"), false) // the recorded head
	mem := chain.TopBlock()
	if mem != nil {
		o.MemHead = mem.Hash.Hex()
	}
	if top == nil {
		return o
	}
	o.Head, o.HeadHeight, o.HeadQN = top.Hash.Hex(), top.Height, top.TotalQN
	if st, err := middleware.AccountDBManagerInstance.GetAccountDBByHash(top.StateTree); err == nil {
		o.StateOpens = true
		// really read through the state (a root node alone proves little)
		func() {
			defer func() {
				if r := recover(); r != nil {
					o.BalA = fmt.Sprint("ERR: ", r)
				}
			}()
			o.BalA = st.GetBalance(common.HexToAddress(node.AcctA)).String()
			o.BalB = st.GetBalance(common.HexToAddress(node.AcctB)).String()
		}()
	}
	maxH := uint64(0)
	for _, b := range tree.Blocks {
		if b.Height > maxH {
			maxH = b.Height
		}
	}
	for h := uint64(0); h <= maxH+2; h++ {
		k := fmt.Sprint(h)
		hd := chain.QueryBlockHeaderByHeight(h, true)
		if hd != nil {
			o.Heights[k] = hd.Hash.Hex()
		} else {
			o.Heights[k] = ""
		}
		o.HeightBody[k] = chain.QueryBlock(h) != nil
	}
	cur := top.Hash
	for i := 0; i < 64; i++ {
		b := chain.QueryBlockByHash(cur)
		if b == nil {
			break
		}
		o.Walk = append(o.Walk, cur.Hex())
		if b.Header.Height == 0 {
			o.WalkOK = cur.Hex() == tree.Genesis
			break
		}
		cur = b.Header.PreHash
	}
	for _, b := range tree.Blocks {
		o.HasHash[b.Name] = chain.HasBlockByHash(common.HexToHash(b.Hash))
	}
	pending := map[string]bool{}
	for _, t := range pool.GetReceived() {
		pending[t.Hash.Hex()] = true
	}
	for _, t := range tree.Txs {
		to := TxObs{Pending: pending[t.Hash]}
		if e := pool.GetExecuted(common.HexToHash(t.Hash)); e != nil {
			to.Executed = true
			to.ExecBlock = e.Receipt.BlockHash.Hex()
		}
		o.Tx[t.Name] = to
	}
	return o
}

func childRun(treeFile, planFile, outFile string) {
	var tree BuiltTree
	var plan Plan
	mustRead(treeFile, &tree)
	mustRead(planFile, &plan)
	crash.InstallFromEnv()
	if plan.Restart || plan.ArmBoot {
		crash.Arm() // the writes of the recovery path itself (and of the first boot) are crash points too
	}
	if err := node.Boot(c05Forks, true); err != nil {
		panic(err)
	}
	crash.Disarm()
	chain := core.GetBlockChain()
	pool := service.GetTransactionPool()
	out := RunOut{}
	out.BootWrites = crash.Count()
	if !plan.Restart {
		for _, t := range tree.Txs {
			raw, _ := hex.DecodeString(t.Raw)
			tx, err := types.UnMarshalTransaction(raw)
			if err != nil {
				panic(err)
			}
			pool.AddTransaction(&tx)
		}
	}
	out.Obs = append(out.Obs, observe(&tree, 0))
	byName := map[string]*BuiltBlock{}
	for i := range tree.Blocks {
		byName[tree.Blocks[i].Name] = &tree.Blocks[i]
	}
	crash.Arm()
	for i, name := range plan.Order {
		bb := byName[name]
		raw, _ := hex.DecodeString(bb.Raw)
		b, err := types.UnMarshalBlock(raw)
		if err != nil {
			panic(err)
		}
		out.Marks = append(out.Marks, crash.Count())
		os.WriteFile("c05_progress", []byte(fmt.Sprint(i)), 0o644)
		res := chain.AddBlockOnChain(b)
		crash.Disarm()
		o := observe(&tree, i+1)
		crash.Arm()
		o.Delivered, o.Result = name, int(res)
		out.Obs = append(out.Obs, o)
	}
	crash.Disarm()
	out.Writes = crash.Count()
	if os.Getenv("VERIF_CRASH_TRACE") != "" {
		out.Trace = crash.Trace()
	}
	mustWrite(outFile, out)
	os.Exit(0) // no Close: the stores are left as a dying process leaves them
}

func mustRead(f string, v interface{}) {
	b, err := os.ReadFile(f)
	if err != nil {
		panic(err)
	}
	if err := json.Unmarshal(b, v); err != nil {
		panic(err)
	}
}

func mustWrite(f string, v interface{}) {
	b, _ := json.Marshal(v)
	if err := os.WriteFile(f, b, 0o644); err != nil {
		panic(err)
	}
}
