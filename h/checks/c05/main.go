// C05: the block store holds one hash-linked canonical chain across reorgs and crashes.
// (a) every delivery order of small block trees through AddBlockOnChain on a fresh node
//
//	process; structural invariants after every delivery.
//
// (b) for representative histories, a process death before every individual physical
//
//	store write (real os.Exit at the write), restart in a new process over the same
//	directory through the unmodified boot path, same invariants plus the head bound.
package main

import (
	"encoding/json"
	"fmt"
	"math/big"
	"os"
	"os/exec"
	"path/filepath"
	"sort"
	"strings"
	"time"

	"verif/h/crash"
	"verif/h/fw"
)

func trees(thorough bool) []TreeSpec {
	ts := []TreeSpec{
		{Name: "reorg-depth2", Blocks: []BlockSpec{
			{Name: "a1", Parent: "G", QN: 1, PV: 5, Txs: []string{"t1"}},
			{Name: "a2", Parent: "a1", QN: 1, PV: 5, Txs: []string{"t2"}},
			{Name: "a3", Parent: "a2", QN: 1, PV: 5},
			{Name: "b2", Parent: "a1", QN: 4, PV: 3, Txs: []string{"t3"}}, // heavier than a3: reorg of depth 2
			{Name: "c2", Parent: "a1", QN: 1, PV: 9},                      // same QN as a2, higher PV
		}},
		{Name: "siblings-h1", Blocks: []BlockSpec{
			{Name: "x1", Parent: "G", QN: 2, PV: 5, Txs: []string{"t1"}},
			{Name: "y1", Parent: "G", QN: 2, PV: 7, Txs: []string{"t2"}}, // equal QN, higher PV
			{Name: "z1", Parent: "G", QN: 2, PV: 5, Sec: 1},              // equal QN, equal PV: hash tie-break
			{Name: "w1", Parent: "G", QN: 1, PV: 9},                      // lower QN
			{Name: "x2", Parent: "x1", QN: 1, PV: 1, Txs: []string{"t3"}},
		}},
		{Name: "gaps-sharedtx", Blocks: []BlockSpec{
			{Name: "a1", Parent: "G", QN: 1, PV: 5, Txs: []string{"t1"}},
			{Name: "a3", Parent: "a1", Height: 3, QN: 1, PV: 5, Txs: []string{"t2"}}, // height gap
			{Name: "b2", Parent: "a1", QN: 2, PV: 5, Txs: []string{"t2", "t3"}},      // shares t2 with a3
			{Name: "b4", Parent: "b2", Height: 4, QN: 1, PV: 5},
		}},
	}
	// equal cumulative QN with a fork two blocks deep: the tie-break must use the prove value of the
	// block right after the fork point, not of the head (all orders of the two local prove values)
	for i, pv := range [][2]int64{{900, 100}, {100, 900}, {500, 500}} {
		ts = append(ts, TreeSpec{Name: fmt.Sprintf("equalqn-deep-%d", i), Blocks: []BlockSpec{
			{Name: "l1", Parent: "G", QN: 1, PV: pv[0], Txs: []string{"t1"}},
			{Name: "l2", Parent: "l1", QN: 1, PV: pv[1]},
			{Name: "r1", Parent: "G", QN: 2, PV: 500, Sec: 1, Txs: []string{"t2"}},
			{Name: "r2", Parent: "r1", QN: 1, PV: 300},
		}})
	}
	// equal cumulative QN where the fork block skipped a height: the local block at the fork point
	// (height ancestor+1) and the local block at the coming block's own height carry different
	// prove values, in every order relative to the coming block's
	for i, pv := range [][3]int64{{100, 10, 50}, {10, 100, 50}, {50, 50, 50}, {100, 10, 5}} {
		ts = append(ts, TreeSpec{Name: fmt.Sprintf("equalqn-gap-%d", i), Blocks: []BlockSpec{
			{Name: "a1", Parent: "G", QN: 1, PV: 7, Txs: []string{"t1"}},
			{Name: "l2", Parent: "a1", QN: 2, PV: pv[0], Txs: []string{"t2"}},
			{Name: "l3", Parent: "l2", QN: 2, PV: pv[1]},
			{Name: "c3", Parent: "a1", Height: 3, QN: 4, PV: pv[2], Sec: 1, Txs: []string{"t3"}},
		}})
	}
	if thorough {
		ts = append(ts, TreeSpec{Name: "six-blocks", Blocks: []BlockSpec{
			{Name: "a1", Parent: "G", QN: 1, PV: 5, Txs: []string{"t1"}},
			{Name: "a2", Parent: "a1", QN: 1, PV: 5, Txs: []string{"t2"}},
			{Name: "a3", Parent: "a2", QN: 1, PV: 5},
			{Name: "b2", Parent: "a1", QN: 1, PV: 5, Sec: 1, Txs: []string{"t3"}},
			{Name: "b3", Parent: "b2", QN: 3, PV: 5, Txs: []string{"t2"}},
			{Name: "c1", Parent: "G", QN: 6, PV: 1},
		}})
	}
	return ts
}

// crash histories: parent-first delivery orders that exercise extension, reorg depth 1/2, duplicates
func crashHistories(thorough bool) map[string][][]string {
	m := map[string][][]string{
		"reorg-depth2":  {{"a1", "a2", "a3", "b2"}, {"a1", "a2", "c2"}},
		"siblings-h1":   {{"x1", "y1"}, {"w1", "x1", "x2", "x1"}},
		"gaps-sharedtx": {{"a1", "a3", "b2", "b4"}},
	}
	if thorough {
		m["reorg-depth2"] = append(m["reorg-depth2"], []string{"a1", "c2", "a2", "a3", "b2"}, []string{"a2", "a1", "b2"})
		m["siblings-h1"] = append(m["siblings-h1"], []string{"z1", "x1", "y1", "x2"})
		m["six-blocks"] = [][]string{{"a1", "a2", "a3", "b2", "b3", "c1"}}
	}
	return m
}

type treeInfo struct {
	t      *BuiltTree
	byName map[string]*BuiltBlock
	byHash map[string]*BuiltBlock
}

func newTreeInfo(t *BuiltTree) *treeInfo {
	ti := &treeInfo{t: t, byName: map[string]*BuiltBlock{}, byHash: map[string]*BuiltBlock{}}
	for i := range t.Blocks {
		ti.byName[t.Blocks[i].Name] = &t.Blocks[i]
		ti.byHash[t.Blocks[i].Hash] = &t.Blocks[i]
	}
	return ti
}

// chain returns the block names from genesis (exclusive) to the block with this hash; ok=false if unknown.
func (ti *treeInfo) chain(hash string) ([]*BuiltBlock, bool) {
	if hash == ti.t.Genesis {
		return nil, true
	}
	var rev []*BuiltBlock
	cur := ti.byHash[hash]
	for cur != nil {
		rev = append(rev, cur)
		if cur.Parent == "G" {
			out := make([]*BuiltBlock, len(rev))
			for i := range rev {
				out[len(rev)-1-i] = rev[i]
			}
			return out, true
		}
		cur = ti.byName[cur.Parent]
	}
	return nil, false
}

func hashBig(h string) *big.Int {
	b, _ := new(big.Int).SetString(strings.TrimPrefix(h, "0x"), 16)
	return b
}

// notLower reports whether moving the head from old to new respects the weight order.
func (ti *treeInfo) notLower(oldH, newH string) (bool, string) {
	if oldH == newH {
		return true, ""
	}
	oc, ok1 := ti.chain(oldH)
	nc, ok2 := ti.chain(newH)
	if !ok1 || !ok2 {
		return false, "head is not a block of the tree"
	}
	i := 0
	for i < len(oc) && i < len(nc) && oc[i].Hash == nc[i].Hash {
		i++
	}
	if i == len(oc) {
		return true, "" // extension of the old head
	}
	oq, nq := uint64(0), uint64(0)
	if len(oc) > 0 {
		oq = oc[len(oc)-1].TotalQN
	}
	if len(nc) > 0 {
		nq = nc[len(nc)-1].TotalQN
	}
	if nq != oq {
		return nq > oq, fmt.Sprintf("TotalQN %d -> %d", oq, nq)
	}
	if i == len(nc) {
		return false, "head moved back to an ancestor"
	}
	if oc[i].PV != nc[i].PV {
		return nc[i].PV > oc[i].PV, fmt.Sprintf("equal QN, prove value at fork point %d -> %d", oc[i].PV, nc[i].PV)
	}
	return hashBig(nc[i].Hash).Cmp(hashBig(oc[i].Hash)) >= 0, "equal QN and PV, hash at fork point lower"
}

// structural checks the invariants that must hold at every quiescent point and after every restart.
func (ti *treeInfo) structural(o *Obs, afterRestart bool, poolKnown bool) []string {
	var bad []string
	if o.Head == "" {
		return []string{"no-head: no recorded head block"}
	}
	hc, ok := ti.chain(o.Head)
	if !ok {
		return []string{"head-unknown: recorded head is not a block of the tree"}
	}
	if !o.WalkOK {
		bad = append(bad, "head-unreachable: walking parent links from the recorded head through the hash index does not reach genesis")
	}
	if o.MemHead != o.Head {
		bad = append(bad, "memhead: in-memory head differs from the recorded head")
	}
	if !o.StateOpens {
		bad = append(bad, "state: the head's state root cannot be opened")
	} else if len(hc) > 0 {
		hb := hc[len(hc)-1]
		if o.BalA != hb.BalA || o.BalB != hb.BalB {
			bad = append(bad, fmt.Sprintf("state-content: balances read from the head's state (%s, %s) differ from the block's post-state (%s, %s)", o.BalA, o.BalB, hb.BalA, hb.BalB))
		}
	}
	onChain := map[uint64]string{0: ti.t.Genesis}
	for _, b := range hc {
		onChain[b.Height] = b.Hash
	}
	var hs []int
	for k := range o.Heights {
		var h int
		fmt.Sscan(k, &h)
		hs = append(hs, h)
	}
	sort.Ints(hs)
	for _, hh := range hs {
		h := uint64(hh)
		got := o.Heights[fmt.Sprint(h)]
		if h > o.HeadHeight {
			if got != "" {
				bad = append(bad, fmt.Sprintf("index-above-head: height %d above head %d is indexed", h, o.HeadHeight))
			}
			continue
		}
		want := onChain[h]
		if got != want {
			bad = append(bad, fmt.Sprintf("height-index: height %d returns %s, chain has %s", h, short(got), short(want)))
		} else if want != "" && !o.HeightBody[fmt.Sprint(h)] {
			bad = append(bad, fmt.Sprintf("hash-index: block at height %d of the chain is missing from the hash index", h))
		}
	}
	// executed records <=> canonical
	canonTx := map[string]string{}
	for _, b := range hc {
		for _, tn := range b.Txs {
			canonTx[tn] = b.Hash
		}
	}
	var tns []string
	for tn := range o.Tx {
		tns = append(tns, tn)
	}
	sort.Strings(tns)
	for _, tn := range tns {
		to := o.Tx[tn]
		blk, in := canonTx[tn]
		if in && !to.Executed {
			bad = append(bad, "tx-not-marked: transaction of a canonical block has no executed record")
		}
		if in && to.Executed && to.ExecBlock != blk {
			bad = append(bad, "tx-marked-wrong-block: executed record names another block")
		}
		if !in && to.Executed {
			bad = append(bad, "tx-stale-mark: transaction not on the canonical chain still has an executed record")
		}
		if !in && poolKnown && !to.Pending {
			bad = append(bad, "tx-not-pending: transaction not on the canonical chain is not pending")
		}
		if in && to.Pending {
			bad = append(bad, "tx-pending-and-executed: executed transaction is still pending")
		}
	}
	return bad
}

func short(h string) string {
	if len(h) > 10 {
		return h[:10]
	}
	if h == "" {
		return "none"
	}
	return h
}

func class(msg string) string {
	if i := strings.Index(msg, ":"); i > 0 {
		return msg[:i]
	}
	return msg
}

type ViolCase struct {
	Tree      string   `json:"tree"`
	Order     []string `json:"order"`
	CrashAt   int      `json:"crash_at,omitempty"`
	FirstBoot bool     `json:"first_boot,omitempty"`
}

var exe string

func runChild(dir string, env []string, args ...string) (int, string) {
	cmd := exec.Command(exe, append([]string{"--c05"}, args...)...)
	cmd.Dir = dir
	cmd.Env = append(os.Environ(), env...)
	out, err := cmd.CombinedOutput()
	code := 0
	if err != nil {
		code = -1
		if ee, ok := err.(*exec.ExitError); ok {
			code = ee.ExitCode()
		}
	}
	return code, string(out)
}

func buildTree(c *fw.Ctx, spec TreeSpec) *BuiltTree {
	dir := filepath.Join(c.Scratch, "build-"+spec.Name)
	os.MkdirAll(dir, 0o755)
	defer os.RemoveAll(dir)
	mustWrite(filepath.Join(dir, "spec.json"), spec)
	code, out := runChild(dir, nil, "build", "spec.json", "tree.json")
	if code != 0 {
		panic(fmt.Sprintf("tree builder failed (%d): %s", code, tail(out)))
	}
	var t BuiltTree
	mustRead(filepath.Join(dir, "tree.json"), &t)
	return &t
}

func tail(s string) string {
	if len(s) > 3000 {
		return s[len(s)-3000:]
	}
	return s
}

func permute(names []string, f func([]string)) {
	var rec func(k int)
	a := append([]string{}, names...)
	rec = func(k int) {
		if k == len(a) {
			f(append([]string{}, a...))
			return
		}
		for i := k; i < len(a); i++ {
			a[k], a[i] = a[i], a[k]
			rec(k + 1)
			a[k], a[i] = a[i], a[k]
		}
	}
	rec(0)
}

var runSeq int

// sanity: delivered parent-first on a fresh node, every block whose parent is the current head
// must be accepted (otherwise the harness-built tree is not a tree of valid blocks and every
// later verdict would be vacuous).  Not an oracle: a failure is an infrastructure error.
func sanity(c *fw.Ctx, ti *treeInfo, treeFile string) string {
	var order []string
	for _, b := range ti.t.Blocks {
		order = append(order, b.Name)
	}
	runSeq++
	dir := filepath.Join(c.Scratch, fmt.Sprintf("sanity%d", runSeq))
	os.MkdirAll(dir, 0o755)
	defer os.RemoveAll(dir)
	mustWrite(filepath.Join(dir, "plan.json"), Plan{Order: order})
	code, out := runChild(dir, nil, "run", treeFile, "plan.json", "out.json")
	if code != 0 {
		return "sanity run died: " + tail(out)
	}
	var ro RunOut
	mustRead(filepath.Join(dir, "out.json"), &ro)
	for i := 1; i < len(ro.Obs); i++ {
		b := ti.byName[ro.Obs[i].Delivered]
		prev := ro.Obs[i-1].Head
		if b.PreHash == prev && ro.Obs[i].Head != b.Hash {
			return fmt.Sprintf("tree %s: block %s extends the head but was not accepted (result %d)", ti.t.Name, b.Name, ro.Obs[i].Result)
		}
	}
	return ""
}

// deliver runs one order on a fresh node process and checks every quiescent point.
func deliver(c *fw.Ctx, ti *treeInfo, treeFile string, order []string) {
	runSeq++
	dir := filepath.Join(c.Scratch, fmt.Sprintf("run%d", runSeq))
	os.MkdirAll(dir, 0o755)
	defer os.RemoveAll(dir)
	mustWrite(filepath.Join(dir, "plan.json"), Plan{Order: order})
	code, out := runChild(dir, nil, "run", treeFile, "plan.json", "out.json")
	c.Eval(1)
	vc := ViolCase{Tree: ti.t.Name, Order: order}
	if code != 0 {
		c.Violation("C05:node-died:"+fw.PanicSite([]byte("panic(\n"+out)), "orders", "node process died during delivery: "+tail(out), vc)
		return
	}
	var ro RunOut
	mustRead(filepath.Join(dir, "out.json"), &ro)
	c.Transition(int64(len(order)))
	prevHead := ti.t.Genesis
	moved := 0
	for i := range ro.Obs {
		o := &ro.Obs[i]
		for _, b := range ti.structural(o, false, true) {
			c.Violation("C05:orders:"+class(b), "orders", fmt.Sprintf("tree %s order %v after step %d (%s): %s", ti.t.Name, order, o.Step, o.Delivered, b), vc)
		}
		if ok, why := ti.notLower(prevHead, o.Head); !ok {
			c.Violation("C05:orders:head-weight-decreased", "orders", fmt.Sprintf("tree %s order %v step %d (%s): head %s -> %s: %s", ti.t.Name, order, o.Step, o.Delivered, short(prevHead), short(o.Head), why), vc)
		}
		if o.Head != prevHead {
			moved++
		}
		prevHead = o.Head
	}
	last := ro.Obs[len(ro.Obs)-1]
	c.Outcome(fmt.Sprintf("%s final=%s", ti.t.Name, ti.byHashName(last.Head)))
	if moved >= 2 {
		c.Nontrivial(ti.t.Name + strings.Join(order, ","))
	}
	c.State(int64(len(ro.Obs)))
	c.Trace(1)
}

func (ti *treeInfo) byHashName(h string) string {
	if h == ti.t.Genesis {
		return "G"
	}
	if b := ti.byHash[h]; b != nil {
		return b.Name
	}
	return "?"
}

// crashHistory enumerates a process death before every physical write of one history.
func crashHistory(c *fw.Ctx, ti *treeInfo, treeFile string, order []string, idx *int64) {
	// reference run without crash: number of writes, heads after every step
	runSeq++
	dir := filepath.Join(c.Scratch, fmt.Sprintf("crashref%d", runSeq))
	os.MkdirAll(dir, 0o755)
	mustWrite(filepath.Join(dir, "plan.json"), Plan{Order: order})
	code, out := runChild(dir, []string{"VERIF_CRASH_TRACE=1"}, "run", treeFile, "plan.json", "out.json")
	if code != 0 {
		os.RemoveAll(dir)
		c.Violation("C05:node-died:"+fw.PanicSite([]byte("panic(\n"+out)), "crash", "node process died in the crash-free reference run: "+tail(out), ViolCase{Tree: ti.t.Name, Order: order})
		return
	}
	var ref RunOut
	mustRead(filepath.Join(dir, "out.json"), &ref)
	os.RemoveAll(dir)
	if len(ref.Trace) > 0 {
		c.Sample(map[string]interface{}{"tree": ti.t.Name, "history": order, "physical_writes": ref.Writes, "first_writes": ref.Trace[:min(6, len(ref.Trace))]})
	}
	for p := 1; p <= ref.Writes; p++ {
		*idx++
		if crashOnly != 0 && p != crashOnly {
			continue
		}
		if !c.Mine(*idx) {
			continue
		}
		if c.Expired() {
			c.Cap("time budget: not every crash point of every history explored")
			return
		}
		runSeq++
		d := filepath.Join(c.Scratch, fmt.Sprintf("crash%d", runSeq))
		os.MkdirAll(d, 0o755)
		mustWrite(filepath.Join(d, "plan.json"), Plan{Order: order})
		vc := ViolCase{Tree: ti.t.Name, Order: order, CrashAt: p}
		code, out := runChild(d, []string{fmt.Sprintf("VERIF_CRASH_AT=%d", p)}, "run", treeFile, "plan.json", "out.json")
		c.Eval(1)
		if code != crash.ExitCode {
			c.Violation("C05:crash:harness", "crash", fmt.Sprintf("expected the process to die at write %d, exit=%d: %s", p, code, tail(out)), vc)
			os.RemoveAll(d)
			continue
		}
		// which delivery step was in progress?
		step := 0
		if b, err := os.ReadFile(filepath.Join(d, "c05_progress")); err == nil {
			fmt.Sscan(string(b), &step)
		}
		mustWrite(filepath.Join(d, "plan2.json"), Plan{Restart: true})
		if c.Thorough() || nestedQuick(p) {
			nestedCrash(c, ti, treeFile, d, order, p, step, ref)
		}
		code, out = runChild(d, nil, "run", treeFile, "plan2.json", "out2.json")
		if code != 0 {
			c.Violation("C05:crash:restart-died:"+fw.PanicSite([]byte("panic(\n"+out)), "crash",
				fmt.Sprintf("tree %s history %v: node cannot restart after a process death before write %d (%s): %s", ti.t.Name, order, p, traceAt(ref.Trace, p), tail(out)), vc)
			os.RemoveAll(d)
			continue
		}
		if _, err := os.Stat(filepath.Join(d, "out2.json")); err != nil {
			c.Violation("C05:crash:restart-refused-store", "crash",
				fmt.Sprintf("tree %s history %v: after a process death before write %d (%s) the node quits during every start: %s", ti.t.Name, order, p, traceAt(ref.Trace, p), tail(out)), vc)
			os.RemoveAll(d)
			continue
		}
		var ro RunOut
		mustRead(filepath.Join(d, "out2.json"), &ro)
		os.RemoveAll(d)
		o := &ro.Obs[0]
		for _, b := range ti.structural(o, true, false) {
			c.Violation("C05:crash:"+class(b), "crash", fmt.Sprintf("tree %s history %v, process death before write %d (%s) during delivery of %s, after restart: %s",
				ti.t.Name, order, p, traceAt(ref.Trace, p), order[step], b), vc)
		}
		// head bound: ancestors-or-self of the head before / after the interrupted delivery
		oldHead, newHead := ref.Obs[step].Head, ref.Obs[step+1].Head
		allowed := map[string]bool{ti.t.Genesis: true}
		for _, h := range []string{oldHead, newHead} {
			ch, _ := ti.chain(h)
			for _, b := range ch {
				allowed[b.Hash] = true
			}
		}
		if !allowed[o.Head] {
			c.Violation("C05:crash:head-out-of-bounds", "crash", fmt.Sprintf("tree %s history %v, death before write %d (%s): head after restart %s is neither old head %s, new head %s nor an ancestor",
				ti.t.Name, order, p, traceAt(ref.Trace, p), ti.byHashName(o.Head), ti.byHashName(oldHead), ti.byHashName(newHead)), vc)
		}
		c.Outcome(fmt.Sprintf("crash %s step=%s head=%s", ti.t.Name, order[step], ti.byHashName(o.Head)))
		c.Nontrivial(fmt.Sprintf("%s|%v|%d", ti.t.Name, order, p))
		c.Count("crash_points", 1)
	}
}

// nestedQuick: in the quick tier only every 7th crash point also gets the nested enumeration.
func nestedQuick(p int) bool { return p%7 == 3 }

// nestedCrash: the recovery that runs at restart writes to the stores too; kill the
// restarting process before each of those writes (on a copy of the crashed directory),
// restart once more and require the same invariants.
func nestedCrash(c *fw.Ctx, ti *treeInfo, treeFile, d string, order []string, p, step int, ref RunOut) {
	for q := 1; q < 64; q++ {
		runSeq++
		d2 := filepath.Join(c.Scratch, fmt.Sprintf("nested%d", runSeq))
		if out, err := exec.Command("cp", "-a", d, d2).CombinedOutput(); err != nil {
			c.Infra("cp failed: " + string(out))
			return
		}
		code, out := runChild(d2, []string{fmt.Sprintf("VERIF_CRASH_AT=%d", q)}, "run", treeFile, "plan2.json", "outn.json")
		if code == 0 {
			os.RemoveAll(d2)
			return // the recovery path has fewer than q writes: all its crash points are done
		}
		c.Eval(1)
		vc := ViolCase{Tree: ti.t.Name, Order: order, CrashAt: p}
		if code != crash.ExitCode {
			c.Violation("C05:crash:restart-died:"+fw.PanicSite([]byte("panic(\n"+out)), "crash",
				fmt.Sprintf("tree %s history %v: restart after a death before write %d died (nested point %d): %s", ti.t.Name, order, p, q, tail(out)), vc)
			os.RemoveAll(d2)
			return
		}
		code, out = runChild(d2, nil, "run", treeFile, "plan2.json", "outn2.json")
		if code != 0 {
			c.Violation("C05:crash:restart-died:"+fw.PanicSite([]byte("panic(\n"+out)), "crash",
				fmt.Sprintf("tree %s history %v: node cannot restart after a death before write %d followed by a death before recovery write %d: %s", ti.t.Name, order, p, q, tail(out)), vc)
			os.RemoveAll(d2)
			continue
		}
		var ro RunOut
		mustRead(filepath.Join(d2, "outn2.json"), &ro)
		os.RemoveAll(d2)
		o := &ro.Obs[0]
		for _, b := range ti.structural(o, true, false) {
			c.Violation("C05:crash:nested:"+class(b), "crash", fmt.Sprintf("tree %s history %v, death before write %d, then death before recovery write %d, after the second restart: %s", ti.t.Name, order, p, q, b), vc)
		}
		oldHead, newHead := ref.Obs[step].Head, ref.Obs[step+1].Head
		allowed := map[string]bool{ti.t.Genesis: true}
		for _, h := range []string{oldHead, newHead} {
			ch, _ := ti.chain(h)
			for _, b := range ch {
				allowed[b.Hash] = true
			}
		}
		if !allowed[o.Head] {
			c.Violation("C05:crash:nested:head-out-of-bounds", "crash", fmt.Sprintf("tree %s history %v, death before write %d + recovery write %d: head %s", ti.t.Name, order, p, q, ti.byHashName(o.Head)), vc)
		}
		c.Count("nested_crash_points", 1)
		c.Nontrivial(fmt.Sprintf("%s|%v|%d|n%d", ti.t.Name, order, p, q))
	}
}

func traceAt(tr []string, p int) string {
	if p-1 < len(tr) {
		return tr[p-1]
	}
	return "?"
}

func run(c *fw.Ctx) {
	exe, _ = os.Executable()
	var idx int64
	ch := crashHistories(c.Thorough())
	for _, spec := range trees(c.Thorough()) {
		t := buildTree(c, spec)
		ti := newTreeInfo(t)
		treeFile := filepath.Join(c.Scratch, "tree-"+spec.Name+".json")
		mustWrite(treeFile, t)
		// sanity of the harness-built tree: every block must be accepted parent-first (no oracle, infra)
		var names []string
		for _, b := range t.Blocks {
			names = append(names, b.Name)
		}
		if c.Shard == 0 {
			if msg := sanity(c, ti, treeFile); msg != "" {
				c.Infra(msg)
				return
			}
		}
		if !firstBootDone {
			firstBootDone = true
			firstBoot(c, ti, treeFile, names[0], &idx)
		}
		// (a) every permutation; plus every permutation with one block delivered twice (quick: dup only for trees <= 4 blocks)
		permute(names, func(order []string) {
			idx++
			if !c.Mine(idx) || c.Expired() {
				return
			}
			deliver(c, ti, treeFile, order)
		})
		if len(names) <= 4 || c.Thorough() {
			for _, dup := range names {
				permute(names, func(order []string) {
					// insert the duplicate at every later position than its first occurrence: take "after the end" and "right after"
					for _, pos := range []int{0, 1} {
						idx++
						if !c.Mine(idx) || c.Expired() {
							continue
						}
						var o2 []string
						for _, n := range order {
							o2 = append(o2, n)
							if n == dup && pos == 0 {
								o2 = append(o2, dup)
							}
						}
						if pos == 1 {
							o2 = append(o2, dup)
						}
						deliver(c, ti, treeFile, o2)
					}
				})
			}
		}
		for _, h := range ch[spec.Name] {
			crashHistory(c, ti, treeFile, h, &idx)
		}
		if c.Expired() {
			c.Cap("time budget: not every delivery order / crash point explored")
		}
	}
}

// firstBoot: the process dies before each physical store write of the very first boot (creation of the
// genesis block on an empty directory); the restarted node must come up and satisfy the structural
// invariants, and delivering the first block of the tree afterwards must leave them intact.
func firstBoot(c *fw.Ctx, ti *treeInfo, treeFile string, first string, idx *int64) {
	runSeq++
	dir := filepath.Join(c.Scratch, fmt.Sprintf("fbref%d", runSeq))
	os.MkdirAll(dir, 0o755)
	mustWrite(filepath.Join(dir, "plan.json"), Plan{ArmBoot: true})
	code, out := runChild(dir, []string{"VERIF_CRASH_TRACE=1"}, "run", treeFile, "plan.json", "out.json")
	if code != 0 {
		os.RemoveAll(dir)
		c.Infra("first-boot reference run failed: " + tail(out))
		return
	}
	var ref RunOut
	mustRead(filepath.Join(dir, "out.json"), &ref)
	os.RemoveAll(dir)
	c.Count("first_boot_physical_writes", int64(ref.BootWrites))
	if ref.BootWrites < 3 {
		c.Infra(fmt.Sprintf("first boot issued only %d store writes: vacuous", ref.BootWrites))
		return
	}
	for p := 1; p <= ref.BootWrites; p++ {
		*idx++
		if crashOnly != 0 && p != crashOnly {
			continue
		}
		if !c.Mine(*idx) {
			continue
		}
		if c.Expired() {
			c.Cap("time budget: not every crash point of the first boot explored")
			return
		}
		runSeq++
		d := filepath.Join(c.Scratch, fmt.Sprintf("fb%d", runSeq))
		os.MkdirAll(d, 0o755)
		mustWrite(filepath.Join(d, "plan.json"), Plan{ArmBoot: true})
		vc := ViolCase{Tree: ti.t.Name, Order: []string{first}, CrashAt: p, FirstBoot: true}
		code, out := runChild(d, []string{fmt.Sprintf("VERIF_CRASH_AT=%d", p)}, "run", treeFile, "plan.json", "out.json")
		c.Eval(1)
		if code != crash.ExitCode {
			c.Violation("C05:crash:harness", "first-boot", fmt.Sprintf("expected the process to die at write %d of the first boot, exit=%d: %s", p, code, tail(out)), vc)
			os.RemoveAll(d)
			continue
		}
		mustWrite(filepath.Join(d, "plan2.json"), Plan{Restart: true, Order: []string{first}})
		code, out = runChild(d, nil, "run", treeFile, "plan2.json", "out2.json")
		if code != 0 {
			c.Violation("C05:crash:first-boot:restart-died:"+fw.PanicSite([]byte("panic(\n"+out)), "first-boot",
				fmt.Sprintf("node cannot restart after a process death before write %d (%s) of its first boot (exit %d): %s", p, traceAt(ref.Trace, p), code, tail(out)), vc)
			os.RemoveAll(d)
			continue
		}
		if _, err := os.Stat(filepath.Join(d, "out2.json")); err != nil {
			// exit status 0 without having run: the node refused its own store and quit (os.Exit(0) in its boot path)
			c.Violation("C05:crash:first-boot:restart-refused-store", "first-boot",
				fmt.Sprintf("after a process death before write %d (%s) of its first boot the node quits during every start: %s", p, traceAt(ref.Trace, p), tail(out)), vc)
			os.RemoveAll(d)
			continue
		}
		var ro RunOut
		mustRead(filepath.Join(d, "out2.json"), &ro)
		os.RemoveAll(d)
		if len(ro.Obs) == 0 {
			c.Violation("C05:crash:harness", "first-boot", "restart run produced no observation", vc)
			continue
		}
		for i := range ro.Obs {
			for _, b := range ti.structural(&ro.Obs[i], true, false) {
				when := "after restart"
				if i > 0 {
					when = "after restart and delivery of " + first
				}
				c.Violation("C05:crash:first-boot:"+class(b), "first-boot", fmt.Sprintf("process death before write %d (%s) of the first boot, %s: %s", p, traceAt(ref.Trace, p), when, b), vc)
			}
		}
		if ro.Obs[0].Head != ti.t.Genesis {
			c.Violation("C05:crash:first-boot:head-not-genesis", "first-boot", fmt.Sprintf("process death before write %d of the first boot: head after restart is %s, not the genesis block", p, short(ro.Obs[0].Head)), vc)
		}
		c.Outcome(fmt.Sprintf("first-boot crash head=%s", ti.byHashName(ro.Obs[0].Head)))
		c.Nontrivial(fmt.Sprintf("firstboot|%d", p))
		c.Count("first_boot_crash_points", 1)
	}
}

func replay(c *fw.Ctx, raw json.RawMessage) {
	exe, _ = os.Executable()
	var vc ViolCase
	if err := json.Unmarshal(raw, &vc); err != nil {
		panic(err)
	}
	for _, spec := range trees(true) {
		if spec.Name != vc.Tree {
			continue
		}
		t := buildTree(c, spec)
		ti := newTreeInfo(t)
		treeFile := filepath.Join(c.Scratch, "tree-"+spec.Name+".json")
		mustWrite(treeFile, t)
		if vc.FirstBoot {
			var idx int64
			c.NShards = 1
			crashOnly = vc.CrashAt
			firstBoot(c, ti, treeFile, vc.Order[0], &idx)
		} else if vc.CrashAt == 0 {
			deliver(c, ti, treeFile, vc.Order)
		} else {
			// replay exactly one crash point
			var idx int64
			c.NShards = 1
			crashOnly = vc.CrashAt
			crashHistory(c, ti, treeFile, vc.Order, &idx)
		}
	}
}

var crashOnly int
var firstBootDone bool

func main() {
	if len(os.Args) > 2 && os.Args[1] == "--c05" {
		switch os.Args[2] {
		case "build":
			childBuild(os.Args[3], os.Args[4])
		case "run":
			childRun(os.Args[3], os.Args[4], os.Args[5])
		}
		return
	}
	fw.Main(fw.Check{
		ID: "C05", Level: "fault_enumeration",
		Rule: "(a) every permutation of the blocks of each tree (and, for small trees, every permutation with one block delivered twice) is fed to AddBlockOnChain on a fresh node process; " +
			"(b) for each listed history a real process death (os.Exit inside the store hook) before every individual physical LevelDB write call, then restart in a new process over the same directory via the unmodified boot path. " +
			"Oracle at every quiescent point / after every restart: head reachable from genesis via parent links, height index == chain for every height <= head, nothing indexed above, head state opens, executed records <=> canonical, " +
			"weight never decreases (orders), head within {ancestors-or-self of old head, of new head} (crash). non-trivial = order in which the head moved at least twice, or a crash point",
		Assumptions: []string{
			"one LevelDB write call (Put/Delete/Batch write) is atomic and ordered; writes reach the OS before the call returns (process death, not power loss)",
			"accept-all consensus stub: group signatures / VRF are not verified",
			"blocks are built by the harness with the validator's own setHash logic on the parent state; every block of a tree is valid",
			"sync/fork-processor path (fork_block.go) is outside the bound; crashes during recovery are enumerated one level deep (every crash point in thorough, every 7th in quick)",
		},
		Run: run, Replay: replay,
		Budget: func(t string) time.Duration {
			if t == "thorough" {
				return 22 * time.Minute
			}
			return 100 * time.Second
		},
	})
}
