// Part "prelen": input-LENGTH boundary family for every precompile of the VM's own precompile
// map.  For every length of a boundary set and three contents: RequiredGas, then
// RunPrecompiledContract with gas 0, RequiredGas-1, RequiredGas and ample gas (the last two only
// when the price says the work is small), and a STATICCALL from byte code with that input size.
package main

import (
	"bytes"
	"fmt"
	"math/big"
	"sort"

	"com.tuntun.rangers/node/src/common"
	"com.tuntun.rangers/node/src/vm"
)

// precompileAddrs lists the addresses of the VM's precompile map in ascending order.
func precompileAddrs() []common.Address {
	var as []common.Address
	for a := range vm.PrecompiledContracts {
		as = append(as, a)
	}
	sort.Slice(as, func(i, j int) bool { return bytes.Compare(as[i].Bytes(), as[j].Bytes()) < 0 })
	return as
}

const prelenCap = 600 * 1024

// prelenLengths: {0..260} and u*k+d over the record sizes / pair counts of the known contracts.
func prelenLengths() []int {
	set := map[int]bool{}
	for l := 0; l <= 260; l++ {
		set[l] = true
	}
	for _, u := range []int{32, 64, 96, 128, 160, 192, 213, 256, 288, 384, 416, 512} {
		for _, k := range []int{1, 2, 3, 16, 127, 128, 129, 130, 255, 256, 257, 1024} {
			for d := -1; d <= 1; d++ {
				if l := u*k + d; l >= 0 && l <= prelenCap {
					set[l] = true
				}
			}
		}
	}
	var ls []int
	for l := range set {
		ls = append(ls, l)
	}
	sort.Ints(ls)
	return ls
}

// prelenInput: fill "00", "ff", or "01" = zero bytes with every 32nd byte 1.
func prelenInput(fill string, l int) []byte {
	in := make([]byte, l)
	switch fill {
	case "ff":
		for i := range in {
			in[i] = 0xff
		}
	case "01":
		for i := 31; i < l; i += 32 {
			in[i] = 1
		}
	}
	return in
}

// executePrelen: k.PreAddr, k.Len, k.Fill, k.GasMode in {"zero","req-1","req","ample","reqonly"}.
func executePrelen(k *kase) (o obs) {
	p, ok := vm.PrecompiledContracts[common.HexToAddress(k.PreAddr)]
	if !ok {
		panic("harness: no precompile at " + k.PreAddr)
	}
	in := prelenInput(k.Fill, k.Len)
	var (
		ret  []byte
		left uint64
		err  error
	)
	o.Panicked, o.PanicVal, o.Site = try(func() {
		o.Req = p.RequiredGas(in)
		var gas uint64
		switch k.GasMode {
		case "reqonly":
			return
		case "zero":
			gas = 0
		case "req-1":
			if o.Req == 0 {
				o.Status = "skipped"
				return
			}
			gas = o.Req - 1
		case "req":
			gas = o.Req
		case "ample":
			gas = o.Req + 1000000
			if gas < o.Req {
				gas = ^uint64(0)
			}
		}
		o.Supplied = gas
		ret, left, err = vm.RunPrecompiledContract(p, in, gas)
	})
	o.Kind, o.GasLeft, o.RetLen = errKind(err), left, len(ret)
	if err != nil {
		o.ErrText = err.Error()
	}
	return o
}

func judgePrelen(k *kase, o obs) []finding {
	var fs []finding
	add := func(sig, msg string) { fs = append(fs, finding{sig, k.Part, msg}) }
	what := fmt.Sprintf("precompile %s, input of %d bytes filled %s, gas %s (RequiredGas %d)", k.PreAddr, k.Len, k.Fill, k.GasMode, o.Req)
	if o.Panicked {
		add("C11:panic:"+o.Site, fmt.Sprintf("host panic %q at %s (%s)", o.PanicVal, o.Site, what))
		return fs
	}
	if k.GasMode == "reqonly" || o.Status == "skipped" {
		return nil
	}
	if o.Supplied < o.Req {
		if o.Kind != "out-of-gas" || o.GasLeft != 0 {
			add("C11:precompile-runs-underpaid", fmt.Sprintf("%s: supplied %d < required, result err=%q gas left %d", what, o.Supplied, o.ErrText, o.GasLeft))
		}
		return fs
	}
	if o.Kind == "out-of-gas" {
		add("C11:precompile-refuses-paid-call", fmt.Sprintf("%s: supplied %d >= required but the call ran out of gas", what, o.Supplied))
		return fs
	}
	if o.GasLeft != o.Supplied-o.Req {
		add("C11:precompile-gas-charged-differs-from-required", fmt.Sprintf("%s: supplied %d, left %d", what, o.Supplied, o.GasLeft))
	}
	return fs
}

func (r *runner) partPrelen() {
	lens := prelenLengths()
	fills := []string{"00", "ff", "01"}
	addrs := precompileAddrs()
	r.c.Note("precompile_addresses_under_test", len(addrs))
	// direct: one (precompile, content) column per unit of sharding, so that RequiredGas can be followed along the lengths
	req := map[string]map[string][]uint64{} // addr -> fill -> RequiredGas per length (only for columns this worker ran all fills of)
	for _, a := range addrs {
		ah := hexAddr(a)
		if !r.mine() { // all three contents of one precompile stay together (content-independence is decided per precompile)
			continue
		}
		req[ah] = map[string][]uint64{}
		for _, fill := range fills {
			col := make([]uint64, len(lens))
			for i, l := range lens {
				if r.c.Expired() {
					r.stop = true
					return
				}
				base := kase{Part: "prelen", Fork: forkA, Entry: "prelen", PreAddr: ah, Len: l, Fill: fill}
				k0 := base
				k0.GasMode = "zero"
				o := r.run(&k0)
				col[i] = o.Req
				r.nontriv++
				if o.Panicked {
					continue
				}
				k1 := base
				k1.GasMode = "req-1"
				r.run(&k1)
				// executing the operation itself: only when its price says the work is small, plus zero-filled samples up to 3M gas
				if o.Req <= 200000 || (fill == "00" && o.Req <= 3000000 && l <= 65536) {
					k2 := base
					k2.GasMode = "req"
					r.run(&k2)
					k3 := base
					k3.GasMode = "ample"
					r.run(&k3)
				}
			}
			req[ah][fill] = col
		}
		// RequiredGas that does not depend on the content must not decrease when the input grows
		cols := req[ah]
		indep := true
		for i := range lens {
			indep = indep && cols["00"][i] == cols["ff"][i] && cols["00"][i] == cols["01"][i]
		}
		if indep {
			r.c.Outcome("prelen/length-priced")
			for i := 1; i < len(lens); i++ {
				if cols["00"][i] < cols["00"][i-1] {
					k := kase{Part: "prelen", Fork: forkA, Entry: "prelen-mono", PreAddr: ah, Len: lens[i], Len2: lens[i-1], Fill: "00"}
					r.runMono(&k)
				}
			}
		} else {
			r.c.Outcome("prelen/content-priced")
		}
	}
	// through STATICCALL from byte code (fresh memory = zero content), fixed allowance so that expensive operations stop at the price check
	for _, f := range []string{forkA, forkB} {
		oi := opInfo[f][vm.STATICCALL]
		for _, a := range addrs {
			for _, l := range lens {
				if l > 65536 {
					break
				}
				if !r.mine() {
					if r.stop {
						return
					}
					continue
				}
				for _, g := range []int64{0, 300000} {
					args := []*big.Int{big.NewInt(g), new(big.Int).SetBytes(a.Bytes()), big.NewInt(0), big.NewInt(int64(l)), big.NewInt(0), big.NewInt(32)}
					code := sandwich(oi, args, false, nil)
					r.run(&kase{Part: "prelen", Fork: f, Entry: "call", Code: hx(code), Gas: 100000000, Expect: "sandwich", Op: int(vm.STATICCALL), NArgs: len(args),
						Note: fmt.Sprintf("STATICCALL(gas %d) to precompile %s with %d zero input bytes", g, hexAddr(a), l)})
					r.nontriv++
				}
			}
		}
	}
	r.sample(kase{Part: "prelen", Fork: forkA, Entry: "prelen", PreAddr: "0x000000000000000000000000000000000000000c", Len: 160 * 129, Fill: "00", GasMode: "zero"})
}

// runMono re-evaluates RequiredGas at two lengths and reports a decrease (re-run = the replay path).
func (r *runner) runMono(k *kase) {
	a := *k
	a.Entry, a.GasMode = "prelen", "reqonly"
	b := a
	b.Len = k.Len2
	oa, ob := execute(&a), execute(&b)
	r.c.Eval(2)
	if oa.Panicked || ob.Panicked {
		return // reported by the length's own case
	}
	if k.Len > k.Len2 && oa.Req < ob.Req {
		r.c.Violation("C11:precompile-required-gas-decreases", "prelen",
			fmt.Sprintf("precompile %s prices by length only, yet RequiredGas falls from %d at %d bytes to %d at %d bytes", k.PreAddr, ob.Req, k.Len2, oa.Req, k.Len), k)
	}
}
