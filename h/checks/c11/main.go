// C11: EVM execution is total and resource-bounded.
//
// Bounded-exhaustive enumeration (engine E4) of programs, operand tuples, structural
// programs and precompile inputs, executed on the real interpreter of /repo through
// EVM.Call / EVM.StaticCall / EVM.Create / RunPrecompiledContract on a fresh copy of the
// dev-genesis head state per case.  See the Rule string in main() for the enumerated space.
package main

import (
	"bytes"
	"encoding/binary"
	"encoding/hex"
	"encoding/json"
	"fmt"
	"math/big"
	"os"
	"os/exec"
	"runtime/debug"
	"sort"
	"strings"
	"syscall"
	"time"

	"verif/h/asm"
	"verif/h/fw"
	"verif/h/node"

	"com.tuntun.rangers/node/src/common"
	crypto "com.tuntun.rangers/node/src/eth_crypto"
	"com.tuntun.rangers/node/src/storage/account"
	"com.tuntun.rangers/node/src/vm"
	"github.com/holiman/uint256"
)

// ---------------------------------------------------------------------------------------
// fixed universe
// ---------------------------------------------------------------------------------------

const (
	forkA = "A" // EVM height 2, chain height 2: every proposal active (custom opcodes, P022 opcodes, P026 gas x30)
	forkB = "B" // EVM height 0, chain height 0: everything except P026 (plain gas table)
)

var (
	origin = common.HexToAddress("0x2f4f09b722a6e5b77be17c9a99c785fa7035a09f") // funded in the dev genesis
	plainX = common.HexToAddress("0xc11c11c11c11c11c11c11c11c11c11c11c11c101") // contract under test
	minerX = common.HexToAddress("0x56b1fc865ad0c87f46f804145a861b38fcbafb99") // account of a genesis validator (STAKE family)

	one18  = new(big.Int).Exp(big.NewInt(10), big.NewInt(18), nil)
	max256 = new(big.Int).Sub(new(big.Int).Lsh(big.NewInt(1), 256), big.NewInt(1))
)

func pow2(n uint) *big.Int { return new(big.Int).Lsh(big.NewInt(1), n) }

// boundary alphabets of part "op"
func bset13() []*big.Int {
	return []*big.Int{big.NewInt(0), big.NewInt(1), big.NewInt(2), big.NewInt(31), big.NewInt(32), big.NewInt(33),
		big.NewInt(128), big.NewInt(65536), pow2(32), pow2(63), new(big.Int).Sub(pow2(64), big.NewInt(1)),
		new(big.Int).Set(one18), new(big.Int).Set(max256)}
}
func bset5() []*big.Int {
	return []*big.Int{big.NewInt(0), big.NewInt(1), big.NewInt(32), new(big.Int).Sub(pow2(32), big.NewInt(1)), new(big.Int).Set(max256)}
}
func bset2() []*big.Int { return []*big.Int{big.NewInt(0), new(big.Int).Set(max256)} }
func bset3() []*big.Int { return []*big.Int{big.NewInt(0), big.NewInt(1), new(big.Int).Set(max256)} }

// ---------------------------------------------------------------------------------------
// case record (also the replay format)
// ---------------------------------------------------------------------------------------

type kase struct {
	Part    string            `json:"part"`
	Fork    string            `json:"fork"`
	Entry   string            `json:"entry"`          // call | static | create | precompile | probe | bomb
	Self    string            `json:"self,omitempty"` // "" = plain contract address, "miner" = account of a genesis validator
	Bal     bool              `json:"bal,omitempty"`  // give the contract a balance of 100 coins (operations that move value)
	Code    string            `json:"code,omitempty"` // hex: runtime code (call/static) or init code (create)
	Input   string            `json:"input,omitempty"`
	Gas     uint64            `json:"gas"`
	Value   string            `json:"value,omitempty"`
	Expect  string            `json:"expect,omitempty"` // structural expectation, see judge()
	Note    string            `json:"note,omitempty"`
	Op      int               `json:"op,omitempty"`    // op under test (parts op / probe / bomb)
	NArgs   int               `json:"nargs,omitempty"` // pushes between the two readings of a sandwich
	Pre     int               `json:"pre,omitempty"`   // precompile number
	Stack   []string          `json:"stack,omitempty"` // probe: operand stack bottom first (hex)
	MemLen  uint64            `json:"memlen,omitempty"`
	Bound   uint64            `json:"bound,omitempty"`    // loop programs: iterations the gas limit can pay for
	Inner   string            `json:"inner,omitempty"`    // read-only family: kind of the inner call made before the write attempt
	Seq     *seqSpec          `json:"seq,omitempty"`      // part seq: the pair and its identities
	PreAddr string            `json:"pre_addr,omitempty"` // part prelen: precompile address, input length, filling, gas mode
	Len     int               `json:"len,omitempty"`
	Len2    int               `json:"len2,omitempty"`
	Fill    string            `json:"fill,omitempty"`
	GasMode string            `json:"gas_mode,omitempty"`
	To      string            `json:"to,omitempty"`    // top-level callee (hex address) when it is not the contract under test
	Extra   map[string]string `json:"extra,omitempty"` // further contracts: hex address -> hex code
}

type obs struct {
	Panicked bool   `json:"panicked,omitempty"`
	Site     string `json:"site,omitempty"`
	PanicVal string `json:"panic,omitempty"`
	Kind     string `json:"kind"` // "" success, else error class
	ErrText  string `json:"err,omitempty"`
	GasLeft  uint64 `json:"gas_left"`
	Ret      []byte `json:"-"`
	RetLen   int    `json:"ret_len"`
	NLogs    int    `json:"nlogs,omitempty"`
	Root0    string `json:"root0,omitempty"`
	Root1    string `json:"root1,omitempty"`
	RootBump string `json:"root_bump,omitempty"`
	// probe
	MemSize uint64 `json:"mem_size,omitempty"`
	DynGas  uint64 `json:"dyn_gas,omitempty"`
	Status  string `json:"status,omitempty"`
	// loop horizon
	Cancelled bool `json:"cancelled,omitempty"`
	// prelen
	Req      uint64 `json:"required_gas,omitempty"`
	Supplied uint64 `json:"supplied_gas,omitempty"`
}

func (o obs) key() string {
	return fmt.Sprintf("%v|%s|%s|%d|%x|%d|%s|%s|%d|%d|%s", o.Panicked, o.Site, o.Kind, o.GasLeft, o.Ret, o.NLogs, o.Root0, o.Root1, o.MemSize, o.DynGas, o.Status) + fmt.Sprint(o.Cancelled, o.Req, o.Supplied)
}

func errKind(err error) string {
	switch err {
	case nil:
		return ""
	case vm.ErrOutOfGas:
		return "out-of-gas"
	case vm.ErrCodeStoreOutOfGas:
		return "code-store-out-of-gas"
	case vm.ErrDepth:
		return "depth"
	case vm.ErrInsufficientBalance:
		return "insufficient-balance"
	case vm.ErrContractAddressCollision:
		return "address-collision"
	case vm.ErrExecutionReverted:
		return "reverted"
	case vm.ErrMaxCodeSizeExceeded:
		return "max-code-size"
	case vm.ErrInvalidJump:
		return "invalid-jump"
	case vm.ErrWriteProtection:
		return "write-protection"
	case vm.ErrReturnDataOutOfBounds:
		return "returndata-out-of-bounds"
	case vm.ErrGasUintOverflow:
		return "gas-uint-overflow"
	}
	switch err.(type) {
	case *vm.ErrStackUnderflow:
		return "stack-underflow"
	case *vm.ErrStackOverflow:
		return "stack-overflow"
	case *vm.ErrInvalidOpCode:
		return "invalid-opcode"
	}
	t := err.Error()
	if i := strings.IndexAny(t, ":0123456789"); i > 0 {
		t = t[:i]
	}
	return "other(" + strings.TrimSpace(t) + ")"
}

// ---------------------------------------------------------------------------------------
// execution on the real EVM
// ---------------------------------------------------------------------------------------

func forkHeight(f string) uint64 {
	if f == forkB {
		return 0
	}
	return 2
}

var curFork = ""

func setFork(f string) {
	if f != curFork {
		common.SetBlockHeight(forkHeight(f))
		curFork = f
	}
}

func target(self string) common.Address {
	if self == "miner" {
		return minerX
	}
	return plainX
}

func unhex(s string) []byte {
	b, err := hex.DecodeString(s)
	if err != nil {
		panic(err)
	}
	return b
}

func bigOf(s string) *big.Int {
	if s == "" {
		return new(big.Int)
	}
	v, ok := new(big.Int).SetString(s, 10)
	if !ok {
		panic("bad decimal " + s)
	}
	return v
}

// freshState opens the head state and installs the contract under test.
func freshState(k *kase) *account.AccountDB {
	st := node.LatestState()
	if k.Entry == "call" || k.Entry == "static" {
		x := target(k.Self)
		st.SetCode(x, unhex(k.Code))
		if k.Bal {
			st.SetBalance(x, new(big.Int).Mul(big.NewInt(100), one18))
		}
		for _, a := range extraKeys(k) {
			st.SetCode(common.HexToAddress(a), unhex(k.Extra[a]))
		}
	}
	return st
}

func extraKeys(k *kase) []string {
	ks := make([]string, 0, len(k.Extra))
	for a := range k.Extra {
		ks = append(ks, a)
	}
	sort.Strings(ks)
	return ks
}

func callee(k *kase) common.Address {
	if k.To != "" {
		return common.HexToAddress(k.To)
	}
	return target(k.Self)
}

var bumpRootCache = map[string]string{}
var root0Cache = map[string]string{}

// rootAfterNonceBump is the state root of the case's initial state with only the
// creator's nonce incremented (what a failed top-level Create may legitimately leave).
func rootAfterNonceBump(k *kase) string {
	if r, ok := bumpRootCache[k.Fork]; ok {
		return r
	}
	st := freshState(k)
	st.SetNonce(origin, st.GetNonce(origin)+1)
	r := st.IntermediateRoot(true).Hex()
	bumpRootCache[k.Fork] = r
	return r
}

func execute(k *kase) (o obs) {
	setFork(k.Fork)
	switch k.Entry {
	case "precompile":
		var pa common.Address
		pa[19] = byte(k.Pre)
		p, okp := vm.PrecompiledContracts[pa]
		if !okp {
			panic(fmt.Sprintf("harness: no precompile %d", k.Pre))
		}
		in := unhex(k.Input)
		var ret []byte
		var left uint64
		var err error
		o.Panicked, o.PanicVal, o.Site = try(func() { ret, left, err = vm.RunPrecompiledContract(p, in, k.Gas) })
		o.Kind, o.GasLeft, o.Ret, o.RetLen = errKind(err), left, ret, len(ret)
		if err != nil {
			o.ErrText = err.Error()
		}
		return o
	case "probe":
		return probe(k)
	case "prelen":
		return executePrelen(k)
	}
	st := freshState(k)
	// the root of the prepared state depends only on (entry kind, address, code); it is hashed once per such key
	rk := k.Entry
	if k.Entry != "create" {
		rk = fmt.Sprintf("x|%s|%v|%s", k.Self, k.Bal, k.Code)
		for _, a := range extraKeys(k) {
			rk += "|" + a + "=" + k.Extra[a]
		}
	}
	if r0, ok := root0Cache[rk]; ok {
		o.Root0 = r0
	} else {
		o.Root0 = st.IntermediateRoot(true).Hex()
		if len(root0Cache) > 2048 {
			root0Cache = map[string]string{}
		}
		root0Cache[rk] = o.Root0
	}
	evm := node.NewEVM(st, origin, forkHeight(k.Fork), k.Gas)
	if k.Expect == "loop-bound" {
		// safety horizon only: the loop program counts its own iterations and leaves by itself when it
		// exceeds what the gas limit can pay for; EVM.Cancel stops an interpreter that would still spin
		t := time.AfterFunc(90*time.Second, evm.Cancel)
		defer func() { t.Stop(); o.Cancelled = evm.Cancelled() }()
	}
	var (
		ret  []byte
		left uint64
		nlog int
		err  error
	)
	input := unhex(k.Input)
	value := bigOf(k.Value)
	o.Panicked, o.PanicVal, o.Site = try(func() {
		switch k.Entry {
		case "call":
			r, l, lg, e := evm.Call(vm.AccountRef(origin), callee(k), input, k.Gas, value)
			ret, left, nlog, err = r, l, len(lg), e
		case "static":
			r, l, lg, e := evm.StaticCall(vm.AccountRef(origin), callee(k), input, k.Gas)
			ret, left, nlog, err = r, l, len(lg), e
		case "create":
			r, _, l, lg, e := evm.Create(vm.AccountRef(origin), unhex(k.Code), k.Gas, value)
			ret, left, nlog, err = r, l, len(lg), e
		default:
			panic("harness: unknown entry " + k.Entry)
		}
	})
	o.Kind, o.GasLeft, o.Ret, o.RetLen, o.NLogs = errKind(err), left, ret, len(ret), nlog
	if err != nil {
		o.ErrText = err.Error()
	}
	if !o.Panicked && (err != nil || k.Entry == "static" || strings.HasPrefix(k.Expect, "ro-")) {
		var r1 common.Hash
		p, v, site := try(func() { r1 = st.IntermediateRoot(true) })
		if p {
			o.Panicked, o.PanicVal, o.Site = true, v, "root-after:"+site
		} else {
			o.Root1 = r1.Hex()
		}
	}
	return o
}

// try converts a panic into an observation.  The site is the function the interpreter
// loop called (the opcode handler or gas function: the frame directly above
// EVMInterpreter.Run), falling back to the first repository frame below the panic.
func try(f func()) (panicked bool, val string, site string) {
	defer func() {
		if r := recover(); r != nil {
			st := debug.Stack()
			panicked, val = true, fmt.Sprint(r)
			site = handlerSite(st)
			if site == "" {
				site = shortSite(fw.PanicSite(st))
			}
		}
	}()
	f()
	return
}

func handlerSite(stack []byte) string {
	lines := strings.Split(string(stack), "\n")
	seenPanic := false
	prev := ""
	for _, l := range lines {
		if strings.HasPrefix(l, "panic(") {
			seenPanic = true
			continue
		}
		if !seenPanic || strings.HasPrefix(l, "\t") || l == "" {
			continue
		}
		fn := l
		if k := strings.LastIndex(fn, "("); k > 0 {
			fn = fn[:k]
		}
		if strings.HasSuffix(fn, "vm.(*EVMInterpreter).Run") {
			if prev == "" || strings.HasPrefix(prev, "runtime.") {
				return "vm.(*EVMInterpreter).Run"
			}
			s := shortSite(prev)
			// closures of table constructors: vm.makeLog.func1 -> vm.makeLog
			for {
				i := strings.LastIndex(s, ".")
				if i < 0 {
					break
				}
				t := s[i+1:]
				if strings.HasPrefix(t, "func") && strings.Trim(t[4:], "0123456789") == "" {
					s = s[:i]
					continue
				}
				break
			}
			return s
		}
		prev = fn
	}
	return ""
}

func shortSite(s string) string {
	// "vm.opAuth" style: drop the module path and a closure/receiver decoration kept by fw
	if i := strings.LastIndex(s, "/"); i >= 0 {
		s = s[i+1:]
	}
	return s
}

// ---------------------------------------------------------------------------------------
// jump table (through the verif hook) and program builders
// ---------------------------------------------------------------------------------------

var tables = map[string][]vm.VerifOpInfo{}
var opInfo = map[string]map[vm.OpCode]vm.VerifOpInfo{}

func loadTables() {
	for _, f := range []string{forkA, forkB} {
		setFork(f)
		st := node.LatestState()
		evm := node.NewEVM(st, origin, forkHeight(f), 0)
		t := vm.VerifJumpTable(evm)
		if len(t) < 100 {
			panic("harness: jump table hook returned too few operations")
		}
		opInfo[f] = map[vm.OpCode]vm.VerifOpInfo{}
		for i := range t {
			if n, ok := customNames[t[i].Op]; ok && strings.HasPrefix(t[i].Name, "opcode ") {
				t[i].Name = n
			}
			opInfo[f][t[i].Op] = t[i]
		}
		tables[f] = t
	}
}

// the repository's OpCode.String() has no names for its own opcodes
var customNames = map[vm.OpCode]string{vm.PRINTF: "PRINTF", vm.STAKE: "STAKE", vm.UNSTAKE: "UNSTAKE", vm.GETSTAKE: "GETSTAKE",
	vm.UNSTAKEALL: "UNSTAKEALL", vm.STAKENUM: "STAKENUM", vm.AUTH: "AUTH", vm.AUTHCALL: "AUTHCALL"}

func nameOf(op vm.OpCode) string {
	if n, ok := customNames[op]; ok {
		return n
	}
	return op.String()
}

func isPushN(op vm.OpCode) bool { return op >= vm.PUSH1 && op <= vm.PUSH32 }

var ff32 = bytes.Repeat([]byte{0xff}, 32)

// sandwich builds:  [MSTORE(0,ff..ff)]  GAS MSIZE  <push args>  OP  GAS MSIZE  epilogue
// The epilogue returns 160 bytes: g1, m1, g2, m2, first result of OP.
// args[0] is the top of the stack when OP executes.
func sandwich(oi vm.VerifOpInfo, args []*big.Int, mem32 bool, prefix []byte) []byte {
	p := asm.New()
	p.Raw(prefix...)
	if mem32 {
		p.PushN(32, ff32).Push(0).Op(vm.MSTORE)
	}
	p.Op(vm.GAS, vm.MSIZE)
	for i := len(args) - 1; i >= 0; i-- {
		p.Push(args[i])
	}
	p.Op(oi.Op)
	if isPushN(oi.Op) {
		p.Raw(bytes.Repeat([]byte{0xfe}, int(oi.Op-vm.PUSH1)+1)...)
	}
	p.Op(vm.GAS, vm.MSIZE)
	p.Push(0x60).Op(vm.MSTORE)
	p.Push(0x40).Op(vm.MSTORE)
	for i := 0; i < oi.Pushes; i++ {
		if i == 0 {
			p.Push(0x80).Op(vm.MSTORE)
		} else {
			p.Op(vm.POP)
		}
	}
	p.Push(0x20).Op(vm.MSTORE)
	p.Push(0x00).Op(vm.MSTORE)
	p.Push(0xa0).Push(0).Op(vm.RETURN)
	return p.Bytes()
}

// memFee is the Yellow-Paper memory cost of w words.
func memFee(w uint64) *big.Int {
	x := new(big.Int).SetUint64(w)
	q := new(big.Int).Mul(x, x)
	q.Div(q, big.NewInt(512))
	return q.Add(q, new(big.Int).Mul(x, big.NewInt(3)))
}

func u64At(b []byte, word int) (uint64, bool) {
	w := b[word*32 : word*32+32]
	for _, x := range w[:24] {
		if x != 0 {
			return 0, false
		}
	}
	return binary.BigEndian.Uint64(w[24:]), true
}

// ---------------------------------------------------------------------------------------
// oracles
// ---------------------------------------------------------------------------------------

type finding struct{ sig, part, msg string }

var stats struct{ readings, growth, probesGrowth int64 }

func opName(f string, op int) string {
	if oi, ok := opInfo[f][vm.OpCode(op)]; ok {
		return oi.Name
	}
	return fmt.Sprintf("0x%02x", op)
}

// judge applies every oracle of the property that is decidable from one execution.
func judge(k *kase, o obs) []finding {
	var fs []finding
	add := func(sig, msg string) { fs = append(fs, finding{sig, k.Part, msg}) }
	if k.Entry == "prelen" {
		return judgePrelen(k, o)
	}
	if o.Panicked {
		add("C11:panic:"+o.Site, fmt.Sprintf("host panic %q at %s while executing contract code (%s)", o.PanicVal, o.Site, k.Note))
		return fs
	}
	if k.Entry == "probe" {
		return judgeProbe(k, o)
	}
	// gas bound
	if o.GasLeft > k.Gas {
		add("C11:gas-left-exceeds-limit:"+k.Entry, fmt.Sprintf("gas left %d > gas limit %d (err=%q)", o.GasLeft, k.Gas, o.ErrText))
	}
	if k.Entry == "precompile" {
		return fs
	}
	failed := o.Kind != ""
	// every failure is an ordinary failed call: state reverted ...
	if failed && o.Root1 != "" {
		okRoot := o.Root1 == o.Root0
		if !okRoot && k.Entry == "create" {
			okRoot = o.Root1 == rootAfterNonceBump(k)
		}
		if !okRoot {
			add("C11:fail-state-not-reverted:"+k.Entry+":"+o.Kind,
				fmt.Sprintf("%s failed with %q but the state root changed %s -> %s (gas left %d of %d)", k.Entry, o.ErrText, o.Root0, o.Root1, o.GasLeft, k.Gas))
			return fs
		}
	}
	// ... and, unless it is REVERT or a pre-execution refusal, all gas consumed (interpreter.go:107-109, evm.go:101-106)
	if failed && o.Kind != "reverted" && o.Kind != "insufficient-balance" && o.Kind != "depth" && o.GasLeft != 0 {
		add("C11:fail-keeps-gas:"+k.Entry, fmt.Sprintf("%s failed with %q and kept %d of %d gas", k.Entry, o.ErrText, o.GasLeft, k.Gas))
	}
	// a read-only frame either fails or leaves the state alone
	if k.Entry == "static" && !failed && o.Root1 != "" && o.Root1 != o.Root0 && !strings.HasPrefix(k.Expect, "ro-") {
		add("C11:static-write:"+staticWriter(k), fmt.Sprintf("STATICCALL frame succeeded and changed the state root %s -> %s (%s)", o.Root0, o.Root1, k.Note))
	}
	switch k.Expect {
	case "stack-ok":
		if o.Kind == "stack-overflow" {
			add("C11:stack-limit:early-overflow", fmt.Sprintf("stack overflow reported although the stack stays within 1024 items (%s): %s", k.Note, o.ErrText))
		}
	case "stack-overflow":
		if o.Kind != "stack-overflow" {
			add("C11:stack-limit:exceeds-1024", fmt.Sprintf("operand stack grew beyond 1024 items without a stack fault (%s): err=%q", k.Note, o.ErrText))
		}
	case "depth-ret":
		if !failed && len(o.Ret) == 32 {
			if d, ok := u64At(o.Ret, 0); !ok || d > 1024 {
				add("C11:call-depth-exceeds-1024:"+k.Note, fmt.Sprintf("nested %s reached frame depth %d (>1024 below the top-level frame)", k.Note, d))
			}
		}
	case "inner-create-value":
		if !failed && len(o.Ret) == 96 {
			b1 := new(big.Int).SetBytes(o.Ret[0:32])
			res := new(big.Int).SetBytes(o.Ret[32:64])
			b2 := new(big.Int).SetBytes(o.Ret[64:96])
			if res.Sign() == 0 && b1.Cmp(b2) != 0 {
				add("C11:fail-state-not-reverted:CREATE-opcode", fmt.Sprintf("CREATE returned 0 (failed) but the creator's balance went from %s to %s: the failed frame's value transfer was not reverted (%s)", b1, b2, k.Note))
			}
		}
	case "loop-bound":
		if o.Cancelled {
			add("C11:loop-not-bounded-by-gas:"+opName(k.Fork, k.Op), fmt.Sprintf("the loop JUMPDEST %s POP ... JUMP was still running after the safety horizon with gas limit %d", k.Note, k.Gas))
		} else if !failed && len(o.Ret) == 32 {
			n, _ := u64At(o.Ret, 0)
			add("C11:loop-not-bounded-by-gas:"+opName(k.Fork, k.Op), fmt.Sprintf("the loop JUMPDEST %s POP ... JUMP ran %d iterations with gas limit %d although the constant gas of one iteration allows at most %d (gas left %d): execution is not bounded by the gas supplied",
				k.Note, n, k.Gas, k.Bound, o.GasLeft))
		}
	case "ro-direct": // evm.StaticCall straight into the frame that attempts the write
		if o.Kind != "write-protection" {
			add("C11:readonly-write-not-refused:"+roSubject(k), fmt.Sprintf("a write attempt in a read-only frame did not fail with write protection: err=%q, %d logs (%s)", o.ErrText, o.NLogs, k.Note))
		}
	case "ro-wrapped": // the writing frame is entered by a STATICCALL of a wrapper that returns (flag, gas before, gas after)
		if !failed && len(o.Ret) == 96 {
			flag, _ := u64At(o.Ret, 0)
			g1, _ := u64At(o.Ret, 1)
			g2, _ := u64At(o.Ret, 2)
			switch {
			case flag == 1 || o.NLogs != 0:
				add("C11:readonly-write-not-refused:"+roSubject(k), fmt.Sprintf("STATICCALL into a frame that attempts a write reported success (flag %d, %d logs) (%s)", flag, o.NLogs, k.Note))
			case flag == 0 && g2 > g1/64:
				add("C11:readonly-fault-keeps-gas:"+roSubject(k), fmt.Sprintf("the frame refused for write protection gave gas back: caller had %d before and %d after forwarding all but 1/64 (%s)", g1, g2, k.Note))
			}
			if flag != 1 && o.NLogs == 0 && o.Root1 != "" && o.Root1 != o.Root0 {
				add("C11:static-write:"+roSubject(k), fmt.Sprintf("state root changed %s -> %s although every write happened under a STATICCALL (%s)", o.Root0, o.Root1, k.Note))
			}
		}
	case "jump-ok":
		if failed {
			add("C11:jump-analysis:valid-jumpdest-rejected", fmt.Sprintf("jump to a real JUMPDEST failed with %q (%s)", o.ErrText, k.Note))
		}
	case "jump-bad":
		if o.Kind != "invalid-jump" {
			add("C11:jump-analysis:jump-into-push-data-accepted", fmt.Sprintf("jump into the data bytes of a PUSH did not fail with an invalid jump destination: err=%q (%s)", o.ErrText, k.Note))
		}
	case "depth-logs":
		if o.NLogs > 1025 {
			add("C11:call-depth-exceeds-1024:"+k.Note, fmt.Sprintf("nested %s ran %d frames (>1025 including the top-level frame)", k.Note, o.NLogs))
		}
	}
	if strings.HasPrefix(k.Expect, "sandwich") && !failed && len(o.Ret) == 160 {
		fs = append(fs, judgeSandwich(k, o)...)
	}
	return fs
}

// roSubject names what a read-only violation is attributed to: the write operation itself when
// the frame does nothing else, the kind of inner call when the refusal is lost after one.
func roSubject(k *kase) string {
	if k.Inner != "" {
		return "after-" + k.Inner
	}
	return opName(k.Fork, k.Op)
}

func staticWriter(k *kase) string {
	if k.Inner != "" {
		return roSubject(k)
	}
	if k.Op != 0 {
		return opName(k.Fork, k.Op)
	}
	return "code:" + k.Code
}

func judgeSandwich(k *kase, o obs) []finding {
	var fs []finding
	g1, ok1 := u64At(o.Ret, 0)
	m1, ok2 := u64At(o.Ret, 1)
	g2, ok3 := u64At(o.Ret, 2)
	m2, ok4 := u64At(o.Ret, 3)
	if !(ok1 && ok2 && ok3 && ok4) || g1 > k.Gas || m1 > 1<<20 || m1%32 != 0 || m2%32 != 0 {
		return nil // the program was not the sandwich (e.g. the op consumed the epilogue)
	}
	name := opName(k.Fork, k.Op)
	stats.readings++
	if g2 > g1 {
		fs = append(fs, finding{"C11:gas-increases-in-frame:" + name, k.Part,
			fmt.Sprintf("GAS read %d before and %d after %s in the same frame (%s)", g1, g2, name, k.Note)})
		return fs
	}
	if m2 > m1 {
		stats.growth++
		t := opInfo[k.Fork]
		consts := t[vm.MSIZE].ConstGas + t[vm.GAS].ConstGas + uint64(k.NArgs)*t[vm.PUSH1].ConstGas
		charged := new(big.Int).SetUint64(g1 - g2)
		charged.Sub(charged, new(big.Int).SetUint64(consts))
		need := new(big.Int).Sub(memFee(m2/32), memFee(m1/32))
		if charged.Cmp(need) < 0 {
			fs = append(fs, finding{"C11:memory-growth-undercharged:" + gasFnName(t[vm.OpCode(k.Op)]), k.Part,
				fmt.Sprintf("%s grew memory from %d to %d bytes for %s gas, below 3*dw + d(w^2/512) = %s (%s)", name, m1, m2, charged, need, k.Note)})
		}
	}
	return fs
}

// ---------------------------------------------------------------------------------------
// gas-function probe (no memory is allocated): memorySize + dynamicGas as the interpreter
// evaluates them before Resize/execute.
// ---------------------------------------------------------------------------------------

func probe(k *kase) obs {
	setFork(k.Fork)
	var o obs
	st := node.LatestState()
	evm := node.NewEVM(st, origin, forkHeight(k.Fork), k.Gas)
	contract := vm.NewContract(vm.AccountRef(origin), vm.AccountRef(plainX), new(big.Int), k.Gas)
	stack := make([]uint256.Int, len(k.Stack))
	for i, s := range k.Stack {
		v, _ := new(big.Int).SetString(s, 16)
		u, _ := uint256.FromBig(v)
		stack[i] = *u
	}
	o.Panicked, o.PanicVal, o.Site = try(func() {
		o.MemSize, o.DynGas, o.Status = vm.VerifGasProbe(evm, contract, vm.OpCode(k.Op), stack, k.MemLen)
	})
	return o
}

// gasFnName names the dynamic-gas function of an operation independent of the closure
// numbering of the compiler: "vm.memoryCopierGas", "vm.makeGasLog", "vm.gasSha3", ...
func gasFnName(oi vm.VerifOpInfo) string {
	fn := oi.DynGasFn
	if fn == "" {
		return "no-dynamic-gas:" + oi.Name
	}
	if i := strings.LastIndex(fn, "/"); i >= 0 {
		fn = fn[i+1:]
	}
	parts := strings.Split(fn, ".")
	last := ""
	for _, p := range parts[1:] {
		isClosure := strings.HasPrefix(p, "func") && len(p) > 4 && strings.Trim(p[4:], "0123456789") == ""
		if !isClosure {
			last = p
		}
	}
	if last == "" {
		return fn
	}
	return parts[0] + "." + last
}

func judgeProbe(k *kase, o obs) []finding {
	if o.Status != "ok" {
		return nil
	}
	old := (k.MemLen + 31) / 32
	nw := o.MemSize / 32
	if nw <= old {
		return nil
	}
	stats.probesGrowth++
	need := new(big.Int).Sub(memFee(nw), memFee(old))
	if new(big.Int).SetUint64(o.DynGas).Cmp(need) >= 0 {
		return nil
	}
	oi := opInfo[k.Fork][vm.OpCode(k.Op)]
	fn := gasFnName(oi)
	return []finding{{"C11:memory-growth-undercharged:" + fn, k.Part,
		fmt.Sprintf("%s with stack %v (memory %d B) would grow memory to %d bytes (%d words) for a dynamic gas of %d, below 3*dw + d(w^2/512) = %s; the interpreter then calls Memory.Resize(%d)",
			oi.Name, k.Stack, k.MemLen, o.MemSize, nw, o.DynGas, need, o.MemSize)}}
}

// ---------------------------------------------------------------------------------------
// sandboxed child: executes one case in a separate process with a small address-space
// limit, so that an unrecoverable runtime fatal (out of memory, stack exhaustion) becomes
// an observation.  Used only to confirm an under-charged huge memory growth.
// ---------------------------------------------------------------------------------------

const childAS = 3 << 30

func childMain() {
	lim := syscall.Rlimit{Cur: childAS, Max: childAS}
	syscall.Setrlimit(syscall.RLIMIT_AS, &lim)
	var k kase
	if err := json.Unmarshal([]byte(os.Getenv("C11_CHILD_CASE")), &k); err != nil {
		fmt.Println("CHILD-INFRA bad case", err)
		os.Exit(3)
	}
	if err := node.Boot(node.ForksAllOn, true); err != nil {
		fmt.Println("CHILD-INFRA boot", err)
		os.Exit(3)
	}
	o := execute(&k)
	b, _ := json.Marshal(o)
	fmt.Println("CHILD-RESULT " + string(b))
	os.Exit(0)
}

// runChild returns (obs, "") when the child finished, or ("", fatal line) when it died.
func runChild(c *fw.Ctx, k *kase) (obs, string, error) {
	exe, err := os.Executable()
	if err != nil {
		return obs{}, "", err
	}
	dir, err := os.MkdirTemp(c.Scratch, "child-")
	if err != nil {
		return obs{}, "", err
	}
	defer os.RemoveAll(dir)
	kb, _ := json.Marshal(k)
	cmd := exec.Command(exe)
	cmd.Dir = dir
	cmd.Env = append(os.Environ(), "C11_CHILD=1", "C11_CHILD_CASE="+string(kb))
	var out bytes.Buffer
	cmd.Stdout = &out
	cmd.Stderr = &out
	done := make(chan error, 1)
	if err := cmd.Start(); err != nil {
		return obs{}, "", err
	}
	go func() { done <- cmd.Wait() }()
	select {
	case <-done:
	case <-time.After(120 * time.Second):
		cmd.Process.Kill()
		<-done
		return obs{}, "", fmt.Errorf("child timed out")
	}
	s := out.String()
	if i := strings.Index(s, "CHILD-RESULT "); i >= 0 {
		var o obs
		line := s[i+len("CHILD-RESULT "):]
		if j := strings.Index(line, "\n"); j >= 0 {
			line = line[:j]
		}
		if err := json.Unmarshal([]byte(line), &o); err != nil {
			return obs{}, "", err
		}
		return o, "", nil
	}
	if strings.Contains(s, "CHILD-INFRA") {
		return obs{}, "", fmt.Errorf("child infrastructure failure: %s", s)
	}
	if i := strings.Index(s, "fatal error:"); i >= 0 {
		line := s[i:]
		if j := strings.Index(line, "\n"); j >= 0 {
			line = line[:j]
		}
		return obs{}, line, nil
	}
	if len(s) > 400 {
		s = s[len(s)-400:]
	}
	return obs{}, "", fmt.Errorf("child died without verdict: %s", s)
}

// ---------------------------------------------------------------------------------------
// driver
// ---------------------------------------------------------------------------------------

type runner struct {
	c       *fw.Ctx
	idx     int64
	n       int64
	nontriv int64
	stop    bool
	parts   map[string]bool
}

func (r *runner) on(part string) bool {
	if r.stop {
		return false
	}
	if len(r.parts) == 0 {
		return true
	}
	return r.parts[part]
}

// mine advances the running case number and tells whether this worker handles it.
func (r *runner) mine() bool {
	r.idx++
	if r.idx&1023 == 0 && r.c.Expired() {
		r.stop = true
	}
	return !r.stop && r.c.Mine(r.idx)
}

// run executes one case, judges it, re-runs it when an oracle fails and records it.
func (r *runner) run(k *kase) obs {
	o := execute(k)
	r.n++
	r.c.Eval(1)
	cls := o.Kind
	if o.Panicked {
		cls = "panic"
	} else if cls == "" {
		cls = "ok"
	}
	if k.Entry == "probe" {
		cls = o.Status
		if strings.HasPrefix(cls, "err:") {
			cls = "err"
		}
	}
	r.c.Outcome(k.Part + "/" + k.Entry + ":" + cls)
	fs := judge(k, o)
	if len(fs) > 0 {
		o2 := execute(k)
		if o2.key() != o.key() {
			r.c.Violation("C11:nondeterministic-execution", k.Part,
				fmt.Sprintf("two executions of the same case differ: %+v vs %+v", o, o2), k)
			return o
		}
		for _, f := range fs {
			r.c.Violation(f.sig, f.part, f.msg, k)
		}
	}
	return o
}

func hx(b []byte) string { return hex.EncodeToString(b) }

func main() {
	if os.Getenv("C11_CHILD") == "1" {
		childMain()
		return
	}
	fw.Main(fw.Check{
		ID: "C11", Level: "exploration",
		Rule: "bounded-exhaustive enumeration on the real interpreter (EVM.Call / StaticCall / Create, RunPrecompiledContract), fresh dev-genesis head state per case, two jump tables A = all proposals on (custom opcodes, P022 opcodes, P026 gas x30) and B = pre-P026: " +
			"(code) every byte string of length <=2 as contract code x gas {0,1,2300,1e5,1e7} x {Call, StaticCall} x {A,B}; thorough adds every 3-byte code x gas {2300,1e7} x {A,B}; " +
			"(op) for every operation of the jump table (PRINTF, STAKE family, AUTH, AUTHCALL, P022 opcodes included) every operand tuple over a 13-value boundary set (<=4 operands) or a 5-value set (5-9 operands; DUP/SWAP and un-authorized AUTHCALL 2-3 values), " +
			"program = [MSTORE 32 B] GAS MSIZE <args> OP GAS MSIZE + epilogue returning the readings, contract at a plain address and (STAKE family) at a genesis validator's account; variants quick: A x {Call/empty, Call/32B} for all, + A x StaticCall/32B and B x Call/32B for operations with <=4 operands, thorough: {A,B} x {Call,StaticCall} x {empty,32B}; " +
			"plus AUTH with a valid signature followed by every AUTHCALL tuple (3 values quick, 5 values thorough); " +
			"(stack) for every operation with net stack growth the two stack heights around the 1024 limit, and 1023/1024/1025 pushes; " +
			"(depth) self-recursive CALL/CALLCODE/DELEGATECALL/STATICCALL/AUTHCALL/CREATE/CREATE2 x gas {1e7,9e8,1e14,1e16} x {Call,StaticCall}, depth read back from return data / log count; " +
			"(value) CALL/CALLCODE/AUTHCALL (plain and authorized)/CREATE/CREATE2 with the value operand over {0,1,2^255-1,2^255,2^256-1} x gas {0,max} x target {0, precompile 1, funded account} x in/out size {0,32} on both tables, each as the sandwich (memory empty/32B) and as a self-counting loop JUMPDEST <args> OP POP .. JUMP that must run out of gas before it exceeds gasLimit/(constant gas of one iteration) iterations; " +
			"(jump) jump-analysis boundary programs PUSH1 t JUMP | PUSH1 1 PUSH1 t JUMPI, STOP filler, JUMPDEST after the header and before the tail, tail PUSHn (n in {none,1,2,7,8,9,15,16,17,24,31,32}) with k in {0,1,n-1,n} data bytes 0x5b, every total length 6..72, targets = both real JUMPDESTs (must succeed) and the first/last push-data byte (must be an invalid jump), as contract code and as init code; " +
			"(readonly) for every write-class operation of the jump table (writes flag, TSTORE, CALL with value) a frame [inner STATICCALL/CALL/DELEGATECALL/CALLCODE to {returning contract, reverting contract, codeless account, precompile} or none]; OP(1,..) entered by evm.StaticCall directly, and by STATICCALL from wrappers at static nesting 1 and 2 (entered through evm.StaticCall and through evm.Call), on both tables: the frame must fail with write protection, return no gas, no logs, state root unchanged; " +
			"(seq) non-initial state: every ordered pair (X,Y) of a 14-code fault alphabet (valid/invalid jumps in short and long codes whose classification of offset 96 differs, jump into push data, jump beyond code, JUMPI, stack under/overflow, invalid opcode, out of gas, revert, store, return) x identities {CALL to deployed code, CREATE init code, CREATE2 init code}^2 x driver entered by evm.Call or as constructor by evm.Create, both tables: Y after X in one top-level call must give the flag, return data and (CALL) gas cost of Y run first in a fresh EVM, and a failed Y the state of X followed by a canonical failing frame; " +
			"(prelen) every address of the VM's precompile map x input lengths {0..260} u {u*k+d: u in {32,64,96,128,160,192,213,256,288,384,416,512}, k in {1,2,3,16,127,128,129,130,255,256,257,1024}, d in {-1,0,1}} x contents {zero, 0xff, 0x01-pattern}: RequiredGas, RunPrecompiledContract with gas 0 and RequiredGas-1 (must be out of gas), with RequiredGas and ample gas when the price is <=200k (zero content <=3M) (gas charged must equal RequiredGas), length-only prices must not decrease with the length, and STATICCALL(gas 0 / 300000) with every length <=64 KiB from byte code on both tables; " +
			"(create) every init code of length <=2 through Create (gas set), CREATE and CREATE2 (sandwich), code-deposit programs for every gas limit in a dense range through Create and through CREATE with an endowment; " +
			"(pre) each of the 18 precompiles x every input of length <=2 x gas set, modexp length-field triples over a 15-value set x 5 payloads, blake2f rounds/flag/length, 33 boundary lengths x 3 fillings, and CALL/STATICCALL/DELEGATECALL to each precompile with boundary in/out sizes; " +
			"(gasfn) memorySize+dynamicGas of every memory-touching operation evaluated through a hook without allocating: every (offset,length) pair over a 17-value set up to 2^256-1 x other operands {0,1,max} x memory {0,32B}, and a 2^25-byte grid of offsets/lengths up to 2^37 with bisection at every decrease, the cheapest huge growth found is executed in a sandboxed child process. " +
			"Cases are distinct by construction (program bytes x gas x entry x table); non-trivial = non-empty code or input.",
		Assumptions: []string{
			"the accept-all consensus stub and the dev genesis state are an adequate environment for EVM execution",
			"the harness assembler and the sandwich epilogue (MSTORE/RETURN of the readings) behave as specified; a reading is only used when the call succeeded and returned exactly 160 bytes",
			"memory-growth lower bound is the Yellow-Paper formula 3*dw + d(w^2/512) without the P026 magnification (a weaker demand than the implementation's own table)",
			"programs longer than 3 bytes outside the structural families, and wall-clock cost of legitimately expensive precompiles, are outside the bound",
		},
		Run: run, Replay: replay,
		Budget: func(t string) time.Duration {
			if t == "thorough" {
				return 16 * time.Minute
			}
			return 100 * time.Second
		},
	})
}

func cpuMillis() int64 {
	var ru syscall.Rusage
	syscall.Getrusage(syscall.RUSAGE_SELF, &ru)
	return (ru.Utime.Sec+ru.Stime.Sec)*1000 + int64(ru.Utime.Usec+ru.Stime.Usec)/1000
}

func setup() {
	lim := syscall.Rlimit{Cur: 8 << 30, Max: 8 << 30}
	syscall.Setrlimit(syscall.RLIMIT_AS, &lim)
	debug.SetMaxStack(512 << 20)
	if err := node.Boot(node.ForksAllOn, true); err != nil {
		panic(err)
	}
	common.SetBlockHeight(2)
	loadTables()
}

func replay(c *fw.Ctx, raw json.RawMessage) {
	var k kase
	if err := json.Unmarshal(raw, &k); err != nil {
		panic(err)
	}
	setup()
	r := &runner{c: c}
	if k.Entry == "bomb" {
		r.bomb(&k)
		return
	}
	if k.Entry == "seq" {
		r.runSeq(k.Fork, k.Seq)
		return
	}
	if k.Entry == "prelen-mono" {
		r.runMono(&k)
		return
	}
	r.run(&k)
}

func run(c *fw.Ctx) {
	setup()
	r := &runner{c: c, parts: map[string]bool{}}
	for _, p := range strings.Split(os.Getenv("C11_PARTS"), ",") {
		if p != "" {
			r.parts[p] = true
		}
	}
	type part struct {
		name string
		f    func()
	}
	parts := []part{
		{"gasfn", r.partGasFn},
		{"stack", r.partStack},
		{"depth", r.partDepth},
		{"value", r.partValue},
		{"jump", r.partJump},
		{"readonly", r.partReadOnly},
		{"seq", r.partSeq},
		{"prelen", r.partPrelen},
		{"create", r.partCreate},
		{"pre", r.partPrecompiles},
		{"code", r.partCode},
		{"op", r.partOps},
		{"code3", r.partCode3},
	}
	for _, p := range parts {
		if !r.on(p.name) {
			continue
		}
		t0 := cpuMillis()
		n0 := r.n
		p.f()
		c.Count("cases_"+p.name, r.n-n0)
		c.Count("cpu_ms_"+p.name, cpuMillis()-t0)
		if r.stop {
			c.Cap("time budget reached in part " + p.name)
			break
		}
	}
	c.NontrivialN(r.nontriv)
	c.Count("sandwich_gas_readings_judged", stats.readings)
	c.Count("sandwich_memory_growth_judged", stats.growth)
	c.Count("gas_function_probes_with_growth_judged", stats.probesGrowth)
	c.Note("outside_bound", "programs longer than 3 bytes outside the structural families; gas limits other than the listed ones; call data other than listed; wall-clock of expensive precompiles")
}

// ---------------------------------------------------------------------------------------
// part code: every byte string <= 2 as code
// ---------------------------------------------------------------------------------------

var gasSet = []uint64{0, 1, 2300, 100000, 10000000}

func (r *runner) codeCase(code []byte, forks []string, entries []string, gases []uint64, part string) {
	if !r.mine() { // one code string (all its gas/entry/fork variants) = one unit of sharding
		return
	}
	for _, f := range forks {
		for _, e := range entries {
			for _, g := range gases {
				if r.c.Expired() {
					r.stop = true
					return
				}
				k := &kase{Part: part, Fork: f, Entry: e, Code: hx(code), Gas: g}
				r.run(k)
				if len(code) > 0 {
					r.nontriv++
				}
			}
		}
	}
}

func (r *runner) partCode() {
	forks := []string{forkA, forkB}
	entries := []string{"call", "static"}
	r.codeCase(nil, forks, entries, gasSet, "code")
	for a := 0; a < 256 && !r.stop; a++ {
		r.codeCase([]byte{byte(a)}, forks, entries, gasSet, "code")
	}
	for a := 0; a < 256 && !r.stop; a++ {
		for b := 0; b < 256 && !r.stop; b++ {
			r.codeCase([]byte{byte(a), byte(b)}, forks, entries, gasSet, "code")
		}
	}
	r.sample(kase{Part: "code", Fork: forkA, Entry: "call", Code: "5b56", Gas: 10000000})
}

func (r *runner) partCode3() {
	if !r.c.Thorough() {
		return
	}
	forks := []string{forkA, forkB}
	for a := 0; a < 256 && !r.stop; a++ {
		for b := 0; b < 256 && !r.stop; b++ {
			for d := 0; d < 256 && !r.stop; d++ {
				r.codeCase([]byte{byte(a), byte(b), byte(d)}, forks, []string{"call"}, []uint64{2300, 10000000}, "code3")
			}
		}
	}
}

// ---------------------------------------------------------------------------------------
// part op: operand tuples for every operation
// ---------------------------------------------------------------------------------------

func tuples(set []*big.Int, n int, f func([]*big.Int) bool) {
	cur := make([]*big.Int, n)
	var rec func(i int) bool
	rec = func(i int) bool {
		if i == n {
			return f(cur)
		}
		for _, v := range set {
			cur[i] = v
			if !rec(i + 1) {
				return false
			}
		}
		return true
	}
	rec(0)
}

func isDupSwap(op vm.OpCode) bool { return op >= vm.DUP1 && op <= vm.SWAP16 }

func argsNote(name string, args []*big.Int, mem32 bool) string {
	var sb strings.Builder
	sb.WriteString(name + "(")
	for i, a := range args {
		if i > 0 {
			sb.WriteString(",")
		}
		sb.WriteString("0x" + a.Text(16))
	}
	sb.WriteString(")")
	if mem32 {
		sb.WriteString(" mem=32B")
	}
	return sb.String()
}

var p022Ops = map[vm.OpCode]bool{vm.BASEFEE: true, vm.BLOBHASH: true, vm.BLOBBASEFEE: true, vm.TLOAD: true, vm.TSTORE: true, vm.MCOPY: true, vm.PUSH0: true}

var movesValue = map[vm.OpCode]bool{vm.CALL: true, vm.CALLCODE: true, vm.CREATE: true, vm.CREATE2: true, vm.SELFDESTRUCT: true,
	vm.AUTHCALL: true, vm.STAKE: true, vm.UNSTAKE: true, vm.UNSTAKEALL: true, vm.BALANCE: true, vm.SELFBALANCE: true}

func (r *runner) partOps() {
	stakeFamily := map[vm.OpCode]bool{vm.STAKE: true, vm.UNSTAKE: true, vm.GETSTAKE: true, vm.UNSTAKEALL: true, vm.STAKENUM: true}
	for _, f := range []string{forkA, forkB} {
		r.authorizedAuthCall(f)
	}
	for _, phase := range []string{"le4", "gt4"} {
		for _, f := range []string{forkA, forkB} {
			// the repository's own operations first, then by ascending operand count, so that a time cap
			// cuts the large CALL-family products last
			order := append([]vm.VerifOpInfo(nil), tables[f]...)
			rank := func(oi vm.VerifOpInfo) int {
				if _, ok := customNames[oi.Op]; ok || p022Ops[oi.Op] {
					return 0
				}
				return 1
			}
			sort.SliceStable(order, func(i, j int) bool {
				if rank(order[i]) != rank(order[j]) {
					return rank(order[i]) < rank(order[j])
				}
				if order[i].Pops != order[j].Pops {
					return order[i].Pops < order[j].Pops
				}
				return order[i].Op < order[j].Op
			})
			for _, oi := range order {
				if r.stop {
					return
				}
				if (oi.Pops <= 4) != (phase == "le4") {
					continue
				}
				var set []*big.Int
				switch {
				case oi.Pops <= 4:
					set = bset13()
				case oi.Pops <= 9 && isDupSwap(oi.Op): // value-agnostic
					set = bset2()
					if r.c.Thorough() {
						set = bset3()
					}
				case oi.Pops <= 9 && oi.Op == vm.AUTHCALL:
					// without a preceding AUTH the operation stops right after the gas computation; the
					// 5-value product is spent on the authorized variant below (authorizedAuthCall)
					set = bset3()
				case oi.Pops <= 9:
					set = bset5()
				default: // DUP10.. / SWAP9..: value-agnostic, one tuple of distinct values
					set = nil
				}
				selfs := []string{""}
				if stakeFamily[oi.Op] {
					selfs = []string{"", "miner"}
				}
				entries := []string{"call", "static"}
				emit := func(args []*big.Int) bool {
					if !r.mine() { // one operand tuple (all its memory/address/entry variants) = one unit of sharding
						return !r.stop
					}
					for _, mem32 := range []bool{false, true} {
						for _, self := range selfs {
							for _, e := range entries {
								if !r.c.Thorough() {
									// quick: all-on table with (Call, empty), (Call, 32 B), (StaticCall, 32 B); pre-P026 table with (Call, 32 B)
									if (f == forkB && (e != "call" || !mem32)) || (e == "static" && !mem32) {
										continue
									}
									if oi.Pops > 4 && (f == forkB || e == "static") { // 5-9 operands: all-on table, Call only
										continue
									}
								}
								if r.c.Expired() {
									r.stop = true
									return false
								}
								code := sandwich(oi, args, mem32, nil)
								k := &kase{Part: "op", Fork: f, Entry: e, Self: self, Bal: movesValue[oi.Op], Code: hx(code), Gas: 10000000,
									Expect: "sandwich", Op: int(oi.Op), NArgs: len(args), Note: argsNote(oi.Name, args, mem32)}
								r.run(k)
								r.nontriv++
							}
						}
					}
					return true
				}
				if set == nil {
					args := make([]*big.Int, oi.Pops)
					for i := range args {
						args[i] = big.NewInt(int64(i + 1))
					}
					emit(args)
					continue
				}
				tuples(set, oi.Pops, func(a []*big.Int) bool { return emit(append([]*big.Int(nil), a...)) })
			}
		}
	}
	oi := opInfo[forkA][vm.AUTH]
	r.sample(kase{Part: "op", Fork: forkA, Entry: "call", Gas: 10000000, Expect: "sandwich", Op: int(vm.AUTH), NArgs: 3,
		Code: hx(sandwich(oi, []*big.Int{big.NewInt(0), big.NewInt(1), big.NewInt(128)}, true, nil)), Note: "AUTH(0x0,0x1,0x80) mem=32B"})
}

// authPrefix stores a valid AUTH signature (v,r,s,commit) for the contract at plainX at
// memory 0x100..0x180 and executes AUTH(authority, 0x100, 128), leaving the result popped.
func authPrefix(f string) ([]byte, common.Address) {
	key, err := crypto.ToECDSA(bytes.Repeat([]byte{0x11}, 32))
	if err != nil {
		panic(err)
	}
	authority := crypto.PubkeyToAddress(key.PublicKey)
	commit := bytes.Repeat([]byte{0xc1}, 32)
	chainID := common.GetChainId(forkHeight(f))
	msg := make([]byte, 97)
	msg[0] = 0x03
	copy(msg[1:33], leftPad(chainID.Bytes(), 32))
	copy(msg[33:65], leftPad(plainX.Bytes(), 32))
	copy(msg[65:], commit)
	h := crypto.Keccak256(msg)
	sig, err := crypto.Sign(h, key)
	if err != nil {
		panic(err)
	}
	p := asm.New()
	p.Push(int(sig[64])).Push(0x100).Op(vm.MSTORE)
	p.PushN(32, sig[0:32]).Push(0x120).Op(vm.MSTORE)
	p.PushN(32, sig[32:64]).Push(0x140).Op(vm.MSTORE)
	p.PushN(32, commit).Push(0x160).Op(vm.MSTORE)
	p.Push(128).Push(0x100).PushN(20, authority.Bytes()).Op(vm.AUTH)
	return p.Bytes(), authority
}

func leftPad(b []byte, n int) []byte {
	out := make([]byte, n)
	copy(out[n-len(b):], b)
	return out
}

func (r *runner) authorizedAuthCall(f string) {
	oi, ok := opInfo[f][vm.AUTHCALL]
	if !ok || r.stop {
		return
	}
	prefix, _ := authPrefix(f)
	// non-vacuity: AUTH with the valid signature returns 1
	{
		p := asm.New().Raw(prefix...).Push(0).Op(vm.MSTORE).Push(32).Push(0).Op(vm.RETURN)
		k := &kase{Part: "op", Fork: f, Entry: "call", Code: hx(p.Bytes()), Gas: 10000000, Note: "AUTH valid signature"}
		if r.mine() {
			o := r.run(k)
			if v, ok := u64At(append(o.Ret, make([]byte, 32)...), 0); o.Kind == "" && ok && v == 1 {
				r.c.Outcome("op/auth-valid-signature-accepted")
			} else {
				r.c.Outcome("op/auth-valid-signature-rejected")
			}
		}
	}
	set := bset5()
	if !r.c.Thorough() {
		set = bset3()
	}
	pfx := append(append([]byte{}, prefix...), byte(vm.POP))
	tuples(set, oi.Pops, func(a []*big.Int) bool {
		if !r.mine() {
			return !r.stop
		}
		args := append([]*big.Int(nil), a...)
		code := sandwich(oi, args, false, pfx)
		k := &kase{Part: "op", Fork: f, Entry: "call", Code: hx(code), Gas: 10000000, Bal: true, Expect: "sandwich-authorized",
			Op: int(oi.Op), NArgs: len(args), Note: "authorized " + argsNote(oi.Name, args, false)}
		r.run(k)
		r.nontriv++
		return true
	})
}

// ---------------------------------------------------------------------------------------
// part stack: the 1024 limit
// ---------------------------------------------------------------------------------------

// ---------------------------------------------------------------------------------------
// part value: value / endowment operand of CALL, CALLCODE, AUTHCALL, CREATE, CREATE2 over
// {0, 1, 2^255-1, 2^255, 2^256-1} on both tables, as a sandwich and as a loop
// ---------------------------------------------------------------------------------------

func valueSet() []*big.Int {
	return []*big.Int{big.NewInt(0), big.NewInt(1), new(big.Int).Sub(pow2(255), big.NewInt(1)), pow2(255), new(big.Int).Set(max256)}
}

// valueArgs enumerates operand tuples (args[0] = top) of a value-carrying operation: the
// value over valueSet, the other operands over a tiny set.
func valueArgs(op vm.OpCode, f func(args []*big.Int, value *big.Int)) {
	zero, thirtyTwo := big.NewInt(0), big.NewInt(32)
	addrs := []*big.Int{big.NewInt(0), big.NewInt(1), new(big.Int).SetBytes(minerX.Bytes())}
	gases := []*big.Int{big.NewInt(0), new(big.Int).Set(max256)}
	sizes := []*big.Int{zero, thirtyTwo}
	for _, v := range valueSet() {
		switch op {
		case vm.CREATE:
			for _, sz := range sizes {
				f([]*big.Int{v, zero, sz}, v)
			}
		case vm.CREATE2:
			for _, sz := range sizes {
				f([]*big.Int{v, zero, sz, big.NewInt(9)}, v)
			}
		default:
			for _, g := range gases {
				for _, a := range addrs {
					for _, in := range sizes {
						for _, out := range sizes {
							if op == vm.AUTHCALL {
								// authorizedNonce gas addr value valueExt argsOffset argsLength retOffset retLength
								f([]*big.Int{zero, g, a, v, zero, zero, in, zero, out}, v)
							} else {
								// gas addr value inOffset inSize retOffset retSize
								f([]*big.Int{g, a, v, zero, in, zero, out}, v)
							}
						}
					}
				}
			}
		}
	}
}

// loopProgram: [prefix] L: JUMPDEST <args> OP POP; n = ++mem[0x40]; if bound < n return n; goto L
func loopProgram(f string, oi vm.VerifOpInfo, args []*big.Int, prefix []byte, gas uint64) ([]byte, uint64) {
	// constant gas of one iteration (a lower bound of its net cost: the value surcharge exceeds the stipend)
	t := opInfo[f]
	cmin := t[vm.JUMPDEST].ConstGas + uint64(len(args))*t[vm.PUSH1].ConstGas + oi.ConstGas + t[vm.POP].ConstGas +
		3*t[vm.PUSH1].ConstGas + t[vm.MLOAD].ConstGas + t[vm.ADD].ConstGas + t[vm.DUP1].ConstGas + t[vm.MSTORE].ConstGas +
		3*t[vm.PUSH2].ConstGas + t[vm.LT].ConstGas + t[vm.JUMPI].ConstGas + t[vm.JUMP].ConstGas
	bound := gas/cmin + 2
	if bound > 60000 {
		panic("harness: loop bound does not fit PUSH2")
	}
	p := asm.New().Raw(prefix...)
	base := p.Len()
	// labels are absolute: assemble the loop after the prefix by hand
	p.Op(vm.JUMPDEST)
	for i := len(args) - 1; i >= 0; i-- {
		p.Push(args[i])
	}
	p.Op(oi.Op).Op(vm.POP)
	p.Push(0x40).Op(vm.MLOAD).Push(1).Op(vm.ADD).Op(vm.DUP1).Push(0x40).Op(vm.MSTORE)
	p.PushN(2, []byte{byte(bound >> 8), byte(bound)}).Op(vm.LT) // bound < n
	p.PushLabel("exit").Op(vm.JUMPI)
	p.PushN(2, []byte{byte(base >> 8), byte(base)}).Op(vm.JUMP)
	p.Label("exit")
	p.Push(32).Push(0x40).Op(vm.RETURN)
	return p.Bytes(), bound
}

func (r *runner) partValue() {
	for _, f := range []string{forkA, forkB} {
		authPfx, _ := authPrefix(f)
		authPfx = append(append([]byte{}, authPfx...), byte(vm.POP))
		for _, op := range []vm.OpCode{vm.CALL, vm.CALLCODE, vm.AUTHCALL, vm.CREATE, vm.CREATE2} {
			oi, ok := opInfo[f][op]
			if !ok {
				continue
			}
			prefixes := [][]byte{nil}
			if op == vm.AUTHCALL {
				prefixes = [][]byte{nil, authPfx}
			}
			for pi, pfx := range prefixes {
				valueArgs(op, func(args []*big.Int, v *big.Int) {
					if !r.mine() {
						return
					}
					tag := ""
					if pi == 1 {
						tag = "authorized "
					}
					for _, mem32 := range []bool{false, true} {
						code := sandwich(oi, args, mem32, pfx)
						r.run(&kase{Part: "value", Fork: f, Entry: "call", Bal: true, Code: hx(code), Gas: 10000000, Expect: "sandwich-value",
							Op: int(op), NArgs: len(args), Note: tag + argsNote(oi.Name, args, mem32)})
						r.nontriv++
					}
					gas := uint64(1000000)
					if f == forkA {
						gas = 10000000
					}
					code, bound := loopProgram(f, oi, args, pfx, gas)
					r.run(&kase{Part: "value", Fork: f, Entry: "call", Bal: true, Code: hx(code), Gas: gas, Expect: "loop-bound", Bound: bound,
						Op: int(op), Note: tag + argsNote(oi.Name, args, false)})
					r.nontriv++
				})
			}
		}
	}
	oi := opInfo[forkB][vm.CALLCODE]
	args := []*big.Int{big.NewInt(0), big.NewInt(0), pow2(255), big.NewInt(0), big.NewInt(0), big.NewInt(0), big.NewInt(0)}
	code, bound := loopProgram(forkB, oi, args, nil, 1000000)
	r.sample(kase{Part: "value", Fork: forkB, Entry: "call", Bal: true, Code: hx(code), Gas: 1000000, Expect: "loop-bound", Bound: bound,
		Op: int(vm.CALLCODE), Note: argsNote(oi.Name, args, false)})
}

// ---------------------------------------------------------------------------------------
// part jump: jump-destination analysis at every code length residue with truncated PUSH tails
// ---------------------------------------------------------------------------------------

// jumpProgram: header (PUSH1 t JUMP | PUSH1 1 PUSH1 t JUMPI), STOP filler, JUMPDESTs at the
// listed positions, tail = PUSHn followed by k data bytes 0x5b, total length L.
func jumpProgram(L int, jumpi bool, t int, dests []int, n, k int) []byte {
	code := make([]byte, L) // STOP filler
	if jumpi {
		copy(code, []byte{byte(vm.PUSH1), 1, byte(vm.PUSH1), byte(t), byte(vm.JUMPI)})
	} else {
		copy(code, []byte{byte(vm.PUSH1), byte(t), byte(vm.JUMP)})
	}
	for _, d := range dests {
		code[d] = byte(vm.JUMPDEST)
	}
	if n > 0 {
		ts := L - 1 - k
		code[ts] = byte(vm.PUSH1) + byte(n-1)
		for i := ts + 1; i < L; i++ {
			code[i] = byte(vm.JUMPDEST)
		}
	}
	return code
}

func (r *runner) partJump() {
	ns := []int{0, 1, 2, 7, 8, 9, 15, 16, 17, 24, 31, 32} // 0 = no tail
	for L := 6; L <= 72 && !r.stop; L++ {
		for _, n := range ns {
			ks := []int{0}
			if n > 0 {
				ks = nil
				for _, k := range []int{0, 1, n - 1, n} {
					dup := false
					for _, x := range ks {
						dup = dup || x == k
					}
					if !dup {
						ks = append(ks, k)
					}
				}
			}
			for _, k := range ks {
				for _, jumpi := range []bool{false, true} {
					hdr := 3
					if jumpi {
						hdr = 5
					}
					tailLen := 0
					if n > 0 {
						tailLen = 1 + k
					}
					tailStart := L - tailLen
					if tailStart < hdr+1 {
						continue
					}
					if !r.mine() {
						continue
					}
					type tgt struct {
						t      int
						expect string
					}
					// real JUMPDESTs right after the header and right before the tail (= last byte when there is no tail)
					tgts := []tgt{{hdr, "jump-ok"}}
					if tailStart-1 != hdr {
						tgts = append(tgts, tgt{tailStart - 1, "jump-ok"})
					}
					if k >= 1 { // first and last data byte of the PUSH (they hold 0x5b)
						tgts = append(tgts, tgt{tailStart + 1, "jump-bad"})
						if L-1 != tailStart+1 {
							tgts = append(tgts, tgt{L - 1, "jump-bad"})
						}
					}
					for _, tg := range tgts {
						code := jumpProgram(L, jumpi, tg.t, []int{hdr, tailStart - 1}, n, k)
						jn := "JUMP"
						if jumpi {
							jn = "JUMPI"
						}
						note := fmt.Sprintf("%s to %d, code length %d, tail PUSH%d with %d data bytes", jn, tg.t, L, n, k)
						if n == 0 {
							note = fmt.Sprintf("%s to %d, code length %d, no PUSH tail", jn, tg.t, L)
						}
						op := int(vm.JUMP)
						if jumpi {
							op = int(vm.JUMPI)
						}
						r.run(&kase{Part: "jump", Fork: forkA, Entry: "call", Code: hx(code), Gas: 1000000, Expect: tg.expect, Op: op, Note: note})
						r.run(&kase{Part: "jump", Fork: forkB, Entry: "create", Code: hx(code), Gas: 1000000, Expect: tg.expect, Op: op, Note: note + " (init code)"})
						r.nontriv += 2
					}
				}
			}
		}
	}
	r.sample(kase{Part: "jump", Fork: forkA, Entry: "call", Code: hx(jumpProgram(8, false, 3, []int{3, 6}, 32, 0)), Gas: 1000000, Expect: "jump-ok", Op: int(vm.JUMP),
		Note: "JUMP to 3, code length 8, tail PUSH32 with 0 data bytes"})
}

// ---------------------------------------------------------------------------------------
// part readonly: write attempts in read-only context, also after an inner call returned
// ---------------------------------------------------------------------------------------

var (
	roD    = common.HexToAddress("0xc11c11c11c11c11c11c11c11c11c11c11c11c1d1") // wrapper: STATICCALLs the writing frame, returns (flag, gas before, gas after)
	roP    = common.HexToAddress("0xc11c11c11c11c11c11c11c11c11c11c11c11c1d2") // wrapper: STATICCALLs roD and passes its return data on
	roRet  = common.HexToAddress("0xc11c11c11c11c11c11c11c11c11c11c11c11c1e1") // contract that returns
	roRev  = common.HexToAddress("0xc11c11c11c11c11c11c11c11c11c11c11c11c1e2") // contract that reverts
	roNone = common.HexToAddress("0xc11c11c11c11c11c11c11c11c11c11c11c11c1e3") // account without code
)

func hexAddr(a common.Address) string { return "0x" + hx(a.Bytes()) }

func (r *runner) partReadOnly() {
	retCode := asm.New().Push(0).Push(0).Op(vm.RETURN).Bytes()
	revCode := asm.New().Push(0).Push(0).Op(vm.REVERT).Bytes()
	var pre4 common.Address
	pre4[19] = 4
	type inner struct {
		op   vm.OpCode // 0 = no inner call
		to   common.Address
		name string
	}
	inners := []inner{{0, common.Address{}, "no inner call"}}
	for _, op := range []vm.OpCode{vm.STATICCALL, vm.CALL, vm.DELEGATECALL, vm.CALLCODE} {
		for _, t := range []struct {
			a common.Address
			n string
		}{{roRet, "a contract that returns"}, {roRev, "a contract that reverts"}, {roNone, "an account without code"}, {pre4, "precompile 4"}} {
			inners = append(inners, inner{op, t.a, nameOf(op) + " to " + t.n})
		}
	}
	stakeFamily := map[vm.OpCode]bool{vm.STAKE: true, vm.UNSTAKE: true, vm.UNSTAKEALL: true}
	for _, f := range []string{forkA, forkB} {
		for _, oi := range tables[f] {
			// write-class operations: flagged as writing in the jump table, or refusing by themselves in
			// read-only mode (TSTORE), or CALL when it carries value
			if !(oi.Writes || oi.Op == vm.TSTORE || oi.Op == vm.CALL) {
				continue
			}
			self := ""
			if stakeFamily[oi.Op] {
				self = "miner"
			}
			body := target(self)
			for _, in := range inners {
				if !r.mine() {
					continue
				}
				// the writing frame: [inner call; POP]; OP(1,1,...); STOP
				b := asm.New()
				if in.op != 0 {
					b.Push(0).Push(0).Push(0).Push(0)
					if in.op == vm.CALL || in.op == vm.CALLCODE {
						b.Push(0)
					}
					b.PushN(20, in.to.Bytes()).Push(100000).Op(in.op).Op(vm.POP)
				}
				for i := 0; i < oi.Pops; i++ {
					b.Push(1)
				}
				b.Op(oi.Op).Op(vm.STOP)
				// wrapper D: GAS; STATICCALL(GAS, body, 0,0,0,0); GAS; return (flag, g1, g2)
				d := asm.New().Op(vm.GAS).Push(0).Push(0).Push(0).Push(0).PushN(20, body.Bytes()).Op(vm.GAS).Op(vm.STATICCALL).Op(vm.GAS)
				d.Push(0x40).Op(vm.MSTORE).Push(0x00).Op(vm.MSTORE).Push(0x20).Op(vm.MSTORE).Push(0x60).Push(0).Op(vm.RETURN)
				// wrapper P: STATICCALL(GAS, D, 0,0, 0,96); ok ? return mem[0:96] : return (2,0,0)
				pw := asm.New().Push(0x60).Push(0).Push(0).Push(0).PushN(20, roD.Bytes()).Op(vm.GAS).Op(vm.STATICCALL)
				pw.PushLabel("ok").Op(vm.JUMPI).Push(2).Push(0).Op(vm.MSTORE).Label("ok").Push(0x60).Push(0).Op(vm.RETURN)
				extra := map[string]string{hexAddr(roD): hx(d.Bytes()), hexAddr(roP): hx(pw.Bytes()), hexAddr(roRet): hx(retCode), hexAddr(roRev): hx(revCode)}
				note := fmt.Sprintf("%s; then %s(1,..)", in.name, oi.Name)
				innerName := ""
				if in.op != 0 {
					innerName = nameOf(in.op)
				}
				cfgs := []struct {
					entry, to, expect, how string
				}{
					{"static", "", "ro-direct", "evm.StaticCall -> writer"},
					{"static", hexAddr(roD), "ro-wrapped", "evm.StaticCall -> STATICCALL -> writer"},
					{"call", hexAddr(roD), "ro-wrapped", "evm.Call -> STATICCALL -> writer"},
					{"call", hexAddr(roP), "ro-wrapped", "evm.Call -> STATICCALL -> STATICCALL -> writer"},
				}
				for _, cf := range cfgs {
					o := r.run(&kase{Part: "readonly", Fork: f, Entry: cf.entry, Self: self, Bal: true, Code: hx(b.Bytes()), Gas: 10000000, To: cf.to,
						Extra: extra, Expect: cf.expect, Op: int(oi.Op), Inner: innerName, Note: cf.how + ": " + note})
					r.nontriv++
					if cf.expect == "ro-wrapped" && !(o.Kind == "" && len(o.Ret) == 96 && o.Ret[31] <= 1) {
						r.c.Outcome("readonly/unjudged-wrapper-result")
					}
				}
			}
		}
	}
	r.sample(kase{Part: "readonly", Fork: forkA, Entry: "static", Bal: true, Gas: 10000000, Expect: "ro-direct", Op: int(vm.SSTORE),
		Code:  hx(asm.New().Push(0).Push(0).Push(0).Push(0).PushN(20, roRet.Bytes()).Push(100000).Op(vm.STATICCALL).Op(vm.POP).Push(1).Push(1).Op(vm.SSTORE).Op(vm.STOP).Bytes()),
		Extra: map[string]string{hexAddr(roRet): hx(retCode)}, Inner: "STATICCALL", Note: "evm.StaticCall -> writer: STATICCALL to a contract that returns; then SSTORE(1,..)"})
}

func (r *runner) partStack() {
	for _, f := range []string{forkA, forkB} {
		for _, n := range []int{1023, 1024, 1025} {
			if !r.mine() {
				continue
			}
			code := bytes.Repeat([]byte{byte(vm.PUSH1), 1}, n)
			exp := "stack-ok"
			if n > 1024 {
				exp = "stack-overflow"
			}
			r.run(&kase{Part: "stack", Fork: f, Entry: "call", Code: hx(code), Gas: 10000000, Expect: exp, Op: int(vm.PUSH1), Note: fmt.Sprintf("%d x PUSH1", n)})
			r.nontriv++
		}
		for _, oi := range tables[f] {
			net := oi.Pushes - oi.Pops
			if net <= 0 {
				continue
			}
			for _, h := range []int{1024 - net, 1024 - net + 1} {
				if !r.mine() {
					continue
				}
				code := bytes.Repeat([]byte{byte(vm.PUSH1), 1}, h)
				code = append(code, byte(oi.Op))
				if isPushN(oi.Op) {
					code = append(code, bytes.Repeat([]byte{0xfe}, int(oi.Op-vm.PUSH1)+1)...)
				}
				exp := "stack-ok"
				if h+net > 1024 {
					exp = "stack-overflow"
				}
				r.run(&kase{Part: "stack", Fork: f, Entry: "call", Code: hx(code), Gas: 10000000, Expect: exp, Op: int(oi.Op),
					Note: fmt.Sprintf("%s at stack height %d (net +%d)", oi.Name, h, net)})
				r.nontriv++
			}
		}
	}
	r.sample(kase{Part: "stack", Fork: forkA, Entry: "call", Gas: 10000000, Expect: "stack-overflow", Op: int(vm.PUSH1), Note: "1025 x PUSH1 (code = 6001 repeated 1025 times)"})
}

// ---------------------------------------------------------------------------------------
// part depth: self recursion beyond 1024
// ---------------------------------------------------------------------------------------

// recursiveCall: d = calldata[0:32]; mem[0]=d+1; ok = <op>(gas, self, [0], 0,32, 32,32);
// ok ? return mem[32:64] : return d
func recursiveCall(f string, op vm.OpCode) []byte {
	p := asm.New()
	if op == vm.AUTHCALL {
		pre, _ := authPrefix(f)
		p.Raw(pre...).Op(vm.POP)
	}
	p.Push(0).Op(vm.CALLDATALOAD).Push(1).Op(vm.ADD).Push(0).Op(vm.MSTORE)
	p.Push(32).Push(32).Push(32).Push(0) // retSize retOff inSize inOff
	switch op {
	case vm.CALL, vm.CALLCODE:
		p.Push(0).Op(vm.ADDRESS).Op(vm.GAS)
	case vm.DELEGATECALL, vm.STATICCALL:
		p.Op(vm.ADDRESS).Op(vm.GAS)
	case vm.AUTHCALL:
		// authorizedNonce(top) gas addr value valueExt argsOff argsLen retOff retLen
		p.Push(0).Push(0).Op(vm.ADDRESS).Push(0).Push(0).Op(vm.CALLDATALOAD)
	}
	p.Op(op)
	p.PushLabel("ok").Op(vm.JUMPI)
	p.Push(0).Op(vm.CALLDATALOAD).Push(32).Op(vm.MSTORE)
	p.Label("ok")
	p.Push(32).Push(32).Op(vm.RETURN)
	return p.Bytes()
}

// recursiveCreate: init code that logs once, re-creates itself and deploys empty code.
func recursiveCreate(op vm.OpCode) []byte {
	p := asm.New()
	p.Op(vm.CODESIZE).Push(0).Push(0).Op(vm.CODECOPY)
	p.Push(0).Push(0).Op(vm.LOG0)
	if op == vm.CREATE2 {
		p.Push(0)
	}
	p.Op(vm.CODESIZE).Push(0).Push(0).Op(op).Op(vm.POP).Op(vm.STOP)
	return p.Bytes()
}

func (r *runner) partDepth() {
	gases := []uint64{10000000, 900000000, 100000000000000, 10000000000000000}
	for _, f := range []string{forkA, forkB} {
		for _, op := range []vm.OpCode{vm.CALL, vm.CALLCODE, vm.DELEGATECALL, vm.STATICCALL, vm.AUTHCALL} {
			if _, ok := opInfo[f][op]; !ok {
				continue
			}
			for _, g := range gases {
				for _, e := range []string{"call", "static"} {
					if !r.mine() {
						continue
					}
					code := recursiveCall(f, op)
					o := r.run(&kase{Part: "depth", Fork: f, Entry: e, Code: hx(code), Input: hx(make([]byte, 32)), Gas: g,
						Expect: "depth-ret", Op: int(op), Note: nameOf(op)})
					r.nontriv++
					if o.Kind == "" && len(o.Ret) == 32 {
						d, _ := u64At(o.Ret, 0)
						r.c.Outcome(fmt.Sprintf("depth/%s/%s gas=%d reached=%d", nameOf(op), e, g, d))
						if d == 1024 {
							r.c.Note("depth_1024_reached_and_not_exceeded_by_"+nameOf(op), true)
						}
					}
				}
			}
		}
		for _, op := range []vm.OpCode{vm.CREATE, vm.CREATE2} {
			for _, g := range gases {
				if !r.mine() {
					continue
				}
				o := r.run(&kase{Part: "depth", Fork: f, Entry: "create", Code: hx(recursiveCreate(op)), Gas: g,
					Expect: "depth-logs", Op: int(op), Note: nameOf(op)})
				r.nontriv++
				r.c.Outcome(fmt.Sprintf("depth/%s gas=%d frames=%d", op, g, o.NLogs))
				if o.NLogs == 1025 {
					r.c.Note("depth_1024_reached_and_not_exceeded_by_"+nameOf(op), true)
				}
			}
		}
	}
	r.sample(kase{Part: "depth", Fork: forkA, Entry: "call", Code: hx(recursiveCall(forkA, vm.CALL)), Input: hx(make([]byte, 32)),
		Gas: 100000000000000, Expect: "depth-ret", Op: int(vm.CALL), Note: "CALL"})
}

func (r *runner) sample(k kase) {
	if r.c.Shard == 0 {
		r.c.Sample(k)
	}
}

// ---------------------------------------------------------------------------------------
// part create
// ---------------------------------------------------------------------------------------

func (r *runner) partCreate() {
	forks := []string{forkA, forkB}
	each := func(init []byte) {
		if !r.mine() { // one init code = one unit of sharding
			return
		}
		for _, f := range forks {
			gs, ogs := gasSet, []uint64{100000, 10000000}
			if !r.c.Thorough() { // quick: full gas set on the all-on table only
				if f == forkB {
					gs, ogs = []uint64{100000}, nil
				} else {
					ogs = []uint64{10000000}
				}
			}
			for _, g := range gs {
				r.run(&kase{Part: "create", Fork: f, Entry: "create", Code: hx(init), Gas: g})
				if len(init) > 0 {
					r.nontriv++
				}
			}
			// through the CREATE and CREATE2 opcodes of a deployed contract
			for _, op := range []vm.OpCode{vm.CREATE, vm.CREATE2} {
				for _, g := range ogs {
					oi := opInfo[f][op]
					pre := asm.New().PushN(2, init).Push(0).Op(vm.MSTORE).Bytes()
					if len(init) == 0 {
						pre = nil
					}
					args := []*big.Int{big.NewInt(0), big.NewInt(int64(32 - len(init))), big.NewInt(int64(len(init)))}
					if op == vm.CREATE2 {
						args = append(args, big.NewInt(7))
					}
					code := sandwich(oi, args, false, pre)
					r.run(&kase{Part: "create", Fork: f, Entry: "call", Bal: true, Code: hx(code), Gas: g, Expect: "sandwich-prefixed", Op: int(op),
						NArgs: len(args), Note: fmt.Sprintf("%s of init code %x", op, init)})
					r.nontriv++
				}
			}
		}
	}
	each(nil)
	for a := 0; a < 256 && !r.stop; a++ {
		each([]byte{byte(a)})
	}
	for a := 0; a < 256 && !r.stop; a++ {
		for b := 0; b < 256 && !r.stop; b++ {
			each([]byte{byte(a), byte(b)})
		}
	}
	// code deposit: init code returning n zero bytes, every gas limit in a dense range
	for _, f := range forks {
		for _, n := range []int{1, 32} {
			init := asm.New().Push(n).Push(0).Op(vm.RETURN).Bytes()
			top := uint64(n)*vm.CreateDataGas + 400
			if f == forkA {
				top = (uint64(n)*vm.CreateDataGas + 20) * common.GasMagnification
			}
			step := uint64(1)
			if n == 32 && f == forkA {
				step = 7
			}
			for g := uint64(0); g <= top && !r.stop; g += step {
				if !r.mine() {
					continue
				}
				r.run(&kase{Part: "create", Fork: f, Entry: "create", Code: hx(init), Gas: g, Value: "5",
					Note: fmt.Sprintf("init code returning %d bytes", n)})
				r.nontriv++
			}
		}
	}
	// the same through the CREATE opcode with an endowment: SELFBALANCE; CREATE(5, init); SELFBALANCE; return (b1, result, b2)
	for _, f := range forks {
		init := asm.New().Push(1).Push(0).Op(vm.RETURN).Bytes() // 5 bytes
		p := asm.New().PushN(5, init).Push(0).Op(vm.MSTORE)
		p.Op(vm.SELFBALANCE)
		p.Push(5).Push(27).Push(5).Op(vm.CREATE)
		p.Op(vm.SELFBALANCE)
		p.Push(0x40).Op(vm.MSTORE).Push(0x20).Op(vm.MSTORE).Push(0x00).Op(vm.MSTORE)
		p.Push(0x60).Push(0).Op(vm.RETURN)
		code := p.Bytes()
		mag := uint64(1)
		if f == forkA {
			mag = common.GasMagnification
		}
		lo := vm.CreateGas * mag
		hi := lo + (vm.CreateDataGas+400)*mag*65/64 + 200*mag
		for g := lo; g <= hi && !r.stop; g++ {
			if !r.mine() {
				continue
			}
			r.run(&kase{Part: "create", Fork: f, Entry: "call", Bal: true, Code: hx(code), Gas: g, Expect: "inner-create-value", Op: int(vm.CREATE),
				Note: "CREATE with endowment 5 of init code returning 1 byte"})
			r.nontriv++
		}
	}
	r.sample(kase{Part: "create", Fork: forkB, Entry: "create", Code: "60016000f3", Gas: 100, Value: "5", Note: "init code returning 1 bytes"})
}

// ---------------------------------------------------------------------------------------
// part pre: precompiles
// ---------------------------------------------------------------------------------------

func be32(v *big.Int) []byte { return leftPad(new(big.Int).And(v, max256).Bytes(), 32) }

func (r *runner) partPrecompiles() {
	npre := len(vm.PrecompiledContracts)
	pre := func(n int, in []byte, gases []uint64, note string) {
		for _, g := range gases {
			if !r.mine() {
				continue
			}
			r.run(&kase{Part: "pre", Fork: forkA, Entry: "precompile", Pre: n, Input: hx(in), Gas: g, Note: note})
			if len(in) > 0 {
				r.nontriv++
			}
		}
	}
	for n := 1; n <= npre && !r.stop; n++ {
		pre(n, nil, gasSet, "")
		for a := 0; a < 256; a++ {
			pre(n, []byte{byte(a)}, gasSet, "")
		}
		for a := 0; a < 256 && !r.stop; a++ {
			for b := 0; b < 256; b++ {
				pre(n, []byte{byte(a), byte(b)}, gasSet, "")
			}
		}
	}
	small := []uint64{100000, 10000000}
	// modexp: every (baseLen, expLen, modLen) over a boundary set x payloads
	lens := []*big.Int{big.NewInt(0), big.NewInt(1), big.NewInt(31), big.NewInt(32), big.NewInt(33), big.NewInt(1024), big.NewInt(1025),
		big.NewInt(65536), pow2(31), pow2(32), pow2(63), new(big.Int).Sub(pow2(64), big.NewInt(1)), pow2(64), new(big.Int).Add(pow2(64), big.NewInt(1)), new(big.Int).Set(max256)}
	payloads := [][]byte{nil, {0xff}, bytes.Repeat([]byte{0xff}, 32), bytes.Repeat([]byte{0xff}, 96), append(bytes.Repeat([]byte{0}, 95), 1)}
	tuples(lens, 3, func(a []*big.Int) bool {
		for _, pl := range payloads {
			in := append(append(append(be32(a[0]), be32(a[1])...), be32(a[2])...), pl...)
			pre(5, in, small, fmt.Sprintf("modexp lens %s/%s/%s payload %d B", a[0].Text(16), a[1].Text(16), a[2].Text(16), len(pl)))
		}
		return !r.stop
	})
	for cut := 0; cut <= 96; cut += 8 { // truncated headers
		pre(5, bytes.Repeat([]byte{0x01}, cut), small, "modexp truncated header")
	}
	// blake2f: rounds x final flag x length around 213
	for _, rounds := range []uint32{0, 1, 12, 65535, 9999999, 10000001, 1 << 31, 0xffffffff} {
		for _, fin := range []byte{0, 1, 2, 0xff} {
			for _, l := range []int{212, 213, 214} {
				in := make([]byte, l)
				binary.BigEndian.PutUint32(in, rounds)
				for i := 4; i < l; i++ {
					in[i] = byte(i)
				}
				if l >= 213 {
					in[212] = fin
				}
				pre(9, in, small, fmt.Sprintf("blake2f rounds=%d final=%d len=%d", rounds, fin, l))
			}
		}
	}
	// every precompile: inputs of boundary lengths, three fillings
	sizes := []int{31, 32, 33, 63, 64, 65, 95, 96, 97, 127, 128, 129, 159, 160, 161, 191, 192, 193, 255, 256, 257, 287, 288, 289, 383, 384, 385, 511, 512, 513, 576, 768, 1024}
	for n := 1; n <= npre && !r.stop; n++ {
		for _, sz := range sizes {
			for _, fill := range []byte{0x00, 0x01, 0xff} {
				in := bytes.Repeat([]byte{fill}, sz)
				if fill == 0x01 {
					for i := range in {
						in[i] = 0
					}
					for i := 31; i < sz; i += 32 {
						in[i] = 1
					}
				}
				pre(n, in, small, fmt.Sprintf("precompile %d len %d fill %02x", n, sz, fill))
			}
		}
	}
	// through CALL / STATICCALL with boundary in/out sizes
	for _, f := range []string{forkA, forkB} {
		for n := 1; n <= npre && !r.stop; n++ {
			for _, op := range []vm.OpCode{vm.CALL, vm.STATICCALL, vm.DELEGATECALL} {
				oi := opInfo[f][op]
				for _, insz := range []int64{0, 1, 32, 96, 128, 192, 213, 256, 65536} {
					for _, outsz := range []int64{0, 1, 32, 65536} {
						if !r.mine() {
							continue
						}
						// gas addr [value] inOff inSize outOff outSize
						args := []*big.Int{new(big.Int).Set(max256), big.NewInt(int64(n))}
						if op == vm.CALL {
							args = append(args, big.NewInt(0))
						}
						args = append(args, big.NewInt(0), big.NewInt(insz), big.NewInt(0), big.NewInt(outsz))
						code := sandwich(oi, args, true, nil)
						r.run(&kase{Part: "pre", Fork: f, Entry: "call", Code: hx(code), Gas: 10000000, Expect: "sandwich", Op: int(op), NArgs: len(args),
							Note: fmt.Sprintf("%s precompile %d in=%d out=%d", op, n, insz, outsz)})
						r.nontriv++
					}
				}
			}
		}
	}
	r.sample(kase{Part: "pre", Fork: forkA, Entry: "precompile", Pre: 5, Gas: 10000000, Note: "modexp lens 0/ffffffffffffffffffffffffffffffffffffffffffffffffffffffffffffffff/1",
		Input: hx(append(append(be32(big.NewInt(0)), be32(max256)...), be32(big.NewInt(1))...))})
}

// ---------------------------------------------------------------------------------------
// part gasfn: memory-size / dynamic-gas functions over huge operands, no allocation
// ---------------------------------------------------------------------------------------

func hexStack(args []*big.Int) []string { // args[0] = top; stack is listed bottom first
	out := make([]string, len(args))
	for i := range args {
		out[len(args)-1-i] = args[i].Text(16)
	}
	return out
}

type pairPos struct{ off, ln int } // positions in args (0 = top)

// findPairs discovers which operand positions form (offset, length) pairs by probing.
func (r *runner) findPairs(f string, oi vm.VerifOpInfo) []pairPos {
	var out []pairPos
	for p := 0; p < oi.Pops; p++ {
		for q := 0; q < oi.Pops; q++ {
			if p == q {
				continue
			}
			mk := func(o, l int64) uint64 {
				args := make([]*big.Int, oi.Pops)
				for i := range args {
					args[i] = big.NewInt(0)
				}
				args[p], args[q] = big.NewInt(o), big.NewInt(l)
				k := &kase{Part: "gasfn", Fork: f, Entry: "probe", Op: int(oi.Op), Stack: hexStack(args), Gas: 10000000}
				ob := probe(k)
				if ob.Status != "ok" || ob.Panicked {
					return ^uint64(0)
				}
				return ob.MemSize
			}
			if mk(64, 32) == 96 && mk(64, 0) == 0 && mk(0, 64) == 64 && mk(640, 64) == 704 {
				out = append(out, pairPos{p, q})
			}
		}
	}
	return out
}

func gasfnSet() []*big.Int {
	lim := big.NewInt(0x1FFFFFFFE0)
	return []*big.Int{big.NewInt(0), big.NewInt(1), big.NewInt(32), big.NewInt(65536), pow2(24), pow2(30), pow2(32), pow2(34), pow2(36),
		new(big.Int).Sub(lim, big.NewInt(32)), lim, new(big.Int).Add(lim, big.NewInt(1)), pow2(37), pow2(63),
		new(big.Int).Sub(pow2(64), big.NewInt(1)), pow2(64), new(big.Int).Set(max256)}
}

func (r *runner) partGasFn() {
	for _, f := range []string{forkA, forkB} {
		for _, oi := range tables[f] {
			if !oi.HasMemSize || r.stop {
				continue
			}
			pairs := r.findPairs(f, oi)
			r.c.Outcome(fmt.Sprintf("gasfn/%s pairs=%d", oi.Name, len(pairs)))
			run := func(args []*big.Int, memLen uint64) obs {
				k := &kase{Part: "gasfn", Fork: f, Entry: "probe", Op: int(oi.Op), Stack: hexStack(args), MemLen: memLen, Gas: 10000000,
					Note: argsNote(oi.Name, args, memLen > 0)}
				r.nontriv++
				return r.run(k)
			}
			// (a) tuples: every (offset,length) pair over the full set, other operands over {0,1,max}
			set := gasfnSet()
			others := bset3()
			if oi.Pops > 4 {
				others = bset2()
			}
			for _, pp := range pairs {
				rest := []int{}
				for i := 0; i < oi.Pops; i++ {
					if i != pp.off && i != pp.ln {
						rest = append(rest, i)
					}
				}
				tuples(others, len(rest), func(ov []*big.Int) bool {
					for _, o := range set {
						for _, l := range set {
							for _, ml := range []uint64{0, 32} {
								if !r.mine() {
									if r.stop {
										return false
									}
									continue
								}
								args := make([]*big.Int, oi.Pops)
								for i, pos := range rest {
									args[pos] = ov[i]
								}
								args[pp.off], args[pp.ln] = o, l
								run(args, ml)
							}
						}
					}
					return true
				})
			}
			// (b) grid sweeps with bisection at every decrease of the charged gas
			for pi, pp := range pairs {
				for _, sweepLen := range []bool{false, true} {
					if !r.mine() { // one sweep = one unit of work
						continue
					}
					r.sweep(f, oi, pp, sweepLen, pi)
				}
			}
		}
	}
	r.sample(kase{Part: "gasfn", Fork: forkA, Entry: "probe", Op: int(vm.CALLDATACOPY), Stack: []string{"20", "0", "1fffffffc0"}, Gas: 10000000,
		Note: "CALLDATACOPY(0x1fffffffc0,0x0,0x20)"})
}

// sweep walks one operand of an (offset,length) pair over the grid k*2^25, k=1..4096
// (the other one fixed to 32 resp. 0), everything else zero, and bisects wherever the
// dynamic gas decreases although the requested memory grew.
func (r *runner) sweep(f string, oi vm.VerifOpInfo, pp pairPos, sweepLen bool, pi int) {
	mkArgs := func(v uint64) []*big.Int {
		args := make([]*big.Int, oi.Pops)
		for i := range args {
			args[i] = big.NewInt(0)
		}
		if sweepLen {
			args[pp.off], args[pp.ln] = big.NewInt(0), new(big.Int).SetUint64(v)
		} else {
			args[pp.off], args[pp.ln] = new(big.Int).SetUint64(v), big.NewInt(32)
		}
		return args
	}
	at := func(v uint64) obs {
		args := mkArgs(v)
		k := &kase{Part: "gasfn", Fork: f, Entry: "probe", Op: int(oi.Op), Stack: hexStack(args), Gas: 10000000, Note: argsNote(oi.Name, args, false)}
		r.nontriv++
		return r.run(k)
	}
	const step = uint64(1) << 25
	prevV := uint64(0)
	prev := at(0)
	for i := uint64(1); i <= 4096 && !r.stop; i++ {
		v := i * step
		cur := at(v)
		if prev.Status == "ok" && cur.Status == "ok" && cur.MemSize > prev.MemSize && cur.DynGas < prev.DynGas {
			r.c.Outcome("gasfn/decrease-bisected:" + oi.Name)
			lo, hi, glo := prevV, v, prev.DynGas
			for hi-lo > 32 {
				mid := (lo + (hi-lo)/2) &^ 31
				if mid <= lo {
					break
				}
				m := at(mid)
				if m.Status == "ok" && m.DynGas >= glo {
					lo, glo = mid, m.DynGas
				} else {
					hi = mid
				}
			}
			for d := uint64(0); d <= 64; d += 32 {
				at(hi + d)
			}
			if !sweepLen {
				r.tune(f, oi, pp, lo)
			}
		}
		prev, prevV = cur, v
		if r.c.Expired() {
			r.stop = true
		}
	}
}

// tune: offset lo (length 32) is the last point before the charged gas collapses.  Moving
// k words from the offset into the length keeps the memory size and adds only per-word
// copy/hash gas; the smallest k past the collapse gives the cheapest huge growth.  When
// that costs less than 10^6 gas the program is executed in a sandboxed child.
func (r *runner) tune(f string, oi vm.VerifOpInfo, pp pairPos, off uint64) {
	mk := func(kw uint64) *kase {
		args := make([]*big.Int, oi.Pops)
		for i := range args {
			args[i] = big.NewInt(0)
		}
		args[pp.off] = new(big.Int).SetUint64(off - 32*kw)
		args[pp.ln] = new(big.Int).SetUint64(32 + 32*kw)
		return &kase{Part: "gasfn", Fork: f, Entry: "probe", Op: int(oi.Op), Stack: hexStack(args), Gas: 10000000, NArgs: oi.Pops,
			Note: argsNote(oi.Name, args, false)}
	}
	base := r.run(mk(0))
	if base.Status != "ok" {
		return
	}
	maxK := off / 32
	if maxK > 1<<31 {
		maxK = 1 << 31
	}
	top := r.run(mk(maxK))
	if !(top.Status == "ok" && top.DynGas < base.DynGas) {
		return
	}
	lo, hi := uint64(0), maxK
	for hi-lo > 1 {
		mid := lo + (hi-lo)/2
		m := r.run(mk(mid))
		if m.Status == "ok" && m.DynGas >= base.DynGas {
			lo = mid
		} else {
			hi = mid
		}
	}
	best := mk(hi)
	bo := r.run(best)
	r.nontriv += 4
	if bo.Status != "ok" || bo.DynGas > 1000000 {
		return
	}
	r.c.Outcome("gasfn/cheap-huge-growth:" + oi.Name)
	if oi.Op == vm.CREATE2 || oi.Op == vm.SHA3 || oi.Halts || oi.Reverts {
		return // confirmation by execution only for operations that merely copy/log
	}
	for _, other := range tables[f] { // ... and only for the first operation of each dynamic-gas function
		if other.Op < oi.Op && gasFnName(other) == gasFnName(oi) {
			return
		}
	}
	if r.c.Expired() {
		r.stop = true
		return
	}
	bk := *best
	bk.Entry, bk.Part, bk.MemLen = "bomb", "gasfn", bo.MemSize
	bk.DynNote(bo)
	r.bomb(&bk)
}

func (k *kase) DynNote(o obs) {
	k.Note = fmt.Sprintf("%s: dynamic gas %d for growing memory to %d bytes", k.Note, o.DynGas, o.MemSize)
}

// bomb executes GAS-limited (10^6) code  <push args> OP STOP  in a sandboxed child.
// Expected: an ordinary out-of-gas failure.  A runtime fatal of the child is a violation.
func (r *runner) bomb(k *kase) {
	setFork(k.Fork)
	oi := opInfo[k.Fork][vm.OpCode(k.Op)]
	p := asm.New()
	for _, s := range k.Stack { // bottom first
		v, _ := new(big.Int).SetString(s, 16)
		p.Push(v)
	}
	p.Op(oi.Op).Op(vm.STOP)
	ck := &kase{Part: "gasfn", Fork: k.Fork, Entry: "call", Code: hx(p.Bytes()), Gas: 1000000, Note: k.Note}
	o, fatal, err := runChild(r.c, ck)
	r.c.Eval(1)
	if err != nil {
		r.c.Note("bomb_child_infra", err.Error())
		r.c.Outcome("gasfn/bomb:infra")
		return
	}
	if fatal != "" {
		o2, fatal2, _ := runChild(r.c, ck)
		_ = o2
		if fatal2 == "" {
			r.c.Outcome("gasfn/bomb:unstable")
			return
		}
		r.c.Outcome("gasfn/bomb:fatal")
		r.c.Note("confirmed_by_execution_"+oi.Name, fmt.Sprintf("code %s with gas limit 10^6 (dynamic gas of the operation: see note) killed a child node process limited to %d GiB address space: %s [%s]", ck.Code, childAS>>30, fatal, k.Note))
		fn := gasFnName(oi)
		r.c.Violation("C11:memory-growth-undercharged:"+fn, "gasfn",
			fmt.Sprintf("executed with gas limit 10^6 in a child process limited to %d GiB of address space: the node process died with %q while running %s (code %s); expected an ordinary out-of-gas failure",
				childAS>>30, fatal, k.Note, ck.Code), k)
		return
	}
	r.c.Outcome("gasfn/bomb:" + o.Kind)
	for _, fd := range judge(ck, o) {
		r.c.Violation(fd.sig, fd.part, fd.msg, ck)
	}
}
