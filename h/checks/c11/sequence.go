// Part "seq": non-initial-state family.  A code Y is executed AFTER another code X inside ONE
// top-level call of ONE EVM object, in every code-identity combination (CALL to deployed code,
// CREATE init code, CREATE2 init code; driver entered by evm.Call or, as a constructor, by
// evm.Create).  C11 decides its own clauses here: the host never panics, and Y's outcome (flag
// pushed for its frame, its return data, and for CALL the gas it cost) is exactly what it is when Y
// is the first thing run in a fresh EVM; a failed Y leaves the state as a failed frame does.
// Whatever the interpreter keeps per EVM / per call tree (JUMPDEST analysis map handed from
// caller to callee, pooled stacks, hasher, return-data buffer) is exercised in a non-fresh state.
package main

import (
	"bytes"
	"fmt"

	"verif/h/asm"

	"com.tuntun.rangers/node/src/common"
	"com.tuntun.rangers/node/src/vm"
)

const seqT = 96 // the offset the long jump probes classify differently

var (
	seqAX = common.HexToAddress("0xc11c11c11c11c11c11c11c11c11c11c11c11c5a1")
	seqAY = common.HexToAddress("0xc11c11c11c11c11c11c11c11c11c11c11c11c5a2")
	seqAZ = common.HexToAddress("0xc11c11c11c11c11c11c11c11c11c11c11c11c5a3")
)

type seqCode struct {
	name string
	code []byte
}

// longJump: PUSH1 [1 PUSH1] T JUMP|JUMPI, STOP filler, region at T-1, STOP.
// region 'J': T holds a real JUMPDEST; 'D': T holds 0x5b inside PUSH2 data; 'N': T holds STOP.
func longJump(region byte, jumpi bool) []byte {
	code := make([]byte, seqT+4)
	if jumpi {
		copy(code, []byte{byte(vm.PUSH1), 1, byte(vm.PUSH1), seqT, byte(vm.JUMPI)})
	} else {
		copy(code, []byte{byte(vm.PUSH1), seqT, byte(vm.JUMP)})
	}
	switch region {
	case 'J':
		code[seqT] = byte(vm.JUMPDEST)
	case 'D':
		code[seqT-1], code[seqT], code[seqT+1] = byte(vm.PUSH2), byte(vm.JUMPDEST), byte(vm.JUMPDEST)
	}
	return code
}

// seqAlphabet: the fault alphabet; every code works as runtime code and as init code.
func seqAlphabet() []seqCode {
	return []seqCode{
		{"short-valid-jump", []byte{byte(vm.PUSH1), 3, byte(vm.JUMP), byte(vm.JUMPDEST), byte(vm.STOP)}},
		{"long-valid-jump", longJump('J', false)},
		{"long-jump-into-push-data", longJump('D', false)},
		{"long-jump-to-non-jumpdest", longJump('N', false)},
		{"long-valid-jumpi", longJump('J', true)},
		{"long-jumpi-into-push-data", longJump('D', true)},
		{"jump-beyond-code", []byte{byte(vm.PUSH1), 0xff, byte(vm.JUMP)}},
		{"stack-underflow", []byte{byte(vm.ADD)}},
		{"stack-overflow", bytes.Repeat([]byte{byte(vm.PUSH1), 1}, 1025)},
		{"invalid-opcode", []byte{0xfe}},
		{"out-of-gas", []byte{byte(vm.PUSH3), 0xff, 0xff, 0xff, byte(vm.MLOAD)}}, // memory growth nobody can pay for: fails before any allocation
		{"revert", []byte{byte(vm.PUSH1), 0, byte(vm.PUSH1), 0, byte(vm.REVERT)}},
		{"store-and-stop", []byte{byte(vm.PUSH1), 1, byte(vm.PUSH1), 1, byte(vm.SSTORE), byte(vm.STOP)}},
		{"return-one-byte", []byte{byte(vm.PUSH1), 0x2a, byte(vm.PUSH1), 0, byte(vm.MSTORE8), byte(vm.PUSH1), 1, byte(vm.PUSH1), 0, byte(vm.RETURN)}},
	}
}

type seqSpec struct {
	Entry string `json:"entry"` // call: driver is a deployed contract; create: driver is the constructor run by evm.Create
	IdX   string `json:"idx"`   // C = CALL to deployed code, K = CREATE init code, K2 = CREATE2 init code
	IdY   string `json:"idy"`
	X     string `json:"x"` // names in seqAlphabet
	Y     string `json:"y"`
}

func seqFind(name string) []byte {
	for _, c := range seqAlphabet() {
		if c.name == name {
			return c.code
		}
	}
	panic("harness: unknown sequence code " + name)
}

func be2(v int) []byte { return []byte{byte(v >> 8), byte(v)} }

// seqStep appends one step to the driver: run `code` in identity id (callee address addr for C),
// and store (flag, gas before, gas after, return data size, first return word) at memory slot..slot+0xa0.
// Straight line, no jumps.  codeOff is the offset of the code inside the driver (K, K2).
// With dyn the callee address / code offset / code length come from call data words 0, 1, 2, so that
// the same driver code (hence the same state) serves Y and the canonical failing frame.
func seqStep(p *asm.Prog, f, id string, addr common.Address, codeOff, codeLen, slot int, salt byte, dyn bool) {
	pushAddr := func() {
		if dyn {
			p.PushN(1, []byte{0}).Op(vm.CALLDATALOAD)
		} else {
			p.PushN(20, addr.Bytes())
		}
	}
	pushOff := func() {
		if dyn {
			p.PushN(1, []byte{32}).Op(vm.CALLDATALOAD)
		} else {
			p.PushN(2, be2(codeOff))
		}
	}
	pushLen := func() {
		if dyn {
			p.PushN(1, []byte{64}).Op(vm.CALLDATALOAD)
		} else {
			p.PushN(2, be2(codeLen))
		}
	}
	callGas := 300000
	if f == forkA {
		callGas = 5000000
	}
	switch id {
	case "C":
		p.Op(vm.GAS)
		p.PushN(1, []byte{32}).PushN(2, be2(slot+0x80)).PushN(1, []byte{0}).PushN(1, []byte{0}).PushN(1, []byte{0})
		pushAddr()
		p.PushN(3, []byte{byte(callGas >> 16), byte(callGas >> 8), byte(callGas)}).Op(vm.CALL)
		p.Op(vm.GAS)
	default:
		pushLen()
		pushOff()
		p.PushN(2, be2(0x400)).Op(vm.CODECOPY)
		p.Op(vm.GAS)
		if id == "K2" {
			p.PushN(1, []byte{salt})
		}
		pushLen()
		p.PushN(2, be2(0x400)).PushN(1, []byte{0})
		if id == "K2" {
			p.Op(vm.CREATE2)
		} else {
			p.Op(vm.CREATE)
		}
		p.Op(vm.ISZERO, vm.ISZERO)
		p.Op(vm.GAS)
	}
	// stack: g1 flag g2
	p.PushN(2, be2(slot+0x40)).Op(vm.MSTORE)
	p.PushN(2, be2(slot)).Op(vm.MSTORE)
	p.PushN(2, be2(slot+0x20)).Op(vm.MSTORE)
	p.Op(vm.RETURNDATASIZE).PushN(2, be2(slot+0x60)).Op(vm.MSTORE)
}

// seqDriverCode builds the driver.  withX / the choice of Y-or-reference are per run; the driver
// entered by evm.Call always carries x ++ y ++ 0xfe and takes Y's callee / code window from call data
// (identical code, hence identical state, for Y and for the canonical failing frame).  A driver
// entered as constructor has no call data: constants, and it ends with REVERT so that the records
// come back through evm.Create without being deployed.  Result: 0x140 bytes, X's record at 0x00,
// Y's at 0xa0.
func seqDriverCode(f string, sp *seqSpec, x, y []byte, withX, useRef bool) (code, input []byte) {
	ref := []byte{0xfe}
	dyn := sp.Entry == "call"
	build := func(xOff, yOff, yLen int, yAddr common.Address) []byte {
		p := asm.New()
		p.PushN(1, []byte{0}).PushN(2, be2(0x1000)).Op(vm.MSTORE) // memory has its final size from the start
		if withX {
			seqStep(p, f, sp.IdX, seqAX, xOff, len(x), 0x00, 0x51, false)
		}
		seqStep(p, f, sp.IdY, yAddr, yOff, yLen, 0xa0, 0x52, dyn)
		p.PushN(2, be2(0x140)).PushN(1, []byte{0})
		if sp.Entry == "create" {
			p.Op(vm.REVERT)
		} else {
			p.Op(vm.RETURN)
		}
		return p.Bytes()
	}
	n := len(build(0, 0, 0, seqAY))
	yOff, yLen, yAddr := n+len(x), len(y), seqAY
	if useRef {
		yOff, yLen, yAddr = n+len(x)+len(y), len(ref), seqAZ
	}
	code = build(n, yOff, yLen, yAddr)
	code = append(append(append(code, x...), y...), ref...)
	if dyn {
		input = append(append(leftPad(yAddr.Bytes(), 32), leftPad(be2(yOff), 32)...), leftPad(be2(yLen), 32)...)
	}
	return code, input
}

type seqRec struct {
	flag, g1, g2, rds uint64
	word              []byte
	ok                bool
}

func seqRecord(ret []byte, slot int) seqRec {
	var r seqRec
	if len(ret) != 0x140 {
		return r
	}
	var a, b, c, d bool
	r.flag, a = u64At(ret[slot:], 0)
	r.g1, b = u64At(ret[slot:], 1)
	r.g2, c = u64At(ret[slot:], 2)
	r.rds, d = u64At(ret[slot:], 3)
	r.word = ret[slot+0x80 : slot+0xa0]
	r.ok = a && b && c && d
	return r
}

// seqRun executes one driver.
func seqRun(f string, sp *seqSpec, x, y []byte, withX, useRef bool, note string) (*kase, obs) {
	// 1/64 of the gas (what is left after a failing CREATE of X) still covers Y's fixed CALL allowance
	gas := uint64(30000000)
	if f == forkA {
		gas = 400000000
	}
	code, input := seqDriverCode(f, sp, x, y, withX, useRef)
	k := &kase{Part: "seq", Fork: f, Gas: gas, Bal: true, Note: note, Input: hx(input), Expect: "ro-seq"} // "ro-" prefix: the state root is always taken
	if sp.Entry == "create" {
		k.Entry, k.Code = "create", hx(code)
	} else {
		k.Entry, k.Code, k.To = "call", hx(code), ""
	}
	k.Extra = map[string]string{hexAddr(seqAX): hx(seqFind(sp.X)), hexAddr(seqAY): hx(seqFind(sp.Y)), hexAddr(seqAZ): "fe"}
	if sp.Entry == "create" {
		// execute() installs Extra only for call/static entries: the constructor variant uses CREATE identities
		// and CALL to the same addresses, so install through a call-entry style state is not available; the
		// C identity is therefore only combined with the call entry (see partSeq)
		k.Extra = nil
	}
	return k, execute(k)
}

// runSeq runs (X then Y), (Y alone) and (X then a canonical failing frame in Y's identity) and compares.
func (r *runner) runSeq(f string, sp *seqSpec) {
	x, y := seqFind(sp.X), seqFind(sp.Y)
	rk := &kase{Part: "seq", Fork: f, Entry: "seq", Seq: sp, Note: fmt.Sprintf("%s as %s, then %s as %s, driver entered by evm.%s", sp.X, sp.IdX, sp.Y, sp.IdY, sp.Entry)}
	type triple struct{ xy, yAlone, xRef obs }
	do := func() (triple, []finding) {
		var t triple
		var fs []finding
		_, t.xy = seqRun(f, sp, x, y, true, false, rk.Note)
		_, t.yAlone = seqRun(f, sp, x, y, false, false, rk.Note)
		_, t.xRef = seqRun(f, sp, x, y, true, true, rk.Note)
		r.n += 3
		r.c.Eval(3)
		add := func(sig, msg string) { fs = append(fs, finding{sig, "seq", msg}) }
		for _, o := range []obs{t.xy, t.yAlone, t.xRef} {
			if o.Panicked {
				add("C11:panic:"+o.Site, fmt.Sprintf("host panic %q at %s (%s)", o.PanicVal, o.Site, rk.Note))
				return t, fs
			}
		}
		a, b := seqRecord(t.xy.Ret, 0xa0), seqRecord(t.yAlone.Ret, 0xa0)
		if !a.ok || !b.ok {
			r.c.Outcome("seq/unjudged-driver-result")
			return t, fs
		}
		pair := sp.IdX + "-then-" + sp.IdY
		switch {
		case a.flag != b.flag || a.rds != b.rds || !bytes.Equal(a.word, b.word):
			add("C11:sequence-changes-outcome:"+pair, fmt.Sprintf("%s: Y's frame gave flag %d, %d return bytes, first word %x; run first in a fresh EVM it gives flag %d, %d return bytes, first word %x",
				rk.Note, a.flag, a.rds, a.word, b.flag, b.rds, b.word))
		case sp.IdY == "C" && a.g1-a.g2 != b.g1-b.g2:
			add("C11:sequence-changes-gas:"+pair, fmt.Sprintf("%s: Y's CALL cost %d gas, %d when run first in a fresh EVM", rk.Note, a.g1-a.g2, b.g1-b.g2))
		case a.flag == 0 && sp.Entry == "call" && t.xy.Kind == "" && t.xRef.Kind == "" && t.xy.Root1 != t.xRef.Root1:
			add("C11:fail-state-not-reverted:sequence:"+pair, fmt.Sprintf("%s: Y failed, yet the final state root %s differs from the one after X and a canonical failing frame %s", rk.Note, t.xy.Root1, t.xRef.Root1))
		}
		cls := "y-ok"
		if a.flag == 0 {
			cls = "y-failed"
		}
		r.c.Outcome("seq/" + cls)
		return t, fs
	}
	t1, fs := do()
	if len(fs) > 0 {
		t2, fs2 := do()
		if len(fs2) != len(fs) || t1.xy.key() != t2.xy.key() || t1.yAlone.key() != t2.yAlone.key() {
			r.c.Violation("C11:nondeterministic-execution", "seq", "two executions of the same sequence case differ: "+rk.Note, rk)
			return
		}
		for _, fd := range fs {
			r.c.Violation(fd.sig, fd.part, fd.msg, rk)
		}
	}
}

func (r *runner) partSeq() {
	alpha := seqAlphabet()
	for _, f := range []string{forkA, forkB} {
		for _, entry := range []string{"call", "create"} {
			ids := []string{"C", "K", "K2"}
			if entry == "create" {
				ids = []string{"K", "K2"} // nested CREATE/CREATE2 inside a constructor entered by evm.Create
			}
			for _, idx := range ids {
				for _, idy := range ids {
					for _, x := range alpha {
						for _, y := range alpha {
							if !r.mine() {
								if r.stop {
									return
								}
								continue
							}
							r.runSeq(f, &seqSpec{Entry: entry, IdX: idx, IdY: idy, X: x.name, Y: y.name})
							r.nontriv++
						}
					}
				}
			}
		}
	}
	r.sample(kase{Part: "seq", Fork: forkB, Entry: "seq", Seq: &seqSpec{Entry: "call", IdX: "K", IdY: "K", X: "short-valid-jump", Y: "long-valid-jump"},
		Note: "short-valid-jump as K, then long-valid-jump as K, driver entered by evm.call"})
}
