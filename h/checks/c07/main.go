// C07: only authentic transactions are admitted to the pool.
//
// Bounded exhaustive enumeration (E4) at TransactionPool.VerifyTransaction(tx, height):
// honest transactions (native and EIP-155 wrapped) of several key pairs are built by the
// harness's own reference (own SHA-256 preimage, own RLP encoder, own Keccak, own
// wrapper conversion); each must be accepted.  Then every single-bit flip and every
// single-field substitution (per-field alphabet) of every authenticated field, and a
// few forgery classes that recompute the dependent fields, must be rejected.
package main

import (
	"bytes"
	"crypto/ecdsa"
	"crypto/sha256"
	"encoding/hex"
	"encoding/json"
	"fmt"
	"math"
	"math/big"
	"os"
	"strconv"
	"strings"
	"time"

	"golang.org/x/crypto/sha3"

	"verif/h/fw"
	"verif/h/node"

	"com.tuntun.rangers/node/src/common"
	ethcrypto "com.tuntun.rangers/node/src/eth_crypto"
	"com.tuntun.rangers/node/src/middleware/types"
	"com.tuntun.rangers/node/src/service"
)

// ---------------------------------------------------------------------------------------------
// configuration: chain id "9500" from height p001 on, "9499" below it

const (
	p001     = uint64(100)
	hHi      = uint64(1000)
	hLo      = uint64(50)
	chainOld = "9499"
)

var chainNew string // common.LocalChainConfig.ChainId after boot ("9500" in dev)

func chainAt(h uint64) string {
	if h >= p001 {
		return chainNew
	}
	return chainOld
}

// ---------------------------------------------------------------------------------------------
// reference primitives (harness-owned)

func keccak(b ...[]byte) []byte {
	h := sha3.NewLegacyKeccak256()
	for _, x := range b {
		h.Write(x)
	}
	return h.Sum(nil)
}

// native digest: SHA-256 over Data ‖ dec(Nonce) ‖ Source ‖ Target ‖ dec(Type) ‖ Time ‖ ExtraData ‖ ChainId
func refNativeHash(tx *types.Transaction) common.Hash {
	var b bytes.Buffer
	b.WriteString(tx.Data)
	b.WriteString(strconv.FormatUint(tx.Nonce, 10))
	b.WriteString(tx.Source)
	b.WriteString(tx.Target)
	b.WriteString(strconv.FormatInt(int64(tx.Type), 10))
	b.WriteString(tx.Time)
	b.WriteString(tx.ExtraData)
	b.WriteString(tx.ChainId)
	s := sha256.Sum256(b.Bytes())
	return common.Hash(s)
}

func beBytes(u uint64) []byte {
	var out []byte
	for u > 0 {
		out = append([]byte{byte(u)}, out...)
		u >>= 8
	}
	return out
}

func rlpLen(n int, off byte) []byte {
	if n < 56 {
		return []byte{off + byte(n)}
	}
	be := beBytes(uint64(n))
	return append([]byte{off + 55 + byte(len(be))}, be...)
}

func rlpBytes(b []byte) []byte {
	if len(b) == 1 && b[0] < 0x80 {
		return []byte{b[0]}
	}
	return append(rlpLen(len(b), 0x80), b...)
}
func rlpUint(u uint64) []byte  { return rlpBytes(beBytes(u)) }
func rlpBig(x *big.Int) []byte { return rlpBytes(x.Bytes()) }
func rlpList(items ...[]byte) []byte {
	var body []byte
	for _, it := range items {
		body = append(body, it...)
	}
	return append(rlpLen(len(body), 0xc0), body...)
}

// ---------------------------------------------------------------------------------------------
// keys

type key struct {
	sk      *common.PrivateKey
	ecd     *ecdsa.PrivateKey
	addr    [20]byte
	addrHex string // 0x + lower-case hex
}

func mkKey(i int) *key {
	d := sha256.Sum256([]byte(fmt.Sprintf("verif-c07-key-%d", i)))
	d[0] &= 0x7f // < group order
	k := &key{}
	k.sk = common.HexStringToSecKey("0x" + hex.EncodeToString(d[:]))
	k.ecd = &k.sk.PrivKey
	x := k.ecd.PublicKey.X.Bytes()
	y := k.ecd.PublicKey.Y.Bytes()
	pub := make([]byte, 64)
	copy(pub[32-len(x):32], x)
	copy(pub[64-len(y):], y)
	copy(k.addr[:], keccak(pub)[12:])
	k.addrHex = "0x" + hex.EncodeToString(k.addr[:])
	return k
}

// ---------------------------------------------------------------------------------------------
// honest transactions

type honest struct {
	Name   string // k<key>/<shape>@<height>
	Key    int
	Shape  string
	Height uint64
	Eth    bool
	Tx     types.Transaction
	Sig    []byte // native: 65-byte signature
	// ETH only
	Spec    *ethSpec
	Payload []byte
	SigHash []byte
}

func signNative(tx *types.Transaction, k *key) []byte {
	tx.Hash = refNativeHash(tx)
	s := k.sk.Sign(tx.Hash.Bytes())
	b := s.Bytes()
	tx.Sign = common.BytesToSign(b)
	return b
}

type ethSpec struct {
	Nonce uint64
	Price *big.Int
	Gas   uint64
	To    *[20]byte
	Value *big.Int
	Data  []byte
}

func (s *ethSpec) items() [][]byte {
	to := rlpBytes(nil)
	if s.To != nil {
		to = rlpBytes(s.To[:])
	}
	return [][]byte{rlpUint(s.Nonce), rlpBig(s.Price), rlpUint(s.Gas), to, rlpBig(s.Value), rlpBytes(s.Data)}
}

// buildEth signs spec for chainId under EIP-155 (chainId == nil: unprotected Homestead form).
func buildEth(s *ethSpec, chainId *big.Int, k *key) (payload, sigHash []byte) {
	it := s.items()
	if chainId != nil {
		sigHash = keccak(rlpList(append(it, rlpBig(chainId), rlpUint(0), rlpUint(0))...))
	} else {
		sigHash = keccak(rlpList(it...))
	}
	sig, err := ethcrypto.Sign(sigHash, k.ecd)
	if err != nil {
		panic(err)
	}
	rec := sig[64]
	if rec >= 27 {
		rec -= 27
	}
	v := big.NewInt(int64(27 + rec))
	if chainId != nil {
		v = new(big.Int).Mul(chainId, big.NewInt(2))
		v.Add(v, big.NewInt(int64(35+rec)))
	}
	r := new(big.Int).SetBytes(sig[:32])
	ss := new(big.Int).SetBytes(sig[32:64])
	payload = rlpList(append(it, rlpBig(v), rlpBig(r), rlpBig(ss))...)
	return
}

// group order of secp256k1
var curveN, _ = new(big.Int).SetString("fffffffffffffffffffffffffffffffebaaedce6af48a03bbfd25e8cd0364141", 16)

func pad32(x *big.Int) []byte {
	b := x.Bytes()
	out := make([]byte, 32)
	copy(out[32-len(b):], b)
	return out
}

// ethWithSig encodes the payload of s with the given signature values.
func ethWithSig(s *ethSpec, v, r, ss *big.Int) []byte {
	return rlpList(append(s.items(), rlpBig(v), rlpBig(r), rlpBig(ss))...)
}

func weiToStr(v *big.Int) string {
	if v.Sign() == 0 {
		return "0"
	}
	s := v.String()
	if len(s) <= 18 {
		return "0." + strings.Repeat("0", 18-len(s)) + s
	}
	return s[:len(s)-18] + "." + s[len(s)-18:]
}

// wrapEth is the reference conversion of a signed Ethereum payload to the node's
// transaction form (what the RPC front end hands to the pool).
func wrapEth(s *ethSpec, sender string, chainId string, payload []byte) types.Transaction {
	tx := types.Transaction{}
	tx.Source = sender
	if s.To != nil {
		tx.Target = "0x" + hex.EncodeToString(s.To[:])
	}
	tx.Type = types.TransactionTypeETHTX
	tx.Nonce = s.Nonce
	tx.ChainId = chainId
	abi := "0x0"
	if len(s.Data) > 0 {
		abi = "0x" + hex.EncodeToString(s.Data)
	}
	tx.Data = fmt.Sprintf(`{"gasPrice":"%s","gasLimit":"%d","transferValue":"%s","abiData":"%s"}`, s.Price.String(), s.Gas, weiToStr(s.Value), abi)
	tx.Hash = common.BytesToHash(keccak(payload))
	tx.ExtraData = "0x" + hex.EncodeToString(payload)
	return tx
}

const minerJSON = `{"id":"0x6426f4123f7f5202055c68d6c6e73d7a74bad1487adac79690a53619c8f1e084","publicKey":"0x7a14822562e7878cbaa0ea91f4e7732d9d85502a2acf7723940c681af397c11009d450c463b8c5081e9cf7322fe1ccca062f86c2c81b7f19ce3b99771f13b2fb7c160c21c4dfbf44752b89502cd574972819d812d307e6bf64d67e0f84ce7af5072145272d28fb1df4cc86c14c88dac161e3827e47572623105c6a3f91def95c","vrfPublicKey":"dtZTu7NccUEq3jdhp1/O6ZX5X0M/D60rEFLor1bmbOQ=","applyHeight":0,"stake":2000,"type":1,"status":0,"account":"%s"}`

func bigStr(s string) *big.Int { x, _ := new(big.Int).SetString(s, 10); return x }

func buildHonest(keys []*key, thorough bool) []*honest {
	var out []*honest
	gwei := big.NewInt(1000000000)
	for ki, k := range keys {
		peer := keys[(ki+1)%len(keys)]
		contract := "0x" + hex.EncodeToString(keccak([]byte("contract"), k.addr[:])[12:])
		var contractA [20]byte
		copy(contractA[:], keccak([]byte("contract"), k.addr[:])[12:])
		addN := func(shape string, h uint64, tx types.Transaction) {
			tx.Source = k.addrHex
			tx.ChainId = chainAt(h)
			sig := signNative(&tx, k)
			out = append(out, &honest{Name: fmt.Sprintf("k%d/%s@%d", ki, shape, h), Key: ki, Shape: shape, Height: h, Tx: tx, Sig: sig})
		}
		addE := func(shape string, h uint64, s *ethSpec) {
			payload, sigHash := buildEth(s, bigStr(chainAt(h)), k)
			tx := wrapEth(s, k.addrHex, chainAt(h), payload)
			out = append(out, &honest{Name: fmt.Sprintf("k%d/%s@%d", ki, shape, h), Key: ki, Shape: shape, Height: h, Eth: true, Tx: tx, Spec: s, Payload: payload, SigHash: sigHash})
		}
		tm := "2026-09-25 10:00:00.123456789 +0800 CST"
		// native shapes
		addN("transfer", hHi, types.Transaction{Type: types.TransactionTypeOperatorEvent, Target: peer.addrHex, Time: tm, Nonce: 1,
			ExtraData: fmt.Sprintf(`{"%s":{"balance":"1.25"}}`, peer.addrHex)})
		addN("contract-create", hHi, types.Transaction{Type: types.TransactionTypeContract, Time: tm, Nonce: 0,
			Data: `{"gasPrice":"1000000000","gasLimit":"3000000","transferValue":"0","abiData":"0x6080604052348015600f57600080fd5b50603f80601d6000396000f3fe6080604052600080fdfea26469706673"}`})
		addN("contract-call", hHi, types.Transaction{Type: types.TransactionTypeContract, Target: contract, Time: tm, Nonce: 7,
			Data: fmt.Sprintf(`{"gasPrice":"1000000000","gasLimit":"100000","transferValue":"0.5","abiData":"0xa9059cbb000000000000000000000000%s00000000000000000000000000000000000000000000000000000000000003e8"}`, hex.EncodeToString(peer.addr[:]))})
		addN("miner-apply", hHi, types.Transaction{Type: types.TransactionTypeMinerApply, Time: tm, Nonce: 1<<32 + 5,
			Data: fmt.Sprintf(minerJSON, k.addrHex)})
		addN("miner-refund", hHi, types.Transaction{Type: types.TransactionTypeMinerRefund, Target: peer.addrHex, Time: "1758765600", Nonce: math.MaxUint64,
			Data: `{"amount":100,"minerId":"0x6426f4123f7f5202055c68d6c6e73d7a74bad1487adac79690a53619c8f1e084"}`, ExtraData: "memo-é中\x00\xff"})
		addN("minimal", hHi, types.Transaction{Type: 0})
		addN("transfer-prefork", hLo, types.Transaction{Type: types.TransactionTypeOperatorEvent, Target: peer.addrHex, Time: "10:00", Nonce: 12,
			Data: "1", ExtraData: fmt.Sprintf(`{"%s":{"balance":"3"}}`, peer.addrHex)})
		if thorough {
			addN("big-data", hHi, types.Transaction{Type: types.TransactionTypeContract, Target: contract, Time: tm, Nonce: 99,
				Data: `{"gasPrice":"1000000000","gasLimit":"9000000","abiData":"0x` + strings.Repeat("00ff17a5", 512) + `"}`, ExtraData: strings.Repeat("x", 300)})
			addN("miner-abort", hHi, types.Transaction{Type: types.TransactionTypeMinerAbort, Time: tm, Nonce: 3,
				Data: "0x6426f4123f7f5202055c68d6c6e73d7a74bad1487adac79690a53619c8f1e084"})
		}
		// EIP-155 shapes
		initcode, _ := hex.DecodeString("6080604052348015600f57600080fd5b50603f80601d6000396000f3fe6080604052600080fdfea2646970667358")
		call, _ := hex.DecodeString("a9059cbb000000000000000000000000" + hex.EncodeToString(peer.addr[:]) + "00000000000000000000000000000000000000000000000000000000000003e8")
		addE("eth-create", hHi, &ethSpec{Nonce: 0, Price: gwei, Gas: 3000000, To: nil, Value: big.NewInt(0), Data: initcode})
		addE("eth-call", hHi, &ethSpec{Nonce: 9, Price: gwei, Gas: 100000, To: &contractA, Value: bigStr("1500000000000000000"), Data: call})
		addE("eth-transfer", hHi, &ethSpec{Nonce: 0, Price: gwei, Gas: 21000, To: &peer.addr, Value: big.NewInt(1), Data: nil})
		addE("eth-call-prefork", hLo, &ethSpec{Nonce: 300, Price: big.NewInt(0), Gas: 70000, To: &contractA, Value: big.NewInt(0), Data: []byte{0x7f}})
		if thorough {
			addE("eth-create-value", hHi, &ethSpec{Nonce: 1 << 40, Price: new(big.Int).Mul(gwei, big.NewInt(300)), Gas: 8000000, To: nil, Value: bigStr("123456789012345678901234567890"), Data: bytes.Repeat(initcode, 3)})
		}
	}
	return out
}

// ---------------------------------------------------------------------------------------------
// cases

type txJ struct {
	Source    string `json:"source_hex"`
	Target    string `json:"target_hex"`
	Type      int32  `json:"type"`
	Time      string `json:"time_hex"`
	Data      string `json:"data_hex"`
	ExtraData string `json:"extra_hex"`
	Hash      string `json:"hash"`
	Sign      string `json:"sign"` // "" = nil
	Nonce     string `json:"nonce"`
	ChainId   string `json:"chainid_hex"`
}

type kase struct {
	Base   string `json:"base"`
	Height uint64 `json:"height"`
	Mut    string `json:"mut"`
	Expect string `json:"expect"` // accept | reject
	Tx     txJ    `json:"tx"`
	Human  string `json:"human,omitempty"`
	// call-sequence part (seq.go)
	Part string    `json:"part,omitempty"` // seq-verdict | seq-pure | dirty | sweep | entry
	Seq  []seqStep `json:"seq,omitempty"`
}

func hx(s string) string { return hex.EncodeToString([]byte(s)) }
func unhx(s string) string {
	b, err := hex.DecodeString(s)
	if err != nil {
		panic(err)
	}
	return string(b)
}

func toJ(tx *types.Transaction, sig []byte) txJ {
	j := txJ{Source: hx(tx.Source), Target: hx(tx.Target), Type: tx.Type, Time: hx(tx.Time), Data: hx(tx.Data), ExtraData: hx(tx.ExtraData),
		Hash: hex.EncodeToString(tx.Hash[:]), Nonce: strconv.FormatUint(tx.Nonce, 10), ChainId: hx(tx.ChainId)}
	if sig != nil {
		j.Sign = hex.EncodeToString(sig)
	}
	return j
}

func fromJ(j txJ) (*types.Transaction, []byte) {
	tx := &types.Transaction{Source: unhx(j.Source), Target: unhx(j.Target), Type: j.Type, Time: unhx(j.Time), Data: unhx(j.Data), ExtraData: unhx(j.ExtraData), ChainId: unhx(j.ChainId)}
	hb, _ := hex.DecodeString(j.Hash)
	copy(tx.Hash[:], hb)
	tx.Nonce, _ = strconv.ParseUint(j.Nonce, 10, 64)
	var sig []byte
	if j.Sign != "" {
		sig, _ = hex.DecodeString(j.Sign)
	}
	return tx, sig
}

// observe runs the entry point on a private copy of tx with the given signature bytes
// (nil = no signature).  Returns "accept", "reject:<error>" or "panic:<site>".
func observe(tx *types.Transaction, sig []byte, height uint64) string {
	cp := *tx
	cp.Sign = nil
	if sig != nil {
		cp.Sign = common.BytesToSign(append([]byte(nil), sig...)) // nil when len != 65
	}
	var err error
	p, _, site := fw.Try(func() { err = service.GetTransactionPool().VerifyTransaction(&cp, height) })
	if p {
		return "panic:" + site
	}
	if err == nil {
		return "accept"
	}
	return "reject:" + err.Error()
}

type runner struct {
	c       *fw.Ctx
	idx     int64
	nontriv int64
	equivOK int64
}

func (r *runner) mine() bool { r.idx++; return r.c.Mine(r.idx) }

func human(tx *types.Transaction) string {
	return fmt.Sprintf("Source=%q Target=%q Type=%d Time=%q Nonce=%d ChainId=%q Data=%.80q ExtraData=%.80q Hash=%x", tx.Source, tx.Target, tx.Type, tx.Time, tx.Nonce, tx.ChainId, tx.Data, tx.ExtraData, tx.Hash[:])
}

// mutant: the base was accepted; tx/sig differ from it as described by mut; must be rejected.
func (r *runner) mutant(h *honest, sigName, mut string, tx *types.Transaction, sig []byte) {
	c := r.c
	c.Eval(1)
	r.nontriv++
	o := observe(tx, sig, h.Height)
	c.Outcome(o)
	if strings.HasPrefix(o, "reject:") {
		return
	}
	if o2 := observe(tx, sig, h.Height); o2 != o {
		c.Violation("C07:unstable-verdict", "mutant", fmt.Sprintf("%s %s: %s then %s", h.Name, mut, o, o2), kase{Base: h.Name, Height: h.Height, Mut: mut, Expect: "reject", Tx: toJ(tx, sig), Human: human(tx)})
		return
	}
	kind := "native"
	if h.Eth {
		kind = "ethtx"
	}
	// one signature per (kind, field) resp. forgery class; the exact mutation is in the message
	if i := strings.Index(sigName, "-bitflip"); i > 0 {
		sigName = sigName[:i]
	} else if i := strings.Index(sigName, "-subst"); i > 0 {
		sigName = sigName[:i]
	}
	if strings.HasPrefix(sigName, "rehash:") {
		sigName = "rehash-keeps-signature"
	}
	sg := "C07:accept:" + kind + ":" + sigName
	if strings.HasPrefix(sigName, "ethtx-rlp-") {
		sg = "C07:accept:" + sigName
	}
	if strings.HasPrefix(o, "panic:") {
		sg = "C07:" + o
	}
	if os.Getenv("C07_DEBUG") != "" { // development aid: C07_DEBUG=<file> lists every accepted mutant
		f, _ := os.OpenFile(os.Getenv("C07_DEBUG"), os.O_APPEND|os.O_CREATE|os.O_WRONLY, 0o644)
		fmt.Fprintf(f, "ACCEPTED %s %s -> %s [%s]\n", h.Name, mut, o, sg)
		f.Close()
	}
	c.Violation(sg, "mutant", fmt.Sprintf("%s, mutation %s: verdict %s (honest base accepted; every mutant must be rejected)", h.Name, mut, o),
		kase{Base: h.Name, Height: h.Height, Mut: mut, Expect: "reject", Tx: toJ(tx, sig), Human: human(tx)})
}

// equivalent re-encoding (same content under the node's own parsing): observed, never flagged.
func (r *runner) equiv(h *honest, mut string, tx *types.Transaction, sig []byte) {
	r.c.Eval(1)
	o := observe(tx, sig, h.Height)
	r.c.Outcome("equiv-encoding:" + o)
	if o == "accept" {
		r.equivOK++
	}
}

// ---------------------------------------------------------------------------------------------
// field access

type sfield struct {
	name string
	get  func(*types.Transaction) *string
}

var sfields = []sfield{
	{"Data", func(t *types.Transaction) *string { return &t.Data }},
	{"Source", func(t *types.Transaction) *string { return &t.Source }},
	{"Target", func(t *types.Transaction) *string { return &t.Target }},
	{"Time", func(t *types.Transaction) *string { return &t.Time }},
	{"ExtraData", func(t *types.Transaction) *string { return &t.ExtraData }},
	{"ChainId", func(t *types.Transaction) *string { return &t.ChainId }},
}

type sub struct {
	name string
	val  string
}

func isHexAddr(s string) bool {
	if len(s) != 42 || s[0] != '0' || (s[1] != 'x' && s[1] != 'X') {
		return false
	}
	_, err := hex.DecodeString(s[2:])
	return err == nil
}

// generic structural edits + field specific alphabet
func stringAlphabet(field string, orig string, h *honest, keys []*key, all []*honest) []sub {
	var a []sub
	add := func(n, v string) { a = append(a, sub{n, v}) }
	add("empty", "")
	add("append-space", orig+" ")
	add("append-nul", orig+"\x00")
	add("prepend-space", " "+orig)
	add("append-zero-digit", orig+"0")
	add("prepend-zero-digit", "0"+orig)
	if len(orig) > 0 {
		add("drop-last", orig[:len(orig)-1])
		add("drop-first", orig[1:])
		add("doubled", orig+orig)
	}
	add("upper", strings.ToUpper(orig))
	add("lower", strings.ToLower(orig))
	if strings.HasPrefix(orig, "0x") {
		add("0X-prefix", "0X"+orig[2:])
		add("no-prefix", orig[2:])
		add("hex-upper", "0x"+strings.ToUpper(orig[2:]))
	}
	switch field {
	case "Source", "Target":
		for _, k := range keys {
			add("other-address", k.addrHex)
		}
		add("zero-address", "0x0000000000000000000000000000000000000000")
		add("self", h.Tx.Source)
		add("swap-source-target", h.Tx.Target)
	case "ChainId":
		for _, v := range []string{"0", "1", "2025", "9527", chainOld, chainNew, "+" + orig, "0" + orig, orig + ".0", "0x251c", "9500", "9499", "-" + orig} {
			add("other-chainid", v)
		}
	case "Data", "ExtraData", "Time":
		add("swap-data-extradata", h.Tx.ExtraData)
		add("swap-data-extradata", h.Tx.Data)
		add("other-time", "2026-09-25 10:00:00.123456788 +0800 CST")
		for _, o := range all {
			if o.Key == h.Key && o.Eth == h.Eth && o != h {
				add("other-tx-value", *fieldOf(field, &o.Tx))
			}
		}
		add("json-space", strings.Replace(orig, ":", ": ", 1))
		add("json-empty", "{}")
	}
	// drop no-ops and duplicates
	seen := map[string]bool{orig: true}
	var out []sub
	for _, s := range a {
		if seen[s.val] {
			continue
		}
		seen[s.val] = true
		out = append(out, s)
	}
	return out
}

func fieldOf(name string, t *types.Transaction) *string {
	for _, f := range sfields {
		if f.name == name {
			return f.get(t)
		}
	}
	panic(name)
}

var allTypes = []int32{2, 3, 4, 5, 6, 7, 99, 100, 188, 200, 600, 601, 602, 603, 604, 605, 606, 607, 608, 609, 610, 611, 612, 0, 1, -1, math.MaxInt32, math.MinInt32}

// content equality of wrapper fields of an Ethereum transaction under the node's own parsing
func ethEquivalent(field, orig, mut string) bool {
	switch field {
	case "Source", "Target":
		if orig == "" || !isHexAddr(mut) {
			return false
		}
		return strings.EqualFold(orig[2:], mut[2:])
	case "ChainId":
		a, ok1 := new(big.Int).SetString(orig, 10)
		b, ok2 := new(big.Int).SetString(mut, 10)
		return ok1 && ok2 && a.Cmp(b) == 0
	case "ExtraData":
		a, b := common.FromHex(orig), common.FromHex(mut)
		return len(a) > 0 && bytes.Equal(a, b)
	case "Data":
		var x, y types.ContractData
		if json.Unmarshal([]byte(orig), &x) != nil || json.Unmarshal([]byte(mut), &y) != nil {
			return false
		}
		return x.GasPrice == y.GasPrice && x.GasLimit == y.GasLimit && x.TransferValue == y.TransferValue && strings.EqualFold(x.AbiData, y.AbiData)
	}
	return false
}

// ---------------------------------------------------------------------------------------------
// RLP layout of an Ethereum payload (for signatures only)

var ethElems = []string{"nonce", "gasprice", "gaslimit", "recipient", "value", "data", "v", "r", "s"}

type span struct {
	name     string
	hdr, end int // header start, end (exclusive)
	body     int // content start
}

func rlpHeader(b []byte, at int) (hdrLen, bodyLen int) {
	t := b[at]
	switch {
	case t < 0x80:
		return 0, 1
	case t < 0xb8:
		return 1, int(t - 0x80)
	case t < 0xc0:
		n := int(t - 0xb7)
		l := 0
		for i := 0; i < n; i++ {
			l = l<<8 | int(b[at+1+i])
		}
		return 1 + n, l
	case t < 0xf8:
		return 1, int(t - 0xc0)
	default:
		n := int(t - 0xf7)
		l := 0
		for i := 0; i < n; i++ {
			l = l<<8 | int(b[at+1+i])
		}
		return 1 + n, l
	}
}

func layout(payload []byte) []span {
	hl, _ := rlpHeader(payload, 0)
	sp := []span{{name: "list", hdr: 0, body: hl, end: hl}}
	at := hl
	for i := 0; at < len(payload) && i < len(ethElems); i++ {
		h, l := rlpHeader(payload, at)
		sp = append(sp, span{name: ethElems[i], hdr: at, body: at + h, end: at + h + l})
		at += h + l
	}
	return sp
}

func describeByte(sp []span, payload, mutated []byte, i int) string {
	for _, s := range sp {
		if i >= s.hdr && i < s.end {
			if i < s.body || s.name == "list" {
				return fmt.Sprintf("%s-%02x-%02x", s.name, payload[i], mutated[i])
			}
			return s.name + "-content"
		}
	}
	return "trailing"
}

// ---------------------------------------------------------------------------------------------
// enumeration

func flipString(s string, i int, b uint) string {
	bs := []byte(s)
	bs[i] ^= 1 << b
	return string(bs)
}

func (r *runner) nativeMutants(h *honest, keys []*key, all []*honest) {
	base := h.Tx
	k := keys[h.Key]
	// re-hash helper: content changed, hash recomputed, signature kept
	rehash := func(field, mut string, tx types.Transaction) {
		if !r.mine() {
			return
		}
		tx.Hash = refNativeHash(&tx)
		r.mutant(h, "rehash:"+field, mut+" + recomputed hash, original signature", &tx, h.Sig)
	}
	// string fields
	for _, f := range sfields {
		orig := *f.get(&base)
		for i := 0; i < len(orig); i++ {
			for b := uint(0); b < 8; b++ {
				tx := base
				*f.get(&tx) = flipString(orig, i, b)
				mut := fmt.Sprintf("%s byte %d bit %d", f.name, i, b)
				if r.mine() {
					r.mutant(h, f.name+"-bitflip", mut, &tx, h.Sig)
				}
				rehash(f.name+"-bitflip", mut, tx)
			}
		}
		for _, s := range stringAlphabet(f.name, orig, h, keys, all) {
			tx := base
			*f.get(&tx) = s.val
			mut := fmt.Sprintf("%s := %q (%s)", f.name, s.val, s.name)
			if r.mine() {
				r.mutant(h, f.name+"-subst:"+s.name, mut, &tx, h.Sig)
			}
			rehash(f.name+"-subst:"+s.name, mut, tx)
		}
	}
	// Nonce
	for b := uint(0); b < 64; b++ {
		tx := base
		tx.Nonce ^= 1 << b
		mut := fmt.Sprintf("Nonce bit %d", b)
		if r.mine() {
			r.mutant(h, "Nonce-bitflip", mut, &tx, h.Sig)
		}
		rehash("Nonce-bitflip", mut, tx)
	}
	seenN := map[uint64]bool{base.Nonce: true}
	for _, n := range []uint64{0, 1, base.Nonce + 1, base.Nonce - 1, ^base.Nonce, 1 << 32, 1 << 63, math.MaxUint64, base.Nonce * 10, base.Nonce / 10} {
		if seenN[n] {
			continue
		}
		seenN[n] = true
		tx := base
		tx.Nonce = n
		mut := fmt.Sprintf("Nonce := %d", n)
		if r.mine() {
			r.mutant(h, "Nonce-subst", mut, &tx, h.Sig)
		}
		rehash("Nonce-subst", mut, tx)
	}
	// Type
	for b := uint(0); b < 32; b++ {
		tx := base
		tx.Type ^= 1 << b
		mut := fmt.Sprintf("Type bit %d", b)
		if r.mine() {
			r.mutant(h, "Type-bitflip", mut, &tx, h.Sig)
		}
		rehash("Type-bitflip", mut, tx)
	}
	seenT := map[int32]bool{base.Type: true}
	for _, t := range append(append([]int32{}, allTypes...), base.Type+1, base.Type-1, base.Type*10) {
		if seenT[t] {
			continue
		}
		seenT[t] = true
		tx := base
		tx.Type = t
		mut := fmt.Sprintf("Type := %d", t)
		if r.mine() {
			r.mutant(h, "Type-subst", mut, &tx, h.Sig)
		}
		rehash("Type-subst", mut, tx)
	}
	// Hash
	for i := 0; i < 32; i++ {
		for b := uint(0); b < 8; b++ {
			if !r.mine() {
				continue
			}
			tx := base
			tx.Hash[i] ^= 1 << b
			r.mutant(h, "Hash-bitflip", fmt.Sprintf("Hash byte %d bit %d", i, b), &tx, h.Sig)
		}
	}
	pre := func(t *types.Transaction, sep string) []byte {
		return []byte(strings.Join([]string{t.Data, strconv.FormatUint(t.Nonce, 10), t.Source, t.Target, strconv.Itoa(int(t.Type)), t.Time, t.ExtraData, t.ChainId}, sep))
	}
	var hs []sub
	hs = append(hs, sub{"zero", string(make([]byte, 32))}, sub{"ones", strings.Repeat("\xff", 32)})
	hs = append(hs, sub{"keccak-of-content", string(keccak(pre(&base, "")))})
	d2 := sha256.Sum256(base.Hash[:])
	hs = append(hs, sub{"double-sha256", string(d2[:])})
	d3 := sha256.Sum256(pre(&base, "|"))
	hs = append(hs, sub{"separated-preimage", string(d3[:])})
	rev := make([]byte, 32)
	for i := range rev {
		rev[i] = base.Hash[31-i]
	}
	hs = append(hs, sub{"reversed", string(rev)})
	for _, o := range all {
		if o.Key == h.Key && o != h {
			hs = append(hs, sub{"other-tx-hash", string(o.Tx.Hash[:])})
		}
	}
	for _, s := range hs {
		if !r.mine() || s.val == string(base.Hash[:]) {
			continue
		}
		tx := base
		copy(tx.Hash[:], s.val)
		r.mutant(h, "Hash-subst:"+s.name, "Hash := "+s.name, &tx, h.Sig)
	}
	// Sign: every bit of the 65 bytes
	for i := 0; i < 65; i++ {
		for b := uint(0); b < 8; b++ {
			if !r.mine() {
				continue
			}
			sg := append([]byte(nil), h.Sig...)
			sg[i] ^= 1 << b
			tx := base
			r.mutant(h, "Sign-bitflip", fmt.Sprintf("Sign byte %d bit %d", i, b), &tx, sg)
		}
	}
	type ssub struct {
		name string
		val  []byte
	}
	var ss []ssub
	ss = append(ss, ssub{"nil", nil}, ssub{"zero", make([]byte, 65)}, ssub{"ones", bytes.Repeat([]byte{0xff}, 65)})
	sw := append([]byte(nil), h.Sig...)
	copy(sw[:32], h.Sig[32:64])
	copy(sw[32:64], h.Sig[:32])
	ss = append(ss, ssub{"r-s-swapped", sw})
	for v := 0; v < 256; v++ { // every value of the recovery-id byte
		x := append([]byte(nil), h.Sig...)
		x[64] = byte(v)
		ss = append(ss, ssub{"recid", x})
	}
	for _, o := range all {
		if o.Key == h.Key && o != h && !o.Eth {
			ss = append(ss, ssub{"other-tx-sign", o.Sig})
		}
	}
	for ki, ok := range keys {
		if ki == h.Key {
			continue
		}
		s := ok.sk.Sign(base.Hash.Bytes())
		ss = append(ss, ssub{"same-hash-other-key", s.Bytes()})
	}
	ss = append(ss, ssub{"truncated-64", h.Sig[:64]}, ssub{"extended-66", append(append([]byte(nil), h.Sig...), 0)})
	// algebraic relatives of the honest signature: mirrored s, mirrored r, other recovery id,
	// each with the recovery id written as recid and as recid+27
	{
		r0 := new(big.Int).SetBytes(h.Sig[:32])
		s0 := new(big.Int).SetBytes(h.Sig[32:64])
		rc := h.Sig[64]
		if rc >= 27 {
			rc -= 27
		}
		nr, ns := new(big.Int).Sub(curveN, r0), new(big.Int).Sub(curveN, s0)
		for _, rel := range []struct {
			name string
			r, s *big.Int
			rc   byte
		}{
			{"mirrored-s-recid-flipped", r0, ns, rc ^ 1},
			{"mirrored-s", r0, ns, rc},
			{"recid-flipped", r0, s0, rc ^ 1},
			{"mirrored-r", nr, s0, rc},
			{"mirrored-r-recid-flipped", nr, s0, rc ^ 1},
		} {
			for _, off := range []byte{0, 27} {
				x := append(append(pad32(rel.r), pad32(rel.s)...), rel.rc+off)
				ss = append(ss, ssub{"relative:" + rel.name, x})
			}
		}
	}
	for _, s := range ss {
		if !r.mine() || bytes.Equal(s.val, h.Sig) {
			continue
		}
		tx := base
		if s.name == "recid" && len(s.val) == 65 && s.val[64] == h.Sig[64]-27 {
			// the node reads the recovery id as v or v-27 ("to stay consistent with Ethereum"):
			// same recovery id, same (r,s) -> same signature content; observed only.
			r.equiv(h, "Sign recovery id alias v<->v-27", &tx, s.val)
			continue
		}
		r.mutant(h, "Sign-subst:"+s.name, fmt.Sprintf("Sign := %s %x", s.name, s.val), &tx, s.val)
	}
	// forgeries with all dependent fields recomputed
	for ki, ok := range keys {
		if ki == h.Key {
			continue
		}
		if r.mine() { // attacker key signs the victim's content (Source = victim)
			tx := base
			sg := signNative(&tx, ok)
			r.mutant(h, "forge:signed-by-other-key", fmt.Sprintf("content unchanged (Source = k%d), hash and signature by k%d", h.Key, ki), &tx, sg)
		}
		if r.mine() { // Source := other, re-hashed, signed by the original key
			tx := base
			tx.Source = ok.addrHex
			sg := signNative(&tx, k)
			r.mutant(h, "forge:source-other-signed-by-self", fmt.Sprintf("Source := k%d address, hash recomputed, signed by k%d", ki, h.Key), &tx, sg)
		}
	}
	for _, cid := range []string{"", "0", "1", "2025", "9527", chainOld, chainNew, "0" + base.ChainId, "+" + base.ChainId, base.ChainId + " ", " " + base.ChainId} {
		if cid == base.ChainId || !r.mine() {
			continue
		}
		tx := base
		tx.ChainId = cid
		sg := signNative(&tx, k)
		r.mutant(h, "forge:foreign-chainid-honestly-signed", fmt.Sprintf("ChainId := %q, hash and signature recomputed by the owner", cid), &tx, sg)
	}
	for _, src := range []string{strings.ToUpper(base.Source), "0x" + strings.ToUpper(base.Source[2:]), base.Source[2:], base.Source + " ", ""} {
		if src == base.Source || !r.mine() {
			continue
		}
		// the declared sender must be the recovered one; a differently spelled Source in the signed
		// content is a different declared sender string – the statement asks for "recovers to the
		// declared sender"; a same-address respelling is the same sender, so it is observed only.
		tx := base
		tx.Source = src
		sg := signNative(&tx, k)
		if isHexAddr(src) && strings.EqualFold(src[2:], base.Source[2:]) {
			r.equiv(h, "Source respelled, honestly re-signed", &tx, sg)
		} else {
			r.mutant(h, "forge:source-not-an-address-of-signer", fmt.Sprintf("Source := %q, honestly re-signed", src), &tx, sg)
		}
	}
}

func (r *runner) ethMutants(h *honest, keys []*key, all []*honest, pairBits bool) {
	base := h.Tx
	k := keys[h.Key]
	c := r.c
	// wrapper string fields (Time is not part of the claim for wrapped transactions)
	for _, f := range sfields {
		if f.name == "Time" {
			continue
		}
		orig := *f.get(&base)
		try := func(sigName, mut, val string) {
			if !r.mine() {
				return
			}
			tx := base
			*f.get(&tx) = val
			if ethEquivalent(f.name, orig, val) {
				r.equiv(h, mut, &tx, nil)
				return
			}
			r.mutant(h, sigName, mut, &tx, nil)
		}
		for i := 0; i < len(orig); i++ {
			for b := uint(0); b < 8; b++ {
				try(f.name+"-bitflip", fmt.Sprintf("%s byte %d bit %d", f.name, i, b), flipString(orig, i, b))
			}
		}
		for _, s := range stringAlphabet(f.name, orig, h, keys, all) {
			try(f.name+"-subst:"+s.name, fmt.Sprintf("%s := %.200q (%s)", f.name, s.val, s.name), s.val)
		}
	}
	// semantic Data alphabet: every claimed quantity changed on its own
	sp := h.Spec
	alt := func(name string, f func(s *ethSpec)) {
		if !r.mine() {
			return
		}
		s2 := *sp
		f(&s2)
		w := wrapEth(&s2, base.Source, base.ChainId, h.Payload)
		tx := base
		tx.Data = w.Data
		if tx.Data == base.Data {
			return
		}
		r.mutant(h, "Data-subst:"+name, "Data := wrapper data with "+name+" changed", &tx, nil)
	}
	alt("gasprice", func(s *ethSpec) { s.Price = new(big.Int).Add(s.Price, big.NewInt(1)) })
	alt("gaslimit", func(s *ethSpec) { s.Gas++ })
	alt("gaslimit-x10", func(s *ethSpec) { s.Gas *= 10 })
	alt("value+1wei", func(s *ethSpec) { s.Value = new(big.Int).Add(s.Value, big.NewInt(1)) })
	alt("value-x10", func(s *ethSpec) { s.Value = new(big.Int).Mul(new(big.Int).Add(s.Value, big.NewInt(1)), big.NewInt(10)) })
	alt("value-negative", func(s *ethSpec) { s.Value = new(big.Int).Neg(new(big.Int).Add(s.Value, big.NewInt(1))) })
	alt("calldata-append", func(s *ethSpec) { s.Data = append(append([]byte(nil), s.Data...), 0) })
	alt("calldata-empty", func(s *ethSpec) { s.Data = nil })
	// Nonce, Type
	for b := uint(0); b < 64; b++ {
		if !r.mine() {
			continue
		}
		tx := base
		tx.Nonce ^= 1 << b
		r.mutant(h, "Nonce-bitflip", fmt.Sprintf("Nonce bit %d", b), &tx, nil)
	}
	for _, n := range []uint64{0, 1, base.Nonce + 1, base.Nonce - 1, math.MaxUint64, base.Nonce * 10} {
		if n == base.Nonce || !r.mine() {
			continue
		}
		tx := base
		tx.Nonce = n
		r.mutant(h, "Nonce-subst", fmt.Sprintf("Nonce := %d", n), &tx, nil)
	}
	for b := uint(0); b < 32; b++ {
		if !r.mine() {
			continue
		}
		tx := base
		tx.Type ^= 1 << b
		r.mutant(h, "Type-bitflip", fmt.Sprintf("Type bit %d", b), &tx, nil)
	}
	for _, t := range allTypes {
		if t == base.Type || !r.mine() {
			continue
		}
		tx := base
		tx.Type = t
		r.mutant(h, "Type-subst", fmt.Sprintf("Type := %d", t), &tx, nil)
	}
	// Hash
	for i := 0; i < 32; i++ {
		for b := uint(0); b < 8; b++ {
			if !r.mine() {
				continue
			}
			tx := base
			tx.Hash[i] ^= 1 << b
			r.mutant(h, "Hash-bitflip", fmt.Sprintf("Hash byte %d bit %d", i, b), &tx, nil)
		}
	}
	d := sha256.Sum256(h.Payload)
	hs := []sub{{"zero", string(make([]byte, 32))}, {"eip155-signing-hash", string(h.SigHash)}, {"sha256-of-payload", string(d[:])}}
	nh := refNativeHash(&base)
	hs = append(hs, sub{"native-digest-of-wrapper", string(nh[:])})
	for _, o := range all {
		if o.Key == h.Key && o != h {
			hs = append(hs, sub{"other-tx-hash", string(o.Tx.Hash[:])})
		}
	}
	for _, s := range hs {
		if !r.mine() {
			continue
		}
		tx := base
		copy(tx.Hash[:], s.val)
		r.mutant(h, "Hash-subst:"+s.name, "Hash := "+s.name, &tx, nil)
	}
	// every bit of the signed RLP payload
	lay := layout(h.Payload)
	nbits := len(h.Payload) * 8
	flipAt := func(p []byte, bit int) { p[bit/8] ^= 1 << uint(bit%8) }
	for bit := 0; bit < nbits; bit++ {
		if !r.mine() {
			continue
		}
		p := append([]byte(nil), h.Payload...)
		flipAt(p, bit)
		tx := base
		tx.ExtraData = "0x" + hex.EncodeToString(p)
		r.mutant(h, "ethtx-rlp-"+describeByte(lay, h.Payload, p, bit/8), fmt.Sprintf("RLP payload byte %d bit %d (%02x -> %02x)", bit/8, bit%8, h.Payload[bit/8], p[bit/8]), &tx, nil)
	}
	// algebraic relatives of the payload signature (v parity flipped / s mirrored / r mirrored), once
	// with nothing else recomputed and once with the wrapper hash recomputed for the new payload
	{
		var vv, rr, sv *big.Int
		for _, spn := range lay {
			x := new(big.Int).SetBytes(h.Payload[spn.body:spn.end])
			switch spn.name {
			case "v":
				vv = x
			case "r":
				rr = x
			case "s":
				sv = x
			}
		}
		vf := new(big.Int).Set(vv) // same chain id, other parity: 35+2c <-> 36+2c
		if vv.Bit(0) == 1 {
			vf.Add(vf, big.NewInt(1))
		} else {
			vf.Sub(vf, big.NewInt(1))
		}
		nr, ns := new(big.Int).Sub(curveN, rr), new(big.Int).Sub(curveN, sv)
		for _, rel := range []struct {
			name    string
			v, r, s *big.Int
		}{
			{"mirrored-s-v-flipped", vf, rr, ns},
			{"mirrored-s", vv, rr, ns},
			{"v-flipped", vf, rr, sv},
			{"mirrored-r", vv, nr, sv},
			{"mirrored-r-v-flipped", vf, nr, sv},
		} {
			p := ethWithSig(sp, rel.v, rel.r, rel.s)
			if r.mine() {
				tx := base
				tx.ExtraData = "0x" + hex.EncodeToString(p)
				r.mutant(h, "payload-signature-relative", "RLP payload signature := "+rel.name+", nothing else recomputed", &tx, nil)
			}
			if r.mine() {
				tx := wrapEth(sp, base.Source, base.ChainId, p)
				r.mutant(h, "forge:payload-signature-relative-rehashed", "RLP payload signature := "+rel.name+", wrapper hash recomputed", &tx, nil)
			}
		}
	}
	// payload length edits
	for _, e := range []struct {
		name string
		p    []byte
	}{
		{"payload-trailing-zero", append(append([]byte(nil), h.Payload...), 0)},
		{"payload-trailing-80", append(append([]byte(nil), h.Payload...), 0x80)},
		{"payload-truncated", h.Payload[:len(h.Payload)-1]},
		{"payload-leading-zero", append([]byte{0}, h.Payload...)},
	} {
		if !r.mine() {
			continue
		}
		tx := base
		tx.ExtraData = "0x" + hex.EncodeToString(e.p)
		r.mutant(h, "ExtraData-subst:"+e.name, "ExtraData := "+e.name, &tx, nil)
	}
	// forgeries with recomputed dependent fields
	for ki, ok := range keys {
		if ki == h.Key {
			continue
		}
		if r.mine() { // attacker signs the same content; wrapper still declares the victim
			p, _ := buildEth(sp, bigStr(base.ChainId), ok)
			tx := wrapEth(sp, base.Source, base.ChainId, p)
			r.mutant(h, "forge:signed-by-other-key", fmt.Sprintf("payload signed by k%d, wrapper (hash recomputed) declares k%d", ki, h.Key), &tx, nil)
		}
	}
	for _, cid := range []string{"0", "1", "2025", "9527", chainOld, chainNew} {
		if cid == base.ChainId {
			continue
		}
		p, _ := buildEth(sp, bigStr(cid), k)
		if r.mine() {
			tx := wrapEth(sp, base.Source, cid, p)
			r.mutant(h, "forge:foreign-chainid-honestly-signed", fmt.Sprintf("EIP-155 signed for chain %s, wrapper consistent", cid), &tx, nil)
		}
		if r.mine() {
			tx2 := wrapEth(sp, base.Source, base.ChainId, p)
			r.mutant(h, "forge:foreign-chainid-wrapper-claims-local", fmt.Sprintf("EIP-155 signed for chain %s, wrapper claims %s", cid, base.ChainId), &tx2, nil)
		}
	}
	// an unprotected (pre-EIP-155, v = 27/28) signature of the same content: no chain id is signed,
	// so it is not "the signed payload under EIP-155 for this chain" whatever the wrapper declares
	pu, _ := buildEth(sp, nil, k)
	for _, cid := range []string{"0", base.ChainId, ""} {
		if !r.mine() {
			continue
		}
		tx := wrapEth(sp, base.Source, cid, pu)
		r.mutant(h, "unprotected-pre-eip155-signature", fmt.Sprintf("payload signed without chain id (Homestead form, v=27/28), wrapper ChainId %q", cid), &tx, nil)
	}
	if !pairBits {
		return
	}
	// thorough: all pairs of bit flips of the payload
	for b1 := 0; b1 < nbits; b1++ {
		if !r.mine() {
			continue
		}
		if c.Expired() { // keep the case numbering in step with the other workers
			c.Cap("time budget in payload bit-pair enumeration")
			continue
		}
		for b2 := b1 + 1; b2 < nbits; b2++ {
			p := append([]byte(nil), h.Payload...)
			flipAt(p, b1)
			flipAt(p, b2)
			tx := base
			tx.ExtraData = "0x" + hex.EncodeToString(p)
			r.mutant(h, "ethtx-rlp-pair:"+describeByte(lay, h.Payload, p, b1/8)+"+"+describeByte(lay, h.Payload, p, b2/8), fmt.Sprintf("RLP payload bits %d and %d", b1, b2), &tx, nil)
		}
	}
}

// All single-boundary re-partitions of the digest preimage: k trailing bytes of one hashed field
// move to the front of the next one (or back).  Two adjacent authenticated fields change, the
// claimed hash and the signature stay; Nonce / Type must remain canonical decimals to be
// representable.  Executed and counted only (outside the statement's quantifier), never flagged.
func (r *runner) boundaryShifts(h *honest) {
	base := h.Tx
	names := []string{"Data", "Nonce", "Source", "Target", "Type", "Time", "ExtraData", "ChainId"}
	parts := []string{base.Data, strconv.FormatUint(base.Nonce, 10), base.Source, base.Target, strconv.FormatInt(int64(base.Type), 10), base.Time, base.ExtraData, base.ChainId}
	emit := func(i int, l, rt string) {
		if !r.mine() {
			return
		}
		p := append([]string(nil), parts...)
		p[i], p[i+1] = l, rt
		n, err := strconv.ParseUint(p[1], 10, 64)
		if err != nil || strconv.FormatUint(n, 10) != p[1] {
			return
		}
		t, err := strconv.ParseInt(p[4], 10, 32)
		if err != nil || strconv.FormatInt(t, 10) != p[4] {
			return
		}
		tx := base
		tx.Data, tx.Nonce, tx.Source, tx.Target, tx.Type, tx.Time, tx.ExtraData, tx.ChainId = p[0], n, p[2], p[3], int32(t), p[5], p[6], p[7]
		if refNativeHash(&tx) != base.Hash {
			panic("boundary shift changed the preimage")
		}
		// observation only: two fields change and the hash is still the node's digest of the content,
		// which the statement's quantifier (single-field / single-bit mutations) does not cover
		r.c.Eval(1)
		o := observe(&tx, h.Sig, h.Height)
		r.c.Outcome("boundary-shift " + names[i] + "|" + names[i+1] + ":" + o)
		r.c.Count("boundary_shift_variants_executed", 1)
		if o == "accept" {
			r.c.Count("boundary_shift_variants_accepted", 1)
		}
	}
	for i := 0; i+1 < len(parts); i++ {
		l, rt := parts[i], parts[i+1]
		for k := 1; k <= len(l); k++ {
			emit(i, l[:len(l)-k], l[len(l)-k:]+rt)
		}
		for k := 1; k <= len(rt); k++ {
			emit(i, l+rt[:k], rt[k:])
		}
	}
}

func boot() {
	err := node.Boot(func(c *common.ChainConfig) {
		node.ForksAllOn(c)
		c.Proposal001Block = p001
		c.OriginalChainId = chainOld
	}, false)
	if err != nil {
		panic(err)
	}
	common.SetBlockHeight(hHi)
	chainNew = common.LocalChainConfig.ChainId
	if chainNew == chainOld || common.ChainId(hHi) != chainNew || common.ChainId(hLo) != chainOld {
		panic("unexpected chain id configuration")
	}
}

func mkKeys(n int) []*key {
	var ks []*key
	for i := 0; i < n; i++ {
		ks = append(ks, mkKey(i))
	}
	return ks
}

func run(c *fw.Ctx) {
	c.ConcPart()
	boot()
	nk := 3
	if c.Thorough() {
		nk = 6
	}
	keys := mkKeys(nk)
	all := buildHonest(keys, c.Thorough())
	r := &runner{c: c}
	accepted := map[*honest]bool{}
	for _, h := range all {
		o := observe(&h.Tx, h.Sig, h.Height)
		accepted[h] = o == "accept"
		if !r.mine() {
			continue
		}
		c.Eval(1)
		c.Outcome("honest:" + o)
		r.nontriv++
		if o != "accept" {
			kind := "native"
			if h.Eth {
				kind = "ethtx"
			}
			c.Violation("C07:reject-honest:"+kind+":"+h.Shape, "honest", fmt.Sprintf("honestly signed %s: %s", h.Name, o),
				kase{Base: h.Name, Height: h.Height, Mut: "none", Expect: "accept", Tx: toJ(&h.Tx, h.Sig), Human: human(&h.Tx)})
			continue
		}
		// honest transaction presented at a height on the other side of the chain-id fork
		other := hLo
		if h.Height == hLo {
			other = hHi
		}
		c.Eval(1)
		r.nontriv++
		o2 := observe(&h.Tx, h.Sig, other)
		c.Outcome(o2)
		if o2 == "accept" {
			kind := "native"
			if h.Eth {
				kind = "ethtx"
			}
			c.Violation("C07:accept:"+kind+":chainid-of-other-fork-side", "mutant", fmt.Sprintf("%s (chain id %s) accepted at height %d where the chain id is %s", h.Name, h.Tx.ChainId, other, chainAt(other)),
				kase{Base: h.Name, Height: other, Mut: "height on the other side of P001", Expect: "reject", Tx: toJ(&h.Tx, h.Sig), Human: human(&h.Tx)})
		}
	}
	samples := 0
	for _, h := range all {
		if !accepted[h] {
			continue
		}
		if c.Expired() {
			c.Cap("time budget before " + h.Name)
			break
		}
		if h.Eth {
			r.ethMutants(h, keys, all, c.Thorough() && h.Key == 0)
		} else {
			r.nativeMutants(h, keys, all)
			r.boundaryShifts(h)
		}
		if samples < 3 && h.Key == 0 && (h.Shape == "contract-call" || h.Shape == "eth-create" || h.Shape == "eth-call") {
			samples++
			c.Sample(kase{Base: h.Name, Height: h.Height, Mut: "none (honest base)", Expect: "accept", Tx: toJ(&h.Tx, h.Sig), Human: human(&h.Tx)})
		}
	}
	r.ethVWindow(keys, all)
	r.ethGrid(keys, all)
	r.keySweep(keys, all)
	// call sequences: history independence, aliasing, unchanged arguments, dirty destinations
	r.seqVerdicts(keys, false)
	r.seqPure(keys, false)
	r.dirtyDestination(keys, false)
	// entry-point dimension: the gateway write handler (last: it installs a latest state)
	r.entryPoints(keys)
	r.peerBatch(keys)
	r.poolStates(keys)
	c.Note("dirty_destination_note", "observation, not flagged (no admission path decodes into a reused object; upstream go-ethereum behaves the same): t := new(eth_tx.Transaction); rlp.DecodeBytes(encA, t); t.Hash() or eth_tx.Sender(signer, t); rlp.DecodeBytes(encB, t) => t.Hash() / Sender still answer for A (DecodeRLP does not reset the hash/from caches) while the fields are B's. Sign.GetR/GetS return big.Int values sharing words with the Sign (counter sign_getr_result_shares_words_with_sign).")
	c.NontrivialN(r.nontriv)
	c.Count("equivalent_reencodings_accepted(observation)", r.equivOK)
	c.Note("boundary_shift_note", "GenHash concatenates the hashed fields without separators, so moving bytes across one field boundary (two-field change) keeps hash and signature; such variants are executed and counted (boundary_shift_variants_accepted) but are outside the property's quantifier (single-field / single-bit mutations) and the hash is still the node's digest of the content: not a violation")
	c.Note("keys", nk)
	c.Note("honest_transactions", len(all))
	c.Note("chain_ids", fmt.Sprintf("%s below height %d, %s from it on; honest bases at heights %d and %d", chainOld, p001, chainNew, hLo, hHi))
	c.Note("outside_bound", "multi-field forgeries other than the listed recompute classes, ECDSA (r, n-s) malleability, the v/v-27 recovery-id alias (same signature content), SHA-256/Keccak collisions, all re-partitions of the unseparated digest preimage (single-boundary ones are executed and counted only)")
}

func replay(c *fw.Ctx, raw json.RawMessage) {
	var k kase
	if err := json.Unmarshal(raw, &k); err != nil {
		panic(err)
	}
	boot()
	if k.Part != "" {
		replaySeq(c, k)
		return
	}
	tx, sig := fromJ(k.Tx)
	o := observe(tx, sig, k.Height)
	fmt.Printf("replay %s / %s at height %d: %s (expected %s)\n", k.Base, k.Mut, k.Height, o, k.Expect)
	ok := (k.Expect == "accept" && o == "accept") || (k.Expect == "reject" && strings.HasPrefix(o, "reject:"))
	if !ok {
		c.Violation("C07:replay", "replay", fmt.Sprintf("%s / %s: %s, expected %s", k.Base, k.Mut, o, k.Expect), k)
	}
}

func main() {
	fw.Main(fw.Check{
		ID: "C07", Level: "exploration",
		Rule: "case = (key pair, honest transaction shape, height, one mutation). Honest bases are built by the harness's own SHA-256 / RLP / Keccak / wrapper reference and must be accepted by TransactionPool.VerifyTransaction. " +
			"A mutant is counted when it differs from an accepted base in exactly one authenticated field (Data, Nonce, Source, Target, Type, Time, ExtraData, ChainId, Hash, Sign for native; Source, Target, Nonce, Data, Hash, ChainId, Type and the RLP payload for wrapped Ethereum transactions): every single-bit flip of the field, every value of a per-field substitution alphabet that differs from the original, " +
			"plus recompute classes (content bit/field change with recomputed hash and the original signature; signed by another key; Source of another key; honestly signed for a foreign chain id or, for Ethereum payloads, without any chain id; height on the other side of the chain-id fork). Single-boundary re-partitions of the native digest preimage (bytes moved between two adjacent hashed fields, hash and signature unchanged) are executed and counted as an observation only: two fields change, outside the statement's quantifier. For two honestly signed Ethereum payloads (recovery id 0 and 1) the payload is re-encoded with every V of [0, 4c+200] (c = chain id) plus reflections around 2c+8 and far values (V +- 2^k, 2^256-1-k), consistently wrapped for each plausible declared chain id: accepted iff V is the honest one; the native recovery-id byte takes all 256 values. A grid of Ethereum payloads (recipient: none / zero address / 0x..01 / leading zero bytes / all-ff / ordinary; value 0, 1 wei, amounts with a non-zero 18th decimal; data empty / non-empty): eth_tx.ConvertTx of the decoded payload must equal the harness's reference wrapper field by field, the reference wrapper must be accepted, and every declared Target / value / data of the alphabet other than the signed one (in particular the empty Target versus the zero address) must be rejected. Key sweep: secret keys d = 1..2000 (20000 thorough), the check's keys and a few large ones: GetAddress / GetID must equal the reference keccak256(pad32(X)||pad32(Y))[12:]; for every key with a leading zero byte in X or Y and ten ordinary ones an honestly signed native and an EIP-155 transaction with Source = reference address must be accepted and the same content declared from any other derivation of the sender (unpadded coordinates, prefixed encoding, X only, other key) rejected; signatures with a leading zero byte in r or s found by sweeping nonces get the full mutant set. Entry points: besides TransactionPool.VerifyTransaction the gateway write handler GameExecutor.runWrite is driven for {UserId empty, non-empty} x {RequestId 0, non-zero} x {native event / contract / type 0, wrapped Ethereum} with a fresh honest transaction (must be known to and pending in the real pool afterwards) and ten native / eight Ethereum forgeries that VerifyTransaction refuses (must not be in the pool and must not move the sender's nonce in the latest state). Pool states: twins of an honest original (one authenticated field or the signature changed, declared hash kept or recomputed) are verified and offered (verify, add if verified) to isolated production-constructed pools in which the original is pending / executed / evicted by a block / evicted between verify and add, and delivered through runWrite and peerBatch after the original went through the same state on the node's pool: VerifyTransaction must refuse the twin in every state and the forged content must never be pending. Every such mutant must be rejected; a panic is not a rejection. " +
			"Native transactions: the digest covers the raw bytes, so every byte change counts. Wrapped Ethereum transactions: the payload bytes are compared exactly (the declared hash is the Keccak of the payload bytes); " +
			"a wrapper string (Source, Target, ChainId, Data JSON, hex spelling of ExtraData) that parses to the same content under the node's own parsing (hex case, 0X prefix, JSON key case, numerically equal chain id) and the v/v-27 spelling of the same recovery id are equivalent encodings: executed and counted, never flagged. " +
			"Call-sequence part: for a fresh content per sequence, every ordered pair and triple of its related transactions (honest by A, honest by B with the same fields, content of A signed by B, recovery-id alias, mirrored signature, re-hashed data change, flipped signature bit; for Ethereum: honest A, honest B same content, B-signed declaring A, mirrored / corrupted signature re-hashed, wrapper nonce change) is verified in that order and the first one again: every verdict must be its class verdict whatever was verified before, arguments unchanged. " +
			"Ordered pairs over small pools for GenHash, Sign, Bytes, BytesToSign, RecoverPubkey, Verify, GetAddress/GetID and eth_tx NewTransaction / SignTx / Sender / ConvertTx / accessors: first results intact after a second call and after the caller overwrote everything it owns, arguments unchanged, same result on second use. rlp decoding of an Ethereum payload and Sign.UnmarshalText into an object that holds another value (read or not) or the leftovers of a failed parse are compared with a fresh parse and differences counted only (no admission path reuses such objects).",
		Assumptions: []string{
			"libsecp256k1 signing used by the harness to produce honest signatures",
			"harness reference encoders (SHA-256 preimage order, RLP, Keccak-256, Ethereum wrapper JSON layout)",
			"collision resistance of SHA-256 / Keccak-256 and unforgeability of ECDSA (a mutant is not valid by accident)",
			"fork configuration is an input: chain id 9499 below height 100 and the dev chain id from there on",
		},
		Run: run, Replay: replay,
		Budget: func(tier string) time.Duration {
			if tier == "thorough" {
				return 15 * time.Minute
			}
			return 60 * time.Second
		},
	})
}
