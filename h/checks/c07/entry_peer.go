// C07, entry point peerBatch: the peer-to-peer TransactionGotMsg handler
// (network.WorkerConn.handleMessage: batch -> VerifyTransaction per transaction ->
// AddTransaction) is given marshalled batches that mix fresh honest transactions with
// forgeries: every honest one must be in the real pool afterwards, no forgery may be.
// Reached through the add-only hook src/network/verif_c07_peer.go.
package main

import (
	"fmt"

	"verif/h/fw"

	"com.tuntun.rangers/node/src/common"
	"com.tuntun.rangers/node/src/middleware/types"
	"com.tuntun.rangers/node/src/network"
)

func (r *runner) peerBatch(keys []*key) {
	c := r.c
	worker := network.VerifNewWorkerConn()
	common.SetBlockHeight(hHi)
	cidStr := chainAt(hHi)
	g := &entryGen{a: keys[0], b: keys[1], cidStr: cidStr, cid: bigStr(cidStr)}
	type member struct {
		honest bool
		name   string
		tx     types.Transaction
		sig    []byte
	}
	var nBatches, nHonest, nForged int64
	caseNo := uint64(0)
	run := func(kind string, plan []string) { // plan: "" = honest, otherwise a forgery name
		caseNo++
		if !r.mine() {
			return
		}
		g.uniq = 1200000 + caseNo*16 // fresh content per batch, independent of the sharding
		var ms []member
		for _, p := range plan {
			if p == "" {
				tx, sig, _, _ := g.base(kind)
				ms = append(ms, member{true, "honest", tx, sig})
			} else {
				f := g.forge(kind, p)
				ms = append(ms, member{false, p, f.tx, f.sig})
			}
		}
		var txs []*types.Transaction
		desc := ""
		for i := range ms {
			cp := ms[i].tx
			cp.Sign = nil
			if ms[i].sig != nil {
				cp.Sign = common.BytesToSign(append([]byte(nil), ms[i].sig...))
			}
			txs = append(txs, &cp)
			desc += " " + ms[i].name
			// what the verifier says about each member on its own
			o := observe(&ms[i].tx, ms[i].sig, hHi)
			if ms[i].honest != (o == "accept") {
				c.Outcome("entry:peerBatch:member-verdict-unexpected(skipped)")
				return // reported by the verification families
			}
		}
		where := fmt.Sprintf("peerBatch[%s, batch:%s]", kind, desc)
		c.Eval(1)
		r.nontriv++
		nBatches++
		body, err := types.MarshalTransactions(txs)
		var data []byte
		if err == nil {
			data, err = network.VerifMarshalMessage(network.Message{Code: network.TransactionGotMsg, Body: body})
		}
		if err != nil {
			c.Infra("peerBatch: cannot marshal the batch: " + err.Error())
			return
		}
		prob := ""
		if p, v, site := fw.Try(func() { worker.VerifHandleMessage(data, "12345") }); p {
			prob = fmt.Sprintf("panic %v at %s", v, site)
		}
		for i := range ms {
			ex, pend := pooled(&ms[i].tx)
			cs := kase{Part: "entry-peer", Base: where, Height: hHi, Mut: ms[i].name, Tx: toJ(&ms[i].tx, ms[i].sig)}
			if ms[i].honest {
				nHonest++
				c.Outcome(fmt.Sprintf("entry:peerBatch:honest:pooled=%v", ex && pend))
				if !ex || !pend {
					cs.Expect = "accept"
					c.Violation("C07:entry:peerBatch:honest-refused", "entry-points",
						fmt.Sprintf("%s: honestly signed member %d (%s) is not in the pool afterwards (known=%v pending=%v %s)", where, i, human(&ms[i].tx), ex, pend, prob), cs)
				}
			} else {
				nForged++
				c.Outcome(fmt.Sprintf("entry:peerBatch:forged:pooled=%v", ex || pend))
				if ex || pend {
					cs.Expect = "reject"
					c.Violation("C07:entry:peerBatch:forged-admitted", "entry-points",
						fmt.Sprintf("%s: member %d, forgery %s (refused by VerifyTransaction), is in the pool afterwards (known=%v pending=%v): %s", where, i, ms[i].name, ex, pend, human(&ms[i].tx)), cs)
				}
			}
		}
		if prob != "" {
			c.Violation("C07:entry:peerBatch:panic", "entry-points", where+": "+prob, kase{Part: "entry-peer", Base: where, Height: hHi})
		}
	}
	for _, kind := range []string{"native-event", "native-contract", "native-type0", "ethtx"} {
		names := nativeForgeries
		if kind == "ethtx" {
			names = ethForgeries
		}
		run(kind, []string{"", ""}) // honest only
		for _, f := range names {
			run(kind, []string{f})
			run(kind, []string{"", f})
			run(kind, []string{f, ""})
			run(kind, []string{"", f, ""})
		}
		all := append(append([]string{}, names[:len(names)/2]...), "")
		all = append(all, names[len(names)/2:]...)
		run(kind, all) // every forgery of the kind around one honest transaction
	}
	c.Count("entry_peerBatch_batches_delivered", nBatches)
	c.Count("entry_peerBatch_honest_members", nHonest)
	c.Count("entry_peerBatch_forged_members", nForged)
}
