// C07, call-sequence part: the verdict on a transaction and the results of the hashing /
// signing / recovery / conversion functions must not depend on what was processed before
// (non-initial states), results must not alias shared scratch or the caller's inputs,
// arguments must stay unchanged, and parsing into an object that already holds another value
// must give what parsing into a fresh object gives.
package main

import (
	"bytes"
	"encoding/hex"
	"fmt"
	"math/big"
	"strings"

	"verif/h/fw"

	"com.tuntun.rangers/node/src/common"
	"com.tuntun.rangers/node/src/eth_tx"
	"com.tuntun.rangers/node/src/middleware/types"
	"com.tuntun.rangers/node/src/service"
	"com.tuntun.rangers/node/src/storage/rlp"
)

type seqStep struct {
	Name   string `json:"name"`
	Expect string `json:"expect"`
	Tx     txJ    `json:"tx"`
}

type variant struct {
	name   string
	expect string // accept | reject
	tx     types.Transaction
	sig    []byte
}

// verdictArg is observe() plus a comparison of the argument before / after the call.
func verdictArg(v *variant, height uint64) (verdict string, argChanged string) {
	cp := v.tx
	cp.Sign = nil
	if v.sig != nil {
		cp.Sign = common.BytesToSign(append([]byte(nil), v.sig...))
	}
	before := toJ(&cp, signBytes(cp.Sign))
	var err error
	p, _, site := fw.Try(func() { err = service.GetTransactionPool().VerifyTransaction(&cp, height) })
	after := toJ(&cp, signBytes(cp.Sign))
	if before != after {
		argChanged = fmt.Sprintf("before %+v after %+v", before, after)
	}
	switch {
	case p:
		return "panic:" + site, argChanged
	case err == nil:
		return "accept", argChanged
	}
	return "reject", argChanged
}

func signBytes(s *common.Sign) []byte {
	if s == nil {
		return nil
	}
	return s.Bytes()
}

func mirrored(sig []byte) []byte {
	s := new(big.Int).SetBytes(sig[32:64])
	rc := sig[64]
	if rc >= 27 {
		rc -= 27
	}
	out := append([]byte(nil), sig[:32]...)
	out = append(out, pad32(new(big.Int).Sub(curveN, s))...)
	return append(out, (rc^1)+27)
}

// nativeFamily: transactions related to one content (unique per sequence through Nonce).
func nativeFamily(a, b *key, shape int, uniq uint64) []variant {
	mk := func(src *key, signer *key) (types.Transaction, []byte) {
		tx := types.Transaction{Source: src.addrHex, Nonce: uniq, ChainId: chainAt(hHi)}
		if shape == 0 {
			tx.Type = types.TransactionTypeOperatorEvent
			tx.Target = b.addrHex
			tx.Time = "2026-09-25 10:00:00"
			tx.ExtraData = `{"` + b.addrHex + `":{"balance":"1.25"}}`
		}
		sig := signNative(&tx, signer)
		return tx, sig
	}
	hA, sA := mk(a, a)
	hB, sB := mk(b, b)
	fAB, sAB := mk(a, b)
	alias := append([]byte(nil), sA...)
	alias[64] -= 27
	dm := hA
	dm.Data = hA.Data + "x"
	dm.Hash = refNativeHash(&dm)
	flip := append([]byte(nil), sA...)
	flip[45] ^= 0x20
	return []variant{
		{"honest-A", "accept", hA, sA},
		{"honest-B-same-fields", "accept", hB, sB},
		{"content-of-A-signed-by-B", "reject", fAB, sAB},
		{"honest-A-recid-alias", "accept", hA, alias},
		{"honest-A-mirrored-signature", "reject", hA, mirrored(sA)},
		{"data-changed-rehashed-signature-of-A", "reject", dm, sA},
		{"honest-A-signature-bit-flipped", "reject", hA, flip},
	}
}

func ethFamily(a, b *key, shape int, uniq uint64) []variant {
	sp := &ethSpec{Nonce: uniq, Price: big.NewInt(1000000000), Gas: 100000, To: &b.addr, Value: big.NewInt(1500), Data: []byte{0xa9, 0x05, 0x9c, 0xbb, 1, 2, 3}}
	if shape == 1 {
		sp = &ethSpec{Nonce: uniq, Price: big.NewInt(1000000000), Gas: 3000000, To: nil, Value: big.NewInt(0), Data: []byte{0x60, 0x80, 0x60, 0x40, 0x52}}
	}
	cid := chainAt(hHi)
	pA, _ := buildEth(sp, bigStr(cid), a)
	pB, _ := buildEth(sp, bigStr(cid), b)
	lay := layout(pA)
	var vv, rr, sv *big.Int
	for _, s := range lay {
		x := new(big.Int).SetBytes(pA[s.body:s.end])
		switch s.name {
		case "v":
			vv = x
		case "r":
			rr = x
		case "s":
			sv = x
		}
	}
	vf := new(big.Int).Set(vv)
	if vv.Bit(0) == 1 {
		vf.Add(vf, big.NewInt(1))
	} else {
		vf.Sub(vf, big.NewInt(1))
	}
	pMir := ethWithSig(sp, vf, rr, new(big.Int).Sub(curveN, sv))
	pBad := ethWithSig(sp, vv, rr, new(big.Int).Xor(sv, big.NewInt(1<<20)))
	nm := wrapEth(sp, a.addrHex, cid, pA)
	nm.Nonce++
	return []variant{
		{"honest-A", "accept", wrapEth(sp, a.addrHex, cid, pA), nil},
		{"honest-B-same-content", "accept", wrapEth(sp, b.addrHex, cid, pB), nil},
		{"signed-by-B-declares-A", "reject", wrapEth(sp, a.addrHex, cid, pB), nil},
		{"A-mirrored-signature-rehashed", "reject", wrapEth(sp, a.addrHex, cid, pMir), nil},
		{"A-corrupted-s-rehashed", "reject", wrapEth(sp, a.addrHex, cid, pBad), nil},
		{"A-wrapper-nonce-changed", "reject", nm, nil},
	}
}

// seqVerdicts: every ordered pair (x, y) and every ordered triple of the related transactions of
// a fresh content: verdicts of x, y[, z] and of x again must be the class verdicts whatever was
// verified before.
func (r *runner) seqVerdicts(keys []*key, all bool) {
	c := r.c
	uniq := uint64(7000000)
	pairs := [][2]int{{0, 1}}
	if c.Thorough() {
		pairs = append(pairs, [2]int{1, 2}, [2]int{2, 0})
	}
	for _, kp := range pairs {
		a, b := keys[kp[0]], keys[kp[1]]
		for fam := 0; fam < 4; fam++ {
			build := func(u uint64) []variant {
				if fam < 2 {
					return nativeFamily(a, b, fam, u)
				}
				return ethFamily(a, b, fam-2, u)
			}
			n := len(build(1))
			runSeq := func(order []int) {
				uniq++
				if !all && !r.mine() {
					return
				}
				vs := build(uniq)
				steps := append(append([]int(nil), order...), order[0]) // first one again at the end
				var got []string
				bad := -1
				for si, vi := range steps {
					o, argCh := verdictArg(&vs[vi], hHi)
					got = append(got, vs[vi].name+"="+o)
					c.Eval(1)
					c.Outcome("seq:" + o)
					if argCh != "" {
						c.Violation("C07:seq:argument-modified:VerifyTransaction", "sequences", vs[vi].name+": "+argCh, kase{Part: "seq-verdict"})
					}
					if o != vs[vi].expect && bad < 0 {
						bad = si
					}
				}
				r.nontriv++
				if bad < 0 {
					return
				}
				var sq []seqStep
				for _, vi := range steps {
					sq = append(sq, seqStep{vs[vi].name, vs[vi].expect, toJ(&vs[vi].tx, vs[vi].sig)})
				}
				kind := "native"
				if fam >= 2 {
					kind = "ethtx"
				}
				c.Violation("C07:seq:history-dependent:VerifyTransaction:"+kind, "sequences",
					fmt.Sprintf("verifying in this order (fresh content, keys k%d/k%d): %s — step %d (%s) must be %s whatever was verified before", kp[0], kp[1], strings.Join(got, ", "), bad+1, vs[steps[bad]].name, vs[steps[bad]].expect),
					kase{Part: "seq-verdict", Height: hHi, Seq: sq})
			}
			for i := 0; i < n; i++ {
				for j := 0; j < n; j++ {
					runSeq([]int{i, j})
				}
			}
			for i := 0; i < n; i++ {
				for j := 0; j < n; j++ {
					for k := 0; k < n; k++ {
						if i == j && j == k {
							continue
						}
						runSeq([]int{i, j, k})
					}
				}
			}
		}
	}
}

func invert(b []byte) {
	for i := range b {
		b[i] = ^b[i]
	}
}

func txEqual(a, b *types.Transaction) bool {
	return toJ(a, signBytes(a.Sign)) == toJ(b, signBytes(b.Sign))
}

type ethInput struct {
	k     *key
	nonce uint64
	to    *common.Address
	val   int64
	data  []byte
}

// ethSnapshot: everything observable of a signed Ethereum transaction
func ethSnapshot(signer eth_tx.Signer, tx *eth_tx.Transaction) string {
	enc, err := rlp.EncodeToBytes(tx)
	snd, serr := eth_tx.Sender(signer, tx)
	w := eth_tx.ConvertTx(tx, snd, enc)
	to := "nil"
	if tx.To() != nil {
		to = tx.To().GetHexString()
	}
	return fmt.Sprintf("enc=%x/%v hash=%x sender=%x/%v to=%s value=%s price=%s gas=%d nonce=%d data=%x chain=%s wrapper=%+v",
		enc, err, tx.Hash().Bytes(), snd[:], serr, to, tx.Value(), tx.GasPrice(), tx.Gas(), tx.Nonce(), tx.Data(), tx.ChainId(), toJ(w, nil))
}

// seqPure: ordered pairs over small pools for the pure functions.
func (r *runner) seqPure(keys []*key, all bool) {
	c := r.c
	viol := func(kind, fn, msg string) {
		c.Violation("C07:seq:"+kind+":"+fn, "sequences", msg, kase{Part: "seq-pure"})
	}
	step := func() bool { r.nontriv++; c.Eval(1); return true }

	// ---- GenHash
	var pool []types.Transaction
	for i, k := range keys[:2] {
		pool = append(pool,
			types.Transaction{Source: k.addrHex, Target: keys[2].addrHex, Type: 100, Time: "t", Data: "d", ExtraData: `{"x":1}`, Nonce: uint64(i), ChainId: "9500"},
			types.Transaction{Source: k.addrHex, Type: 200, Data: strings.Repeat("ab", 300), Nonce: 1 << 40, ChainId: "9500"},
			types.Transaction{Source: k.addrHex})
	}
	for i := range pool {
		for j := range pool {
			if !all && !r.mine() {
				continue
			}
			step()
			A, B := pool[i], pool[j]
			snapA := A
			h1 := A.GenHash()
			h2 := B.GenHash()
			for x := range h2 {
				h2[x] = 0
			}
			if h1 != refNativeHash(&A) {
				viol("history-dependent", "Transaction.GenHash", fmt.Sprintf("pool[%d] after earlier hashing: %x", i, h1[:]))
			}
			if h3 := A.GenHash(); h3 != h1 {
				viol("history-dependent", "Transaction.GenHash", fmt.Sprintf("pool[%d] hashed, pool[%d] hashed, pool[%d] hashed again: %x then %x", i, j, i, h1[:], h3[:]))
			}
			if !txEqual(&A, &snapA) {
				viol("argument-modified", "Transaction.GenHash", fmt.Sprintf("pool[%d] changed by GenHash", i))
			}
		}
	}

	// ---- Sign / Bytes / BytesToSign / RecoverPubkey / Verify / GetAddress / GetID
	type sin struct {
		k *key
		h []byte
	}
	var sp []sin
	for _, k := range keys[:2] {
		for _, m := range []string{"message one", "another, longer message to be hashed"} {
			sp = append(sp, sin{k, keccak([]byte(m))})
		}
	}
	for i := range sp {
		for j := range sp {
			if !all && !r.mine() {
				continue
			}
			step()
			A, B := sp[i], sp[j]
			hA := append([]byte(nil), A.h...)
			hB := append([]byte(nil), B.h...)
			name := fmt.Sprintf("inputs %d then %d", i, j)
			s1 := A.k.sk.Sign(hA)
			snap := s1.Bytes()
			pk1, err1 := s1.RecoverPubkey(hA)
			if err1 != nil {
				viol("history-dependent", "Sign.RecoverPubkey", name+": "+err1.Error())
				continue
			}
			pkSnap := pk1.ToBytes()
			id1 := pk1.GetID()
			idSnap := append([]byte(nil), id1...)
			addr1 := pk1.GetAddress()
			// the other input through all sibling functions, then destroy everything the caller owns
			s2 := B.k.sk.Sign(hB)
			b2 := s2.Bytes()
			pk2, _ := s2.RecoverPubkey(hB)
			ok2 := pk2.Verify(hB, &s2)
			id2 := pk2.GetID()
			pb2 := pk2.ToBytes()
			a2 := pk2.GetAddress()
			sFrom := common.BytesToSign(b2)
			fromSnap := sFrom.Bytes()
			invert(b2) // BytesToSign must have copied
			if !bytes.Equal(sFrom.Bytes(), fromSnap) {
				viol("result-aliased", "BytesToSign", name+": the Sign changed when the caller overwrote the input slice")
			}
			invert(id2)
			invert(pb2)
			pk2.PubKey.X.SetInt64(1)
			pk2.PubKey.Y.SetInt64(2)
			for x := range a2 {
				a2[x] = 0xee
			}
			invert(hB)
			if !ok2 {
				viol("history-dependent", "PublicKey.Verify", name+": recovered key does not verify its signature")
			}
			// first results must be intact
			if !bytes.Equal(s1.Bytes(), snap) {
				viol("result-aliased", "PrivateKey.Sign", name+": first signature changed")
			}
			if !bytes.Equal(pk1.ToBytes(), pkSnap) || !bytes.Equal(id1, idSnap) || pk1.GetAddress() != addr1 {
				viol("result-aliased", "Sign.RecoverPubkey", name+": first recovered key / id changed after the second call and the caller's overwrites")
			}
			if !bytes.Equal(hA, A.h) {
				viol("argument-modified", "PrivateKey.Sign/RecoverPubkey", name+": message slice changed")
			}
			if addr1.GetHexString() != A.k.addrHex {
				viol("history-dependent", "PublicKey.GetAddress", name+": "+addr1.GetHexString()+" want "+A.k.addrHex)
			}
			// again: same as on first use
			s3 := A.k.sk.Sign(hA)
			if !bytes.Equal(s3.Bytes(), snap) {
				viol("history-dependent", "PrivateKey.Sign", name+": signing the first input again gives another signature")
			}
			pk3, err3 := s1.RecoverPubkey(hA)
			if err3 != nil || !bytes.Equal(pk3.ToBytes(), pkSnap) {
				viol("history-dependent", "Sign.RecoverPubkey", name+": recovering again gives another key")
			}
			if !pk1.Verify(hA, &s1) || (!bytes.Equal(A.h, B.h) && pk1.Verify(B.h, &s1)) || !bytes.Equal(s1.Bytes(), snap) {
				viol("history-dependent", "PublicKey.Verify", name+": verdicts (own message / other message) or the signature argument changed")
			}
			bs := s1.Bytes()
			invert(bs)
			if !bytes.Equal(s1.Bytes(), snap) {
				viol("result-aliased", "Sign.Bytes", name+": overwriting the returned slice changed the Sign")
			}
			// observation only: GetR / GetS return big.Int values that share the Sign's words
			s4 := A.k.sk.Sign(hA)
			rr := s4.GetR()
			(&rr).SetInt64(1)
			if !bytes.Equal(s4.Bytes(), snap) {
				c.Count("sign_getr_result_shares_words_with_sign(observation)", 1)
			}
		}
	}

	// ---- eth_tx: NewTransaction / SignTx / Sender / ConvertTx / accessors
	cid := bigStr(chainAt(hHi))
	signer := eth_tx.NewEIP155Signer(cid)
	other := eth_tx.NewEIP155Signer(big.NewInt(1))
	toA := common.BytesToAddress(keys[2].addr[:])
	ins := []ethInput{
		{keys[0], 3, &toA, 1500, []byte{1, 2, 3, 4}},
		{keys[1], 3, &toA, 1500, []byte{1, 2, 3, 4}}, // same content, other key
		{keys[0], 0, nil, 0, bytes.Repeat([]byte{0x60, 0x80}, 40)},
		{keys[1], 1 << 33, &toA, 0, nil},
	}
	mk := func(in ethInput) (raw, signed *eth_tx.Transaction, problem string) {
		amount, price := big.NewInt(in.val), big.NewInt(1000000000)
		data := append([]byte(nil), in.data...)
		if in.to == nil {
			raw = eth_tx.NewContractCreation(in.nonce, amount, 100000, price, data)
		} else {
			to := *in.to
			raw = eth_tx.NewTransaction(in.nonce, to, amount, 100000, price, data)
		}
		amount.SetInt64(-1)
		price.SetInt64(-1)
		invert(data)
		if raw.Value().Int64() != in.val || raw.GasPrice().Int64() != 1000000000 || !bytes.Equal(raw.Data(), in.data) {
			problem = "NewTransaction keeps the caller's amount / price / data objects"
		}
		rawEnc, _ := rlp.EncodeToBytes(raw)
		var err error
		signed, err = eth_tx.SignTx(raw, signer, in.k.ecd)
		if err != nil {
			problem = "SignTx: " + err.Error()
			return
		}
		if after, _ := rlp.EncodeToBytes(raw); !bytes.Equal(after, rawEnc) {
			problem = "SignTx changed its argument"
		}
		return
	}
	for i := range ins {
		for j := range ins {
			if !all && !r.mine() {
				continue
			}
			step()
			name := fmt.Sprintf("eth inputs %d then %d", i, j)
			_, sA, prob := mk(ins[i])
			if prob != "" {
				viol("result-aliased", "eth_tx.NewTransaction/SignTx", name+": "+prob)
				continue
			}
			// reference: the harness's own encoder and signer give the same payload
			var toRef *[20]byte
			if ins[i].to != nil {
				t := [20]byte(*ins[i].to)
				toRef = &t
			}
			refPayload, _ := buildEth(&ethSpec{Nonce: ins[i].nonce, Price: big.NewInt(1000000000), Gas: 100000, To: toRef, Value: big.NewInt(ins[i].val), Data: ins[i].data}, cid, ins[i].k)
			snap := ethSnapshot(signer, sA)
			encA, _ := rlp.EncodeToBytes(sA)
			if !bytes.Equal(encA, refPayload) {
				viol("history-dependent", "eth_tx.SignTx", fmt.Sprintf("%s: payload %x, reference %x", name, encA, refPayload))
			}
			sndA, _ := eth_tx.Sender(signer, sA)
			if hex.EncodeToString(sndA[:]) != ins[i].k.addrHex[2:] {
				viol("history-dependent", "eth_tx.Sender", fmt.Sprintf("%s: sender %x want %s", name, sndA[:], ins[i].k.addrHex))
			}
			wA := eth_tx.ConvertTx(sA, sndA, encA)
			wSnap := toJ(wA, nil)
			// second input through the same functions, then overwrite what the caller owns
			_, sB, _ := mk(ins[j])
			encB, _ := rlp.EncodeToBytes(sB)
			sndB, _ := eth_tx.Sender(signer, sB)
			wB := eth_tx.ConvertTx(sB, sndB, encB)
			_, _ = eth_tx.Sender(other, sB)
			invert(encB)
			d := sB.Data()
			invert(d)
			sB.Value().SetInt64(-5)
			sB.GasPrice().SetInt64(-5)
			if t := sB.To(); t != nil {
				for x := range t {
					t[x] = 0xee
				}
			}
			for x := range sndB {
				sndB[x] = 0
			}
			wB.Hash = common.Hash{}
			// and the copies handed out for A
			dA := sA.Data()
			invert(dA)
			sA.Value().SetInt64(-5)
			if t := sA.To(); t != nil {
				for x := range t {
					t[x] = 0xee
				}
			}
			invert(encA)
			if toJ(wA, nil) != wSnap {
				viol("result-aliased", "eth_tx.ConvertTx", name+": the converted transaction changed after a second conversion / overwriting the payload slice")
			}
			if _, err := eth_tx.Sender(other, sA); err == nil {
				viol("history-dependent", "eth_tx.Sender", name+": a signer of another chain id accepted the transaction")
			}
			if again := ethSnapshot(signer, sA); again != snap {
				viol("history-dependent", "eth_tx.Transaction", fmt.Sprintf("%s: first transaction reads differently afterwards:\n first %s\n again %s", name, snap, again))
			}
		}
	}
}

// dirtyDestination: rlp decoding of an Ethereum transaction and Sign.UnmarshalText into objects
// that already hold another value / the leftovers of a failed parse.  The admission path never
// reuses such objects (verifyETHTx, the RPC front end and the wire codecs all parse into fresh
// ones), so a difference is an API hazard outside the property: executed and counted only.
func (r *runner) dirtyDestination(keys []*key, all bool) {
	c := r.c
	cid := bigStr(chainAt(hHi))
	signer := eth_tx.NewEIP155Signer(cid)
	specs := []*ethSpec{
		{Nonce: 3, Price: big.NewInt(1000000000), Gas: 100000, To: &keys[2].addr, Value: big.NewInt(1500), Data: []byte{1, 2, 3, 4}},
		{Nonce: 0, Price: big.NewInt(1000000000), Gas: 3000000, To: nil, Value: big.NewInt(0), Data: bytes.Repeat([]byte{0x60, 0x80}, 40)},
		{Nonce: 1 << 33, Price: big.NewInt(0), Gas: 21000, To: &keys[0].addr, Value: bigStr("123456789012345678901234567890"), Data: nil},
	}
	var valid [][]byte
	for _, s := range specs {
		for _, k := range keys[:2] {
			p, _ := buildEth(s, cid, k)
			valid = append(valid, p)
		}
	}
	invalid := [][]byte{valid[0][:len(valid[0])-3], {0xc1, 0x80}, append(append([]byte(nil), valid[1]...), 0)}
	srcs := append(append([][]byte{}, valid...), invalid...)
	read := func(tx *eth_tx.Transaction, err error) string {
		if err != nil {
			return "error: " + err.Error()
		}
		return ethSnapshot(signer, tx)
	}
	for _, D := range srcs {
		for _, B := range srcs {
			for prep := 0; prep < 2; prep++ {
				if !all && !r.mine() {
					continue
				}
				r.nontriv++
				c.Eval(1)
				fresh := new(eth_tx.Transaction)
				want := read(fresh, rlp.DecodeBytes(B, fresh))
				obj := new(eth_tx.Transaction)
				derr := rlp.DecodeBytes(D, obj)
				if prep == 1 && derr == nil {
					_ = ethSnapshot(signer, obj) // a caller that used the object: Hash, Sender, accessors
				}
				got := read(obj, rlp.DecodeBytes(B, obj))
				if strings.HasPrefix(want, "error") {
					c.Outcome("dirty-decode:error")
				} else {
					c.Outcome("dirty-decode:ok")
				}
				if got != want {
					// not on an admission path (every decode site of the node uses a fresh object):
					// counted, never flagged
					c.Count("dirty_destination_stale_caches:eth_tx.Transaction.DecodeRLP", 1)
				}
			}
		}
	}
	// Sign.UnmarshalText
	var texts [][]byte
	for _, k := range keys[:2] {
		for _, m := range []string{"a", "b"} {
			s := k.sk.Sign(keccak([]byte(m)))
			t, _ := s.MarshalText()
			texts = append(texts, t)
		}
	}
	for _, D := range texts {
		for _, B := range texts {
			if !all && !r.mine() {
				continue
			}
			r.nontriv++
			c.Eval(1)
			var fresh, dirty common.Sign
			e1 := fresh.UnmarshalText(B)
			dirty.UnmarshalText(D)
			e2 := dirty.UnmarshalText(B)
			if fmt.Sprint(e1) != fmt.Sprint(e2) || !bytes.Equal(fresh.Bytes(), dirty.Bytes()) {
				c.Count("dirty_destination_differs:Sign.UnmarshalText", 1) // no admission path reuses a Sign: counted only
			}
		}
	}
}

// replaySeq re-runs a recorded part in a fresh process.
func replaySeq(c *fw.Ctx, k kase) {
	keys := mkKeys(3)
	r := &runner{c: c}
	switch k.Part {
	case "seq-verdict":
		if len(k.Seq) == 0 {
			r.seqVerdicts(keys, true)
			return
		}
		for i, st := range k.Seq {
			tx, sig := fromJ(st.Tx)
			o := observe(tx, sig, k.Height)
			fmt.Printf("replay step %d %s: %s (expected %s)\n", i+1, st.Name, o, st.Expect)
			if (st.Expect == "accept") != (o == "accept") {
				c.Violation("C07:replay", "replay", fmt.Sprintf("step %d %s: %s, expected %s", i+1, st.Name, o, st.Expect), k)
			}
		}
	case "seq-pure":
		r.seqPure(keys, true)
	case "dirty":
		r.dirtyDestination(keys, true)
	case "entry":
		r.entryPoints(keys)
	case "entry-peer":
		r.peerBatch(keys)
	case "poolstate":
		r.entryPoints(keys)
		r.poolStates(keys)
	case "sweep":
		r.keySweep(keys, buildHonest(keys, false))
	}
}
