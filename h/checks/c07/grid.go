// C07: recipient / value / data grid for wrapped Ethereum transactions.  The honest wrapper is
// the harness's independent reference mapping (wrapEth); eth_tx.ConvertTx of the decoded payload
// must equal it field by field, the admission verification must accept it and reject every
// deviation of the declared Target / value / data from what the payload signs - in particular
// "no recipient" (creation) and "recipient is the zero address" are different things.
package main

import (
	"bytes"
	"fmt"
	"math/big"

	"com.tuntun.rangers/node/src/eth_tx"
	"com.tuntun.rangers/node/src/middleware/types"
	"com.tuntun.rangers/node/src/storage/rlp"
)

func (r *runner) ethGrid(keys []*key, all []*honest) {
	c := r.c
	k := keys[0]
	cidStr := chainAt(hHi)
	cid := bigStr(cidStr)
	addr := func(b ...byte) *[20]byte {
		var a [20]byte
		copy(a[20-len(b):], b)
		return &a
	}
	ff := [20]byte{}
	for i := range ff {
		ff[i] = 0xff
	}
	recipients := []struct {
		name string
		to   *[20]byte
	}{
		{"creation", nil},
		{"zero-address", addr()},
		{"address-1", addr(1)},
		{"leading-zero-bytes", addr(0x12, 0x34, 0x56, 0x78, 0x9a)},
		{"all-ff", &ff},
		{"ordinary", &keys[1].addr},
	}
	values := []*big.Int{big.NewInt(0), big.NewInt(1), bigStr("1500000000000000007"), bigStr("123456789012345678901234567890")}
	datas := [][]byte{nil, {0xa9, 0x05, 0x9c, 0xbb, 0x00, 0x01}}
	targetStr := func(to *[20]byte) string {
		if to == nil {
			return ""
		}
		return fmt.Sprintf("0x%x", to[:])
	}
	signer := eth_tx.NewEIP155Signer(cid)
	nonce := uint64(40)
	for _, rc := range recipients {
		for vi, val := range values {
			for di, data := range datas {
				nonce++
				sp := &ethSpec{Nonce: nonce, Price: big.NewInt(1000000000), Gas: 90000, To: rc.to, Value: val, Data: data}
				payload, sigHash := buildEth(sp, cid, k)
				ref := wrapEth(sp, k.addrHex, cidStr, payload)
				h := &honest{Name: fmt.Sprintf("k0/eth-grid[%s,value#%d,data#%d]@%d", rc.name, vi, di, hHi), Key: 0, Shape: "eth-grid-" + rc.name, Height: hHi, Eth: true, Tx: ref, Spec: sp, Payload: payload, SigHash: sigHash}
				// (a) the node's conversion of the payload equals the reference mapping
				if r.mine() {
					c.Eval(1)
					r.nontriv++
					dec := new(eth_tx.Transaction)
					if err := rlp.DecodeBytes(payload, dec); err != nil {
						c.Violation("C07:convert:payload-does-not-decode", "convert", h.Name+": "+err.Error(), kase{Base: h.Name, Height: hHi, Mut: "none", Expect: "accept", Tx: toJ(&ref, nil), Human: human(&ref)})
					} else {
						snd, err := eth_tx.Sender(signer, dec)
						w := eth_tx.ConvertTx(dec, snd, payload)
						if field := wrapperDiff(w, &ref); err != nil || field != "" {
							c.Violation("C07:convert:ConvertTx-differs-from-reference:"+field, "convert",
								fmt.Sprintf("%s: eth_tx.ConvertTx of the signed payload gives %s, the reference mapping %s (sender error %v)", h.Name, human(w), human(&ref), err),
								kase{Base: h.Name, Height: hHi, Mut: "none", Expect: "accept", Tx: toJ(&ref, nil), Human: human(&ref)})
						}
					}
				}
				// (b) the reference wrapper is admitted
				o := observe(&ref, nil, hHi)
				if r.mine() {
					c.Eval(1)
					r.nontriv++
					c.Outcome("honest:" + o)
					if o != "accept" {
						c.Violation("C07:reject-honest:ethtx:"+h.Shape, "honest", fmt.Sprintf("honestly signed %s: %s", h.Name, o), kase{Base: h.Name, Height: hHi, Mut: "none", Expect: "accept", Tx: toJ(&ref, nil), Human: human(&ref)})
					}
				}
				// (c) declared Target := every other member of the recipient alphabet (incl. "" and the zero address);
				// wrong whatever happened to the honest wrapper, so it runs even if that one was refused
				for _, other := range recipients {
					t := targetStr(other.to)
					if t == ref.Target || !r.mine() {
						continue
					}
					tx := ref
					tx.Target = t
					r.mutant(h, "Target-subst:recipient-alphabet", fmt.Sprintf("payload recipient %s, wrapper declares Target %q (%s)", rc.name, t, other.name), &tx, nil)
				}
				if o != "accept" {
					continue
				}
				// (d) wrapper of the same content with another recipient / value / data, this payload
				for _, other := range recipients {
					if targetStr(other.to) == ref.Target || !r.mine() {
						continue
					}
					s2 := *sp
					s2.To = other.to
					tx := wrapEth(&s2, k.addrHex, cidStr, payload)
					r.mutant(h, "forge:wrapper-of-other-recipient", fmt.Sprintf("payload recipient %s, wrapper built for recipient %s (hash of this payload)", rc.name, other.name), &tx, nil)
				}
				for _, v2 := range values {
					if v2.Cmp(val) == 0 || !r.mine() {
						continue
					}
					s2 := *sp
					s2.Value = v2
					tx := wrapEth(&s2, k.addrHex, cidStr, payload)
					r.mutant(h, "Data-subst:value-alphabet", fmt.Sprintf("payload value %s, wrapper declares %s", val, v2), &tx, nil)
				}
				for _, d2 := range datas {
					if bytes.Equal(d2, data) || !r.mine() {
						continue
					}
					s2 := *sp
					s2.Data = d2
					tx := wrapEth(&s2, k.addrHex, cidStr, payload)
					r.mutant(h, "Data-subst:data-alphabet", fmt.Sprintf("payload data %x, wrapper declares %x", data, d2), &tx, nil)
				}
				// (e) the payload's recipient replaced (signature kept), wrapper consistent with the new payload
				for _, other := range recipients {
					if targetStr(other.to) == ref.Target || !r.mine() {
						continue
					}
					s2 := *sp
					s2.To = other.to
					lay := layout(payload)
					var vv, rr, sv *big.Int
					for _, s := range lay {
						x := new(big.Int).SetBytes(payload[s.body:s.end])
						switch s.name {
						case "v":
							vv = x
						case "r":
							rr = x
						case "s":
							sv = x
						}
					}
					p2 := ethWithSig(&s2, vv, rr, sv)
					tx := wrapEth(&s2, k.addrHex, cidStr, p2)
					r.mutant(h, "forge:payload-recipient-replaced", fmt.Sprintf("payload recipient %s replaced by %s under the old signature, wrapper consistent", rc.name, other.name), &tx, nil)
				}
				if c.Thorough() {
					r.ethMutants(h, keys, all, false)
				}
			}
		}
	}
}

// wrapperDiff names the first field in which two wrapped transactions differ ("" = equal).
func wrapperDiff(a, b *types.Transaction) string {
	switch {
	case a.Source != b.Source:
		return "Source"
	case a.Target != b.Target:
		return "Target"
	case a.Type != b.Type:
		return "Type"
	case a.Nonce != b.Nonce:
		return "Nonce"
	case a.ChainId != b.ChainId:
		return "ChainId"
	case a.Data != b.Data:
		return "Data"
	case a.Hash != b.Hash:
		return "Hash"
	case a.ExtraData != b.ExtraData:
		return "ExtraData"
	case a.Time != b.Time || a.Sign != nil || b.Sign != nil:
		return "Time/Sign"
	}
	return ""
}
