// C07, entry-point dimension: the gateway write handler GameExecutor.runWrite
// (AccountDBManager calls it for every transaction of the gateway feed) is driven with the
// same honest / forged transactions as the pool's VerifyTransaction, for the cross product
// {UserId empty, non-empty} x {RequestId 0, non-zero} x {transaction kinds}: an honest
// transaction must end up in the real pool, a forged one (refused by VerifyTransaction) must
// not, and must not move the sender's nonce in the latest state.
//
// runWrite is reached through the add-only hook src/core/verif_c07_gateway.go
// (VerifNewGameExecutor, VerifRunWrite).
package main

import (
	"fmt"
	"math/big"

	"verif/h/fw"

	"com.tuntun.rangers/node/src/common"
	"com.tuntun.rangers/node/src/core"
	executors "com.tuntun.rangers/node/src/executor"
	"com.tuntun.rangers/node/src/middleware"
	"com.tuntun.rangers/node/src/middleware/db"
	"com.tuntun.rangers/node/src/middleware/notify"
	"com.tuntun.rangers/node/src/middleware/types"
	"com.tuntun.rangers/node/src/service"
	"com.tuntun.rangers/node/src/storage/account"
)

type forged struct {
	name string
	tx   types.Transaction
	sig  []byte
}

func pooled(tx *types.Transaction) (existed bool, pending bool) {
	pool := service.GetTransactionPool()
	existed = pool.IsExisted(tx.Hash)
	for _, p := range pool.GetReceived() {
		if p.Hash == tx.Hash && p.Data == tx.Data && p.ExtraData == tx.ExtraData && p.ChainId == tx.ChainId && p.Source == tx.Source && p.Nonce == tx.Nonce && p.Target == tx.Target && p.Type == tx.Type {
			pending = true
		}
	}
	return
}

func (r *runner) entryPoints(keys []*key) {
	c := r.c
	exec := core.VerifNewGameExecutor()
	executors.InitExecutors()
	mem, _ := db.NewMemDatabase()
	state, err := account.NewAccountDB(common.Hash{}, account.NewDatabase(mem))
	if err != nil {
		c.Infra("entry-point family: " + err.Error())
		return
	}
	middleware.AccountDBManagerInstance.LatestStateDB = state
	middleware.AccountDBManagerInstance.Height = hHi

	a, b := keys[0], keys[1]
	cidStr := chainAt(hHi)
	cid := bigStr(cidStr)
	gate := uint64(100)

	deliver := func(tx *types.Transaction, sig []byte, userId string, requestId uint64) string {
		cp := *tx
		cp.Sign = nil
		if sig != nil {
			cp.Sign = common.BytesToSign(append([]byte(nil), sig...))
		}
		gate++
		msg := &notify.ClientTransactionMessage{Tx: cp, UserId: userId, Nonce: requestId, GateNonce: gate}
		p, v, site := fw.Try(func() { exec.VerifRunWrite(&middleware.Item{Value: msg}) })
		if p {
			return fmt.Sprintf("panic %v at %s", v, site)
		}
		return ""
	}

	g := &entryGen{a: a, b: b, cidStr: cidStr, cid: cid, uniq: 900000}
	mkBase, forge := g.base, g.forge
	var nHonest, nForged int64
	for _, user := range []string{"", "user-1"} {
		uname := "nouserid"
		if user != "" {
			uname = "userid"
		}
		for _, reqId := range []uint64{0, 7} {
			for _, kind := range []string{"native-event", "native-contract", "native-type0", "ethtx"} {
				branch := "verify-run-pool"
				if reqId == 0 || kind == "native-type0" {
					branch = "verify-pool"
				}
				where := fmt.Sprintf("runWrite[%s, RequestId %d, %s, branch %s]", uname, reqId, kind, branch)
				// honest -> pooled
				if r.mine() {
					c.Eval(1)
					r.nontriv++
					nHonest++
					tx, sig, _, _ := mkBase(kind)
					if o := observe(&tx, sig, hHi); o != "accept" {
						continue // reported by the verification families
					}
					prob := deliver(&tx, sig, user, reqId)
					ex, pend := pooled(&tx)
					c.Outcome(fmt.Sprintf("entry:honest:pooled=%v", ex && pend))
					if prob != "" || !ex || !pend {
						c.Violation("C07:entry:runWrite:"+uname+":honest-refused", "entry-points",
							fmt.Sprintf("%s: honestly signed transaction %s is not in the pool afterwards (known=%v pending=%v %s)", where, human(&tx), ex, pend, prob),
							kase{Part: "entry", Base: where, Height: hHi, Mut: "none", Expect: "accept", Tx: toJ(&tx, sig)})
					}
				} else {
					g.uniq++ // keep the content numbering in step with the other workers
				}
				// forged -> not pooled, nonce untouched
				names := nativeForgeries
				if kind == "ethtx" {
					names = ethForgeries
				}
				for _, fname := range names {
					if !r.mine() {
						g.uniq++
						continue
					}
					f := forge(kind, fname)
					c.Eval(1)
					if o := observe(&f.tx, f.sig, hHi); o == "accept" {
						c.Outcome("entry:forgery-verifies(skipped)")
						continue // the verification families report that
					}
					r.nontriv++
					nForged++
					src := common.HexToAddress(f.tx.Source)
					before := state.GetNonce(src)
					prob := deliver(&f.tx, f.sig, user, reqId)
					ex, pend := pooled(&f.tx)
					after := state.GetNonce(src)
					c.Outcome(fmt.Sprintf("entry:forged:pooled=%v", ex || pend))
					cs := kase{Part: "entry", Base: where, Height: hHi, Mut: fname, Expect: "reject", Tx: toJ(&f.tx, f.sig)}
					if ex || pend {
						c.Violation("C07:entry:runWrite:"+uname+":forged-admitted", "entry-points",
							fmt.Sprintf("%s: forgery %s (refused by VerifyTransaction) is in the pool afterwards (known=%v pending=%v): %s", where, fname, ex, pend, human(&f.tx)), cs)
					}
					if after != before {
						c.Violation("C07:entry:runWrite:"+uname+":forged-changed-state", "entry-points",
							fmt.Sprintf("%s: forgery %s moved the nonce of %s in the latest state from %d to %d", where, fname, f.tx.Source, before, after), cs)
					}
					if prob != "" {
						c.Violation("C07:entry:runWrite:"+uname+":panic", "entry-points", where+": forgery "+fname+": "+prob, cs)
					}
				}
			}
		}
	}
	c.Count("entry_runWrite_honest_delivered", nHonest)
	c.Count("entry_runWrite_forgeries_delivered", nForged)
}

type entryGen struct {
	a, b   *key
	cidStr string
	cid    *big.Int
	uniq   uint64
}

// base: honest transaction of a kind with fresh content
func (g *entryGen) base(kind string) (types.Transaction, []byte, *ethSpec, []byte) {
	a, b, cidStr, cid := g.a, g.b, g.cidStr, g.cid
	g.uniq++
	uniq := g.uniq
	switch kind {
	case "native-event", "native-contract", "native-type0":
		tx := types.Transaction{Source: a.addrHex, Target: b.addrHex, Time: "2026-09-25 10:00:00", Nonce: uniq, ChainId: cidStr}
		switch kind {
		case "native-event":
			tx.Type = types.TransactionTypeOperatorEvent
			tx.ExtraData = `{"` + b.addrHex + `":{"balance":"1"}}`
		case "native-contract":
			tx.Type = types.TransactionTypeContract
			tx.Data = `{"gasPrice":"1000000000","gasLimit":"100000","transferValue":"0","abiData":"0xa9059cbb"}`
		}
		sig := signNative(&tx, a)
		return tx, sig, nil, nil
	}
	sp := &ethSpec{Nonce: uniq, Price: big.NewInt(1000000000), Gas: 100000, To: &b.addr, Value: big.NewInt(5), Data: []byte{0xa9, 0x05, 0x9c, 0xbb}}
	p, _ := buildEth(sp, cid, a)
	return wrapEth(sp, a.addrHex, cidStr, p), nil, sp, p
}

var nativeForgeries = []string{"data-changed-hash-kept", "data-changed-rehashed-old-signature", "signature-bit-flipped", "foreign-chainid-resigned", "signed-by-other-key", "source-other-key", "mirrored-signature", "nonce-changed", "hash-bit-flipped", "no-signature"}
var ethForgeries = []string{"wrapper-nonce-changed", "wrapper-target-changed", "wrapper-hash-bit-flipped", "payload-s-bit-flipped-rehashed", "payload-v-parity-rehashed", "signed-by-other-key-declares-A", "foreign-chainid-consistent", "wrapper-source-other-key"}

// forge: one forgery of a fresh honest base
func (g *entryGen) forge(kind, name string) forged {
	a, b, cidStr, cid := g.a, g.b, g.cidStr, g.cid
	tx, sig, sp, p := g.base(kind)
	switch name {
	case "data-changed-hash-kept":
		tx.ExtraData += " "
	case "data-changed-rehashed-old-signature":
		tx.ExtraData += " "
		tx.Hash = refNativeHash(&tx)
	case "signature-bit-flipped":
		sig = append([]byte(nil), sig...)
		sig[40] ^= 1
	case "foreign-chainid-resigned":
		tx.ChainId = "1"
		sig = signNative(&tx, a)
	case "signed-by-other-key":
		sig = signNative(&tx, b)
	case "source-other-key":
		tx.Source = b.addrHex
		sig = signNative(&tx, a)
	case "mirrored-signature":
		sig = mirrored(sig)
	case "nonce-changed":
		tx.Nonce++
	case "hash-bit-flipped":
		tx.Hash[5] ^= 0x40
	case "no-signature":
		sig = nil
	case "wrapper-nonce-changed":
		tx.Nonce++
	case "wrapper-target-changed":
		tx.Target = a.addrHex
	case "wrapper-hash-bit-flipped":
		tx.Hash[5] ^= 0x40
	case "payload-s-bit-flipped-rehashed", "payload-v-parity-rehashed":
		var vv, rr, sv *big.Int
		for _, s := range layout(p) {
			x := new(big.Int).SetBytes(p[s.body:s.end])
			switch s.name {
			case "v":
				vv = x
			case "r":
				rr = x
			case "s":
				sv = x
			}
		}
		if name == "payload-s-bit-flipped-rehashed" {
			sv = new(big.Int).Xor(sv, big.NewInt(1<<30))
		} else if vv.Bit(0) == 1 {
			vv = new(big.Int).Add(vv, big.NewInt(1))
		} else {
			vv = new(big.Int).Sub(vv, big.NewInt(1))
		}
		tx = wrapEth(sp, a.addrHex, cidStr, ethWithSig(sp, vv, rr, sv))
	case "signed-by-other-key-declares-A":
		pb, _ := buildEth(sp, cid, b)
		tx = wrapEth(sp, a.addrHex, cidStr, pb)
	case "foreign-chainid-consistent":
		pf, _ := buildEth(sp, big.NewInt(1), a)
		tx = wrapEth(sp, a.addrHex, "1", pf)
	case "wrapper-source-other-key":
		tx.Source = b.addrHex
	}
	return forged{name, tx, sig}
}
