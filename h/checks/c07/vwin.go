// C07: the V value of a wrapped Ethereum payload, exhaustively over a window.  An honestly
// signed payload is re-encoded with every other V (R, S and the content unchanged), wrapped
// consistently (hash of the new payload, ExtraData, declared chain id as a wrapper would derive
// it from V, and the other natural candidates) and submitted to the admission verification:
// it is accepted iff V is exactly the honest V of that signature.
package main

import (
	"fmt"
	"math/big"
	"sort"
)

func (r *runner) ethVWindow(keys []*key, all []*honest) {
	c := r.c
	cidStr := chainAt(hHi)
	cid := bigStr(cidStr)
	if cid.BitLen() > 15 {
		c.Cap("V window: chain id of the fixture too large for the exhaustive window")
		return
	}
	cc := cid.Int64()
	// one honest transaction per recovery id (0 and 1)
	var bases [2]*honest
	for _, h := range all {
		if !h.Eth || h.Height != hHi {
			continue
		}
		rec := payloadV(h.Payload).Int64() - 35 - 2*cc
		if rec >= 0 && rec <= 1 && bases[rec] == nil {
			bases[rec] = h
		}
	}
	for nonce := uint64(500); bases[0] == nil || bases[1] == nil; nonce++ {
		sp := &ethSpec{Nonce: nonce, Price: big.NewInt(1000000000), Gas: 50000, To: &keys[1].addr, Value: big.NewInt(7), Data: []byte{0xaa}}
		p, sh := buildEth(sp, cid, keys[0])
		rec := payloadV(p).Int64() - 35 - 2*cc
		if bases[rec] == nil {
			bases[rec] = &honest{Name: fmt.Sprintf("k0/eth-vwindow-nonce%d@%d", nonce, hHi), Key: 0, Shape: "eth-vwindow", Height: hHi, Eth: true, Tx: wrapEth(sp, keys[0].addrHex, cidStr, p), Spec: sp, Payload: p, SigHash: sh}
		}
	}
	two := func(e uint) *big.Int { return new(big.Int).Lsh(big.NewInt(1), e) }
	for _, h := range bases {
		if o := observe(&h.Tx, nil, h.Height); o != "accept" {
			if r.mine() {
				c.Violation("C07:reject-honest:ethtx:"+h.Shape, "honest", fmt.Sprintf("honestly signed %s: %s", h.Name, o), kase{Base: h.Name, Height: h.Height, Mut: "none", Expect: "accept", Tx: toJ(&h.Tx, nil), Human: human(&h.Tx)})
			}
			continue
		}
		lay := layout(h.Payload)
		var vh, rr, sv *big.Int
		for _, s := range lay {
			x := new(big.Int).SetBytes(h.Payload[s.body:s.end])
			switch s.name {
			case "v":
				vh = x
			case "r":
				rr = x
			case "s":
				sv = x
			}
		}
		// the V set: the whole window, reflections around the stripped origin, far values
		set := map[string]*big.Int{}
		add := func(v *big.Int) {
			if v.Sign() >= 0 && v.Cmp(vh) != 0 {
				set[v.String()] = v
			}
		}
		for v := int64(0); v <= 4*cc+200; v++ {
			add(big.NewInt(v))
		}
		origin := big.NewInt(2 * (2*cc + 8))
		for _, base := range []*big.Int{vh, big.NewInt(27), big.NewInt(28), big.NewInt(0), big.NewInt(1)} {
			for d := int64(-1); d <= 1; d++ {
				add(new(big.Int).Add(new(big.Int).Sub(origin, base), big.NewInt(d)))
			}
		}
		for _, e := range []uint{8, 16, 32, 63, 64, 128, 255, 256} {
			for d := int64(-1); d <= 1; d++ {
				add(new(big.Int).Add(new(big.Int).Add(vh, two(e)), big.NewInt(d)))
				add(new(big.Int).Add(new(big.Int).Sub(vh, two(e)), big.NewInt(d)))
				add(new(big.Int).Add(two(e), big.NewInt(27+d)))
			}
		}
		max256 := new(big.Int).Sub(two(256), big.NewInt(1))
		for k := int64(0); k < 4; k++ {
			add(new(big.Int).Sub(max256, big.NewInt(k)))
		}
		add(new(big.Int).Sub(max256, vh))
		add(new(big.Int).Sub(two(64), vh))
		var vs []*big.Int
		for _, v := range set {
			vs = append(vs, v)
		}
		sort.Slice(vs, func(i, j int) bool { return vs[i].Cmp(vs[j]) < 0 })
		c.Note("eth_v_window", fmt.Sprintf("per base %d V values: every V in [0, %d] and reflections / far values, chain id %s", len(vs), 4*cc+200, cidStr))
		for _, v := range vs {
			if !r.mine() {
				continue
			}
			p := ethWithSig(h.Spec, v, rr, sv)
			// declared chain id candidates: the honest one, what (V-35)/2 gives (exact and with
			// 64-bit wrap-around for small V), 0 (the pre-EIP-155 reading)
			cands := map[string]bool{cidStr: true, "0": true}
			d := new(big.Int).Sub(v, big.NewInt(35))
			cands[new(big.Int).Div(d, big.NewInt(2)).String()] = true // floor
			cands[new(big.Int).Quo(d, big.NewInt(2)).String()] = true // truncated
			if v.IsUint64() {
				cands[fmt.Sprint((v.Uint64()-35)/2)] = true
			}
			var names []string
			for s := range cands {
				names = append(names, s)
			}
			sort.Strings(names)
			for _, cs := range names {
				tx := wrapEth(h.Spec, h.Tx.Source, cs, p)
				r.mutant(h, "payload-v-reencoded", fmt.Sprintf("payload re-encoded with V=%s (honest V=%s, R and S unchanged), hash recomputed, declared chain id %s", v, vh, cs), &tx, nil)
			}
		}
	}
}

func payloadV(p []byte) *big.Int {
	for _, s := range layout(p) {
		if s.name == "v" {
			return new(big.Int).SetBytes(p[s.body:s.end])
		}
	}
	return new(big.Int)
}
