// Companion of C07: the node verifies transactions arriving from the network on several
// goroutines.  Hashing, signing, sender recovery and the admission verification (native and
// wrapped-Ethereum, honest and single-field-mutated) on two goroutines must give each caller
// exactly what it gets alone.
package main

import (
	"crypto/sha256"
	"encoding/hex"
	"fmt"
	"math/big"
	"strings"

	"github.com/cihub/seelog"

	"verif/h/conc"

	"com.tuntun.rangers/node/src/common"
	"com.tuntun.rangers/node/src/eth_tx"
	"com.tuntun.rangers/node/src/middleware/db"
	"com.tuntun.rangers/node/src/middleware/types"
	"com.tuntun.rangers/node/src/service"
	"com.tuntun.rangers/node/src/storage/rlp"
)

const chainID = "9500"
const height = uint64(1000)

func secKey(i int) *common.PrivateKey {
	d := sha256.Sum256([]byte(fmt.Sprintf("verif-c07-key-%d", i)))
	d[0] &= 0x7f
	return common.HexStringToSecKey("0x" + hex.EncodeToString(d[:]))
}

// newPool: a pool from the production field set-up (own in-memory executed store), one per body
func newPool() *service.TxPool {
	mem, err := db.NewMemDatabase()
	if err != nil {
		panic(err)
	}
	return service.VerifNewTxPool(mem, false)
}

func verdict(pool *service.TxPool, tx *types.Transaction) string {
	cp := *tx
	if tx.Sign != nil {
		cp.Sign = common.BytesToSign(tx.Sign.Bytes())
	}
	if err := pool.VerifyTransaction(&cp, height); err != nil {
		return err.Error()
	}
	return "accept"
}

// native: hash, sign, recover, verify the honest transaction and two single-field mutants
func native(key int, typ int32, nonce uint64, data, extra string) func() string {
	pool := newPool()
	return func() string {
		sk := secKey(key)
		pk := sk.GetPubKey()
		tx := &types.Transaction{Source: pk.GetAddress().GetHexString(), Target: "0x00000000000000000000000000000000000000aa", Type: typ, Time: "2026-09-25 10:00:00", Data: data, ExtraData: extra, Nonce: nonce, ChainId: chainID}
		tx.Hash = tx.GenHash()
		sign := sk.Sign(tx.Hash.Bytes())
		tx.Sign = &sign
		rec, err := sign.RecoverPubkey(tx.Hash.Bytes())
		recAddr := "-"
		ok := false
		if err == nil {
			recAddr = rec.GetAddress().GetHexString()
			ok = rec.Verify(tx.Hash.Bytes(), &sign)
		}
		var b strings.Builder
		fmt.Fprintf(&b, "hash=%x sign=%s recovered=%s verify=%v honest=%s", tx.Hash[:], sign.GetHexString(), recAddr, ok, verdict(pool, tx))
		m1 := *tx
		m1.Data = data + "x"
		sb := sign.Bytes()
		sb[40] ^= 4
		m3 := *tx
		m3.Sign = common.BytesToSign(sb)
		fmt.Fprintf(&b, " data-mutant=%s sign-mutant=%s rehash=%x", verdict(pool, &m1), verdict(pool, &m3), m1.GenHash().Bytes())
		return b.String()
	}
}

// wrapped Ethereum: build, EIP-155 sign, encode, decode, recover, convert, verify honest + mutants
func eth(key int, nonce uint64, to string, value int64, data []byte) func() string {
	pool := newPool()
	return func() string {
		sk := secKey(key)
		cid, _ := new(big.Int).SetString(chainID, 10)
		signer := eth_tx.NewEIP155Signer(cid)
		var raw *eth_tx.Transaction
		if to == "" {
			raw = eth_tx.NewContractCreation(nonce, big.NewInt(value), 100000, big.NewInt(1000000000), data)
		} else {
			raw = eth_tx.NewTransaction(nonce, common.HexToAddress(to), big.NewInt(value), 100000, big.NewInt(1000000000), data)
		}
		signed, err := eth_tx.SignTx(raw, signer, &sk.PrivKey)
		if err != nil {
			return "sign error: " + err.Error()
		}
		enc, err := rlp.EncodeToBytes(signed)
		if err != nil {
			return "encode error: " + err.Error()
		}
		dec := new(eth_tx.Transaction)
		if err := rlp.DecodeBytes(enc, dec); err != nil {
			return "decode error: " + err.Error()
		}
		sender, err := eth_tx.Sender(signer, dec)
		if err != nil {
			return "sender error: " + err.Error()
		}
		w := eth_tx.ConvertTx(dec, sender, enc)
		var b strings.Builder
		fmt.Fprintf(&b, "payload=%x hash=%x sighash=%x sender=%s data=%s honest=%s", enc, w.Hash[:], signer.Hash(dec).Bytes(), w.Source, w.Data, verdict(pool, w))
		m1 := *w
		m1.Nonce++
		p := append([]byte(nil), enc...)
		p[len(p)-1] ^= 1 // last byte of s
		m3 := *w
		m3.ExtraData = common.ToHex(p)
		fmt.Fprintf(&b, " nonce-mutant=%s payload-mutant=%s", verdict(pool, &m1), verdict(pool, &m3))
		return b.String()
	}
}

func main() {
	common.LocalChainConfig.ChainId = chainID
	common.LocalChainConfig.OriginalChainId = chainID
	service.VerifSetTxPoolLogger(seelog.Disabled)
	call, _ := hex.DecodeString("a9059cbb00000000000000000000000000000000000000000000000000000000000000aa00000000000000000000000000000000000000000000000000000000000003e8")
	conc.Main([]conc.Scenario{
		{Name: "native||native-equal", Mk: func() []func() string {
			return []func() string{native(0, 100, 1, `{"a":"1.25"}`, "memo"), native(0, 100, 1, `{"a":"1.25"}`, "memo")}
		}},
		{Name: "native||native-different", Mk: func() []func() string {
			return []func() string{native(1, 2, 1<<32+5, strings.Repeat(`{"id":"0x6426f4","stake":2000}`, 6), ""), native(2, 0, 0, "", "")}
		}},
		{Name: "eth||eth-different", Mk: func() []func() string {
			return []func() string{eth(0, 0, "", 0, []byte{0x60, 0x80, 0x60, 0x40, 0x52}), eth(1, 9, "0x00000000000000000000000000000000000000bb", 1500, call)}
		}},
		{Name: "native||eth", Mk: func() []func() string {
			return []func() string{native(2, 200, 7, `{"gasLimit":"100000","abiData":"0x00"}`, ""), eth(2, 7, "0x00000000000000000000000000000000000000cc", 1, nil)}
		}},
	})
}
