// C07: key sweep and short-integer alphabet.  Every big-endian integer that is serialised into a
// fixed-width field on the signing / hashing path (public key coordinates X, Y for the address,
// signature r, s, the secret scalar) is exercised with values that have leading zero bytes: the
// sweep over secret keys d = 1..N and over a few hundred messages finds them.  The key -> address
// mapping has an independent reference: keccak256(pad32(X) || pad32(Y))[12:].
package main

import (
	"bytes"
	"encoding/hex"
	"fmt"
	"math/big"

	"com.tuntun.rangers/node/src/common"
	"com.tuntun.rangers/node/src/middleware/types"
)

func keyFromScalar(d *big.Int) *key {
	k := &key{}
	k.sk = common.HexStringToSecKey("0x" + hex.EncodeToString(pad32(d)))
	k.ecd = &k.sk.PrivKey
	copy(k.addr[:], keccak(append(pad32(k.ecd.PublicKey.X), pad32(k.ecd.PublicKey.Y)...))[12:])
	k.addrHex = "0x" + hex.EncodeToString(k.addr[:])
	return k
}

func (r *runner) keySweep(keys []*key, all []*honest) {
	c := r.c
	n := int64(2000)
	if c.Thorough() {
		n = 20000
	}
	var scalars []*big.Int
	for d := int64(1); d <= n; d++ {
		scalars = append(scalars, big.NewInt(d))
	}
	for _, k := range keys {
		scalars = append(scalars, new(big.Int).Set(k.ecd.D))
	}
	for _, off := range []int64{1, 2, 3, 1000} {
		scalars = append(scalars, new(big.Int).Sub(curveN, big.NewInt(off)))
	}
	scalars = append(scalars, new(big.Int).Rsh(curveN, 1), new(big.Int).Lsh(big.NewInt(1), 255), new(big.Int).Lsh(big.NewInt(1), 128), new(big.Int).Lsh(big.NewInt(0xff), 240))
	var selected []*key
	var selectedWhy []string
	ordinary, shortX, shortY := 0, 0, 0
	for _, d := range scalars {
		if d.Sign() <= 0 || d.Cmp(curveN) >= 0 {
			continue
		}
		k := keyFromScalar(d)
		lx, ly := len(k.ecd.PublicKey.X.Bytes()), len(k.ecd.PublicKey.Y.Bytes())
		why := ""
		switch {
		case lx < 32 && ly < 32:
			why = "short X and Y"
			shortX++
			shortY++
		case lx < 32:
			why = "short X"
			shortX++
		case ly < 32:
			why = "short Y"
			shortY++
		case ordinary < 10 || d.BitLen() > 64:
			why = "ordinary"
			ordinary++
		}
		if why != "" {
			selected = append(selected, k)
			selectedWhy = append(selectedWhy, fmt.Sprintf("d=%s (%s)", d, why))
		}
		// the repository's derivation against the reference, for every key of the sweep
		if !r.mine() {
			continue
		}
		c.Eval(1)
		r.nontriv++
		pk := k.sk.GetPubKey()
		id := pk.GetID()
		ref := keccak(append(pad32(k.ecd.PublicKey.X), pad32(k.ecd.PublicKey.Y)...))
		if got := pk.GetAddress().GetHexString(); got != k.addrHex || !bytes.Equal(id, ref) {
			c.Violation("C07:address:GetAddress-differs-from-reference", "key-sweep",
				fmt.Sprintf("secret key d=%s (X %d bytes, Y %d bytes): GetAddress %s GetID %x, reference keccak256(pad32(X)||pad32(Y)) %x -> %s", d, lx, ly, got, id, ref, k.addrHex), kase{Part: "sweep"})
		}
	}
	c.Note("key_sweep", fmt.Sprintf("%d secret keys; admission checks on %d keys (%d with a short X, %d with a short Y, %d ordinary/large)", len(scalars), len(selected), shortX, shortY, ordinary))
	cidStr := chainAt(hHi)
	cid := bigStr(cidStr)
	other := keys[1]
	for i, k := range selected {
		name := "sweep " + selectedWhy[i]
		mkNative := func(source string, signer *key) (types.Transaction, []byte) {
			tx := types.Transaction{Source: source, Target: other.addrHex, Type: types.TransactionTypeOperatorEvent, Time: "2026-09-25 10:00:00", Nonce: uint64(i), ExtraData: `{"` + other.addrHex + `":{"balance":"1"}}`, ChainId: cidStr}
			sig := signNative(&tx, signer)
			return tx, sig
		}
		hn, sn := mkNative(k.addrHex, k)
		hon := &honest{Name: name + " native", Key: 0, Shape: "sweep-native", Height: hHi, Tx: hn, Sig: sn}
		sp := &ethSpec{Nonce: uint64(i), Price: big.NewInt(1000000000), Gas: 60000, To: &other.addr, Value: big.NewInt(3), Data: []byte{1}}
		p, sh := buildEth(sp, cid, k)
		he := &honest{Name: name + " eth", Key: 0, Shape: "sweep-eth", Height: hHi, Eth: true, Tx: wrapEth(sp, k.addrHex, cidStr, p), Spec: sp, Payload: p, SigHash: sh}
		for _, h := range []*honest{hon, he} {
			if !r.mine() {
				continue
			}
			c.Eval(1)
			r.nontriv++
			o := observe(&h.Tx, h.Sig, hHi)
			c.Outcome("honest:" + o)
			if o != "accept" {
				kind := "native"
				if h.Eth {
					kind = "ethtx"
				}
				c.Violation("C07:reject-honest:"+kind+":"+h.Shape, "honest", fmt.Sprintf("honestly signed, Source = reference address %s, %s: %s", k.addrHex, h.Name, o),
					kase{Base: h.Name, Height: hHi, Mut: "none", Expect: "accept", Tx: toJ(&h.Tx, h.Sig), Human: human(&h.Tx)})
			}
		}
		// other derivations of the sender: hash of the unpadded coordinates, of X only, of the
		// compressed / uncompressed encodings with prefix, another key
		x, y := k.ecd.PublicKey.X, k.ecd.PublicKey.Y
		alts := []struct {
			name string
			b    []byte
		}{
			{"keccak(X.Bytes()||Y.Bytes())", keccak(append(append([]byte(nil), x.Bytes()...), y.Bytes()...))[12:]},
			{"keccak(04||X||Y)", keccak(append([]byte{4}, append(pad32(x), pad32(y)...)...))[12:]},
			{"keccak(pad32(X))", keccak(pad32(x))[12:]},
			{"first-20-bytes-of-digest", keccak(append(pad32(x), pad32(y)...))[:20]},
			{"other-key", other.addr[:]},
		}
		for _, a := range alts {
			src := "0x" + hex.EncodeToString(a.b)
			if src == k.addrHex {
				continue
			}
			if r.mine() {
				tx, sg := mkNative(src, k)
				r.mutant(hon, "forge:source-from-other-derivation", fmt.Sprintf("%s: Source := %s = %s, hashed and signed by the key", name, a.name, src), &tx, sg)
			}
			if r.mine() {
				tx := wrapEth(sp, src, cidStr, p)
				r.mutant(he, "forge:source-from-other-derivation", fmt.Sprintf("%s: wrapper Source := %s = %s", name, a.name, src), &tx, nil)
			}
		}
	}

	// short r / short s: sweep messages (nonces) of key 0 until signatures with leading zero bytes show up
	k0 := keys[0]
	limit := uint64(600)
	if c.Thorough() {
		limit = 3000
	}
	found := map[string]int{}
	for nonce := uint64(0); nonce < limit; nonce++ {
		tx := types.Transaction{Source: k0.addrHex, Target: other.addrHex, Type: types.TransactionTypeOperatorEvent, Time: "t", Nonce: nonce, ChainId: cidStr}
		sig := signNative(&tx, k0)
		class := ""
		if sig[0] == 0 {
			class = "short-r"
		}
		if sig[32] == 0 {
			class += "short-s"
		}
		if class == "" && nonce < 3 {
			class = "ordinary"
		}
		if class != "" && found["native-"+class] < 3 {
			found["native-"+class]++
			h := &honest{Name: fmt.Sprintf("k0/native-%s-nonce%d@%d", class, nonce, hHi), Key: 0, Shape: "native-" + class, Height: hHi, Tx: tx, Sig: sig}
			r.honestThen(h, func() { r.nativeMutants(h, keys, all) })
			if r.mine() { // Sign bytes survive the round trip through the Sign type
				c.Eval(1)
				s := common.BytesToSign(sig)
				if s == nil || !bytes.Equal(s.Bytes(), sig) || common.HexStringToSign(s.GetHexString()) == nil || !bytes.Equal(common.HexStringToSign(s.GetHexString()).Bytes(), sig) {
					c.Violation("C07:sign-encoding:roundtrip", "key-sweep", fmt.Sprintf("%s: signature %x does not survive BytesToSign/Bytes/GetHexString/HexStringToSign", h.Name, sig), kase{Part: "sweep"})
				}
			}
		}
		sp := &ethSpec{Nonce: nonce, Price: big.NewInt(1000000000), Gas: 60000, To: &other.addr, Value: big.NewInt(3), Data: nil}
		p, sh := buildEth(sp, cid, k0)
		class = ""
		for _, s := range layout(p) {
			if s.name == "r" && s.end-s.body < 32 {
				class = "short-r"
			}
			if s.name == "s" && s.end-s.body < 32 {
				class += "short-s"
			}
		}
		if class != "" && found["eth-"+class] < 2 {
			found["eth-"+class]++
			h := &honest{Name: fmt.Sprintf("k0/eth-%s-nonce%d@%d", class, nonce, hHi), Key: 0, Shape: "eth-" + class, Height: hHi, Eth: true, Tx: wrapEth(sp, k0.addrHex, cidStr, p), Spec: sp, Payload: p, SigHash: sh}
			r.honestThen(h, func() { r.ethMutants(h, keys, all, false) })
		}
	}
	c.Note("short_signature_bases", fmt.Sprint(found))
}

// honestThen: the base must be accepted (reported by one worker), then its mutants run.
func (r *runner) honestThen(h *honest, mutants func()) {
	o := observe(&h.Tx, h.Sig, h.Height)
	if r.mine() {
		r.c.Eval(1)
		r.nontriv++
		r.c.Outcome("honest:" + o)
		if o != "accept" {
			kind := "native"
			if h.Eth {
				kind = "ethtx"
			}
			r.c.Violation("C07:reject-honest:"+kind+":"+h.Shape, "honest", fmt.Sprintf("honestly signed %s: %s", h.Name, o),
				kase{Base: h.Name, Height: h.Height, Mut: "none", Expect: "accept", Tx: toJ(&h.Tx, h.Sig), Human: human(&h.Tx)})
		}
	}
	if o == "accept" {
		mutants()
	}
}
