// C07, pool-state dimension: the single-field mutations of an honest transaction ("twins":
// declared hash and signature kept, or hash recomputed) are verified / offered not only to a
// pool that never saw the original but to pools in which the original is (a) pending,
// (b) executed, (c) was pending and got evicted by a block (MarkExecuted with EvictedTxs), and
// in the handler sequence verify(twin) -> original evicted -> add(twin) if verify said yes.
// VerifyTransaction must refuse every twin in every pool state and the forged content must
// never be pending.  Isolated pools come from the production field set-up
// (service.VerifNewTxPool over an in-memory executed store); the entry points runWrite and
// peerBatch are driven on the node's own pool.
package main

import (
	"fmt"
	"math/big"

	"verif/h/fw"

	"com.tuntun.rangers/node/src/common"
	"com.tuntun.rangers/node/src/core"
	executors "com.tuntun.rangers/node/src/executor"
	"com.tuntun.rangers/node/src/middleware"
	"com.tuntun.rangers/node/src/middleware/db"
	"com.tuntun.rangers/node/src/middleware/notify"
	"com.tuntun.rangers/node/src/middleware/types"
	"com.tuntun.rangers/node/src/network"
	"com.tuntun.rangers/node/src/service"
)

type twin struct {
	name string
	tx   types.Transaction
	sig  []byte
}

// twins of an honest original (fresh content): hash kept and hash recomputed variants
func (g *entryGen) twins(kind string) (orig types.Transaction, osig []byte, out []twin) {
	a, b := g.a, g.b
	orig, osig, sp, p := g.base(kind)
	add := func(name string, f func(tx *types.Transaction, sig *[]byte)) {
		tx, sig := orig, append([]byte(nil), osig...)
		if osig == nil {
			sig = nil
		}
		f(&tx, &sig)
		out = append(out, twin{name, tx, sig})
	}
	add("target-changed", func(tx *types.Transaction, _ *[]byte) { tx.Target = a.addrHex })
	add("nonce-changed", func(tx *types.Transaction, _ *[]byte) { tx.Nonce += 1000 })
	add("source-other-key", func(tx *types.Transaction, _ *[]byte) { tx.Source = b.addrHex })
	add("chainid-changed", func(tx *types.Transaction, _ *[]byte) { tx.ChainId = "1" })
	if kind != "ethtx" {
		add("data-changed", func(tx *types.Transaction, _ *[]byte) { tx.Data += "x" })
		add("extradata-changed", func(tx *types.Transaction, _ *[]byte) { tx.ExtraData += "x" })
		add("type-changed", func(tx *types.Transaction, _ *[]byte) { tx.Type += 1 })
		add("time-changed", func(tx *types.Transaction, _ *[]byte) { tx.Time += "x" })
		add("signature-bit-flipped", func(_ *types.Transaction, sig *[]byte) { (*sig)[40] ^= 1 })
		add("signed-by-other-key", func(tx *types.Transaction, sig *[]byte) { s := b.sk.Sign(tx.Hash.Bytes()); *sig = s.Bytes() })
		add("no-signature", func(_ *types.Transaction, sig *[]byte) { *sig = nil })
		for _, f := range []string{"target", "data", "nonce"} {
			f := f
			add(f+"-changed-rehashed", func(tx *types.Transaction, _ *[]byte) {
				switch f {
				case "target":
					tx.Target = a.addrHex
				case "data":
					tx.Data += "x"
				case "nonce":
					tx.Nonce += 1000
				}
				tx.Hash = refNativeHash(tx)
			})
		}
		return
	}
	s2 := *sp
	s2.Value = big.NewInt(5000000)
	add("value-changed", func(tx *types.Transaction, _ *[]byte) { tx.Data = wrapEth(&s2, a.addrHex, g.cidStr, p).Data })
	var vv, rr, sv *big.Int
	for _, s := range layout(p) {
		x := new(big.Int).SetBytes(p[s.body:s.end])
		switch s.name {
		case "v":
			vv = x
		case "r":
			rr = x
		case "s":
			sv = x
		}
	}
	bad := ethWithSig(sp, vv, rr, new(big.Int).Xor(sv, big.NewInt(1<<30)))
	add("payload-signature-changed-hash-kept", func(tx *types.Transaction, _ *[]byte) { tx.ExtraData = wrapEth(sp, a.addrHex, g.cidStr, bad).ExtraData })
	add("payload-signature-changed-rehashed", func(tx *types.Transaction, _ *[]byte) { *tx = wrapEth(sp, a.addrHex, g.cidStr, bad) })
	pb, _ := buildEth(sp, g.cid, b)
	add("payload-signed-by-other-key-rehashed", func(tx *types.Transaction, _ *[]byte) { *tx = wrapEth(sp, a.addrHex, g.cidStr, pb) })
	add("payload-signed-by-other-key-hash-kept", func(tx *types.Transaction, _ *[]byte) { tx.ExtraData = wrapEth(sp, a.addrHex, g.cidStr, pb).ExtraData })
	return
}

func withSign(tx *types.Transaction, sig []byte) *types.Transaction {
	cp := *tx
	cp.Sign = nil
	if sig != nil {
		cp.Sign = common.BytesToSign(append([]byte(nil), sig...))
	}
	return &cp
}

func sameContent(p, q *types.Transaction) bool {
	return p.Hash == q.Hash && p.Data == q.Data && p.ExtraData == q.ExtraData && p.ChainId == q.ChainId && p.Source == q.Source && p.Nonce == q.Nonce && p.Target == q.Target && p.Type == q.Type && p.Time == q.Time &&
		string(signBytes(p.Sign)) == string(signBytes(q.Sign))
}

func forgedPending(pool *service.TxPool, tw *types.Transaction) bool {
	_, txs := pool.VerifPending()
	for _, p := range txs {
		if sameContent(p, tw) {
			return true
		}
	}
	return false
}

func receiptsFor(tx *types.Transaction, height uint64) types.Receipts {
	r := types.NewReceipt(nil, false, 0, height, "", tx.Source, "")
	r.TxHash = tx.Hash
	return types.Receipts{r}
}

func applyState(pool service.TransactionPool, state string, orig *types.Transaction) {
	hd := &types.BlockHeader{Height: hHi}
	switch state {
	case "executed":
		pool.MarkExecuted(hd, receiptsFor(orig, hHi), []*types.Transaction{orig}, nil)
	case "evicted":
		pool.MarkExecuted(hd, nil, nil, []common.Hash{orig.Hash})
	}
}

func (r *runner) poolStates(keys []*key) {
	c := r.c
	cidStr := chainAt(hHi)
	g := &entryGen{a: keys[0], b: keys[1], cidStr: cidStr, cid: bigStr(cidStr)}
	kinds := []string{"native-event", "native-contract", "native-type0", "ethtx"}
	states := []string{"pending", "executed", "evicted", "evicted-between-verify-and-add"}
	caseNo := uint64(0)
	var nDirect, nEntry int64

	// (A) the pool itself, one isolated pool per case
	for _, kind := range kinds {
		g.uniq = 1
		_, _, probe := g.twins(kind)
		for ti := range probe {
			for _, state := range states {
				caseNo++
				if !r.mine() {
					continue
				}
				g.uniq = 2000000 + caseNo*4
				orig, osig, tws := g.twins(kind)
				tw := tws[ti]
				if o := observe(&tw.tx, tw.sig, hHi); o == "accept" {
					continue // not a forgery on a fresh pool: the verification families report that
				}
				mem, err := db.NewMemDatabase()
				if err != nil {
					c.Infra("pool-state family: " + err.Error())
					return
				}
				pool := service.VerifNewTxPool(mem, false)
				o := withSign(&orig, osig)
				if err := pool.VerifyTransaction(o, hHi); err != nil {
					continue // reported elsewhere
				}
				if ok, err := pool.AddTransaction(o); !ok || err != nil {
					c.Violation("C07:poolstate:honest-refused", "pool-states", fmt.Sprintf("%s: fresh pool refuses the verified honest original: %v", kind, err), kase{Part: "poolstate", Tx: toJ(&orig, osig), Height: hHi, Expect: "accept"})
					continue
				}
				c.Eval(1)
				r.nontriv++
				nDirect++
				where := fmt.Sprintf("pool[%s, original %s, twin %s]", kind, state, tw.name)
				cs := kase{Part: "poolstate", Base: where, Height: hHi, Mut: tw.name, Expect: "reject", Tx: toJ(&tw.tx, tw.sig), Human: human(&tw.tx)}
				t := withSign(&tw.tx, tw.sig)
				var verr error
				var admitted bool
				p, v, site := fw.Try(func() {
					if state != "evicted-between-verify-and-add" {
						applyState(pool, state, o)
					}
					verr = pool.VerifyTransaction(t, hHi)
					if state == "evicted-between-verify-and-add" {
						applyState(pool, "evicted", o) // a block that evicts the original arrives in between
					}
					if verr == nil { // what every handler does with a positive verdict
						pool.AddTransaction(t)
					}
					admitted = forgedPending(pool, t)
				})
				sname := state
				if p {
					c.Violation("C07:poolstate:"+sname+":panic:"+site, "pool-states", fmt.Sprintf("%s: %v", where, v), cs)
					continue
				}
				c.Outcome(fmt.Sprintf("poolstate:%s:verified=%v,admitted=%v", sname, verr == nil, admitted))
				if verr == nil {
					c.Violation("C07:poolstate:"+sname+":forged-verified", "pool-states",
						fmt.Sprintf("%s: VerifyTransaction accepts the twin (refused on a pool that never saw the original): %s", where, human(&tw.tx)), cs)
				}
				if admitted {
					c.Violation("C07:poolstate:"+sname+":forged-admitted", "pool-states",
						fmt.Sprintf("%s: after verify -> add-if-verified the forged content is pending: %s", where, human(&tw.tx)), cs)
				}
			}
		}
	}

	// (B) the entry points on the node's own pool: original delivered, state applied, twin delivered
	gp, ok := service.GetTransactionPool().(*service.TxPool)
	if !ok {
		c.Infra("pool-state family: the node's pool is not a *service.TxPool")
		return
	}
	exec := core.VerifNewGameExecutor()
	worker := network.VerifNewWorkerConn()
	executors.InitExecutors()
	if middleware.AccountDBManagerInstance.LatestStateDB == nil {
		c.Infra("pool-state family: no latest state installed (entryPoints must run first)")
		return
	}
	gate := uint64(5000)
	deliver := func(entry string, t *types.Transaction) string {
		var prob string
		p, v, site := fw.Try(func() {
			switch entry {
			case "runWrite-nouserid", "runWrite-userid":
				gate++
				user := ""
				if entry == "runWrite-userid" {
					user = "user-1"
				}
				exec.VerifRunWrite(&middleware.Item{Value: &notify.ClientTransactionMessage{Tx: *t, UserId: user, Nonce: 7, GateNonce: gate}})
			case "peerBatch":
				body, err := types.MarshalTransactions([]*types.Transaction{t})
				if err != nil {
					prob = err.Error()
					return
				}
				data, err := network.VerifMarshalMessage(network.Message{Code: network.TransactionGotMsg, Body: body})
				if err != nil {
					prob = err.Error()
					return
				}
				worker.VerifHandleMessage(data, "12345")
			}
		})
		if p {
			prob = fmt.Sprintf("panic %v at %s", v, site)
		}
		return prob
	}
	for _, entry := range []string{"runWrite-nouserid", "runWrite-userid", "peerBatch"} {
		for _, kind := range kinds {
			g.uniq = 1
			_, _, probe := g.twins(kind)
			for ti := range probe {
				for _, state := range states[:3] {
					caseNo++
					if !r.mine() {
						continue
					}
					g.uniq = 2000000 + caseNo*4
					orig, osig, tws := g.twins(kind)
					tw := tws[ti]
					if o := observe(&tw.tx, tw.sig, hHi); o == "accept" {
						continue
					}
					if o := observe(&orig, osig, hHi); o != "accept" {
						continue
					}
					o := withSign(&orig, osig)
					if prob := deliver(entry, o); prob != "" || !gp.IsExisted(orig.Hash) {
						continue // honest refusal is reported by the entry-point family
					}
					applyState(gp, state, o)
					c.Eval(1)
					r.nontriv++
					nEntry++
					t := withSign(&tw.tx, tw.sig)
					prob := deliver(entry, t)
					adm := forgedPending(gp, t)
					c.Outcome(fmt.Sprintf("poolstate:%s:%s:admitted=%v", entry, state, adm))
					where := fmt.Sprintf("%s[%s, original %s, twin %s]", entry, kind, state, tw.name)
					cs := kase{Part: "poolstate", Base: where, Height: hHi, Mut: tw.name, Expect: "reject", Tx: toJ(&tw.tx, tw.sig), Human: human(&tw.tx)}
					if adm {
						c.Violation("C07:poolstate:"+state+":forged-admitted", "pool-states", fmt.Sprintf("%s: the forged content is pending in the pool afterwards: %s", where, human(&tw.tx)), cs)
					}
					if prob != "" {
						c.Violation("C07:poolstate:"+state+":panic", "pool-states", where+": "+prob, cs)
					}
				}
			}
		}
	}
	c.Count("poolstate_direct_cases", nDirect)
	c.Count("poolstate_entry_point_cases", nEntry)
}
