package main

import (
	"fmt"
	"math/big"
	"os"
	"time"

	"com.tuntun.rangers/node/src/common"
	"com.tuntun.rangers/node/src/core"
	"com.tuntun.rangers/node/src/middleware/types"
	"com.tuntun.rangers/node/src/service"
	"com.tuntun.rangers/node/src/storage/account"
	"verif/h/node"
)

func dump(db *account.AccountDB, a common.Address) map[string][]byte {
	m := map[string][]byte{}
	it := db.DataIterator(a, nil)
	if it == nil {
		return m
	}
	for it.Next() {
		m[string(it.Key)] = append([]byte{}, it.Value...)
	}
	return m
}

func main() {
	t0 := time.Now()
	if err := node.Boot(node.ForksAllOn, true); err != nil {
		panic(err)
	}
	common.SetBlockHeight(5)
	fmt.Println("boot", time.Since(t0))
	fmt.Printf("cfg %+v\n", common.LocalChainConfig)
	db := node.LatestState()
	found, tok, pos, dec := db.GetERC20Binding(common.BLANCE_NAME)
	fmt.Println("binding", found, tok.GetHexString(), pos, dec)
	d := dump(db, tok)
	fmt.Println("slots", len(d))
	for k, v := range d {
		fmt.Printf("  %x = %x\n", k, v)
	}
	A := common.HexToAddress("0x00000000000000000000000000000000000000a1")
	B := common.HexToAddress("0x00000000000000000000000000000000000000b1")
	fmt.Printf("keyA %x\n", db.GetERC20Key(A, pos))
	db.SetBalance(A, big.NewInt(1e18))
	db.IntermediateRoot(true)
	d = dump(db, tok)
	fmt.Println("slots", len(d), "balA", db.GetBalance(A))
	tx := &types.Transaction{Source: A.GetHexString(), Target: "", Type: types.TransactionTypeOperatorEvent, Time: "1",
		ExtraData: fmt.Sprintf(`{"%s":{"balance":"0.5"}}`, B.GetHexString()), RequestId: 1}
	tx.Hash = tx.GenHash()
	top := core.GetBlockChain().TopBlock()
	h := &types.BlockHeader{Height: 5, PreHash: top.Hash, CurTime: top.CurTime.Add(time.Second), Castor: common.FromHex("0x7f88b4f2d36a83640ce5d782a0a20cc2b233de3df2d8a358bf0e7b29e9586a12"), ProveValue: big.NewInt(0)}
	blk := &types.Block{Header: h, Transactions: []*types.Transaction{tx}}
	t1 := time.Now()
	root, ev, txs, rcs := core.VerifExecuteBlock(db, blk, "fullverify")
	fmt.Println("exec", time.Since(t1), root.Hex(), len(ev), len(txs), len(rcs))
	for _, r := range rcs {
		fmt.Printf("receipt status=%v result=%q gas=%d\n", r.Status, r.Result, r.GasUsed)
	}
	fmt.Println("A", db.GetBalance(A), "B", db.GetBalance(B), "fee", db.GetBalance(common.FeeAccount))
	d2 := dump(db, tok)
	for k, v := range d2 {
		if string(d[k]) != string(v) {
			fmt.Printf("  changed %x: %x -> %x\n", k, d[k], v)
		}
	}
	_ = service.MinerManagerImpl
	_ = os.Args
}
