// C06: the native token is conserved by every transaction; balances never go negative.
//
// Bounded exhaustive enumeration (E4, plus short sequences) of transactions of every
// balance-moving kind, executed by the real block executor (core.VerifExecuteBlock) on a
// fresh state of the booted dev chain.  Oracle: closed-universe accounting over the raw
// storage of the bound token contract, the miner stake slots and the refund escrow.
package main

import (
	"bytes"
	"crypto/ecdsa"
	"crypto/sha256"
	"encoding/base64"
	"encoding/binary"
	"encoding/hex"
	"encoding/json"
	"fmt"
	"math/big"
	"os"
	"sort"
	"strconv"
	"strings"
	"time"

	"golang.org/x/crypto/sha3"

	"verif/h/asm"
	"verif/h/fw"
	"verif/h/node"

	"com.tuntun.rangers/node/src/common"
	"com.tuntun.rangers/node/src/core"
	crypto "com.tuntun.rangers/node/src/eth_crypto"
	"com.tuntun.rangers/node/src/executor"
	"com.tuntun.rangers/node/src/middleware"
	"com.tuntun.rangers/node/src/middleware/types"
	"com.tuntun.rangers/node/src/storage/account"
	"com.tuntun.rangers/node/src/vm"
)

// ---------------------------------------------------------------------------------------
// case description (JSON-able, concrete: no symbolic amounts inside)

type txSpec struct {
	Kind  string   `json:"kind"`            // transfer | call | create | apply | add | refund
	Eth   bool     `json:"eth,omitempty"`   // contract tx wrapped as TransactionTypeETHTX
	From  string   `json:"from,omitempty"`  // address label, default "A"
	To    []string `json:"to,omitempty"`    // transfer targets / the call target
	Amt   []string `json:"amt,omitempty"`   // transfer amounts / [transferValue] / [refund amount]
	Gas   string   `json:"gas,omitempty"`   // gasLimit string of a contract tx
	Init  string   `json:"init,omitempty"`  // initcode label of a create
	Miner string   `json:"miner,omitempty"` // M1 | M2 | G (a genesis validator) | X (unknown id)
	MType int      `json:"mtype,omitempty"` // 0 validator(heavy) / 1 proposer, as common.MinerType*
	Stake uint64   `json:"stake,omitempty"`
	Acct  string   `json:"acct,omitempty"` // miner account label
}

type kase struct {
	SBal   string     `json:"sbal"`            // balance of sender A (wei, decimal)
	RBal   string     `json:"rbal"`            // balance of recipients B and D
	CBal   string     `json:"cbal"`            // balance of every contract
	XBal   string     `json:"xbal,omitempty"`  // balance pre-loaded at the first CREATE address of A
	DBal   string     `json:"dbal,omitempty"`  // balance of the second ("dust") sender D2
	KBal   string     `json:"kbal,omitempty"`  // balance of the AUTH authority K (harness key)
	Prog2  string     `json:"prog2,omitempty"` // program label installed at the second invoker CI
	Prog   string     `json:"prog,omitempty"`  // program label installed at C0
	Blocks [][]txSpec `json:"blocks"`          // consecutive blocks, executed on one state
	Settle bool       `json:"settle"`          // append an empty block at the refund height
}

func (k kase) ntx() int {
	n := 0
	for _, b := range k.Blocks {
		n += len(b)
	}
	return n
}

// ---------------------------------------------------------------------------------------
// fixed world

const (
	baseHeight   = 20    // all dev proposals (except 025) are active here
	refundAfter  = 36000 // service.refundHeight (proposal 012 active)
	tokenSlotPos = 3     // GetERC20Binding(SYSTEM-RPG) position on the main chain
)

var (
	ten18   = new(big.Int).Exp(big.NewInt(10), big.NewInt(18), nil)
	feeWei  = big.NewInt(1e15) // service.delta026 = 0.001 RPG
	gasWei  = big.NewInt(1e9)  // executor.defaultGasPrice
	burnTag = common.HexToHash("0xb0b0b0b0b0b0b0b0b0b0b0b0b0b0b0b0b0b0b0b0b0b0b0b0b0b0b0b0b0b0c006")

	addrs = map[string]common.Address{
		"A":  common.HexToAddress("0x00000000000000000000000000000000000a0001"),
		"B":  common.HexToAddress("0x00000000000000000000000000000000000b0001"),
		"D":  common.HexToAddress("0x00000000000000000000000000000000000d0001"),
		"F":  common.FeeAccount,
		"C0": common.HexToAddress("0x00000000000000000000000000000000c0de0000"),
		"CP": common.HexToAddress("0x00000000000000000000000000000000c0de0001"), // STOP
		"CS": common.HexToAddress("0x00000000000000000000000000000000c0de0002"), // selfdestruct(self)
		"CO": common.HexToAddress("0x00000000000000000000000000000000c0de0003"), // selfdestruct(B)
		"CR": common.HexToAddress("0x00000000000000000000000000000000c0de0004"), // REVERT
		"CC": common.HexToAddress("0x00000000000000000000000000000000c0de0005"), // selfdestruct(caller)
		"N":  common.HexToAddress("0x000000000000000000000000000000000e0e0001"), // never touched before
		"D2": common.HexToAddress("0x00000000000000000000000000000000000d0002"), // second sender, usually almost empty
		"CI": common.HexToAddress("0x00000000000000000000000000000000c0de0006"), // second program slot (nested invoker)
		"K":  crypto.PubkeyToAddress(authKey.PublicKey),                         // AUTH authority (harness-owned key)
		"P2": common.HexToAddress("0x0000000000000000000000000000000000000002"), // precompile sha256
	}
	helperProg = map[string]string{"CP": "stop", "CS": "sdself", "CO": "sdother", "CR": "revert", "CC": "sdcaller"}
	helpers    = []string{"CP", "CS", "CO", "CR", "CC"}

	genesisProposers = []string{
		"0x7f88b4f2d36a83640ce5d782a0a20cc2b233de3df2d8a358bf0e7b29e9586a12",
		"0xb26612d2742ab4edd016b354725d045d6627de9b1b2d7c40ae26d2c97af21abd",
	}
	minerIds = map[string][]byte{
		"M1": common.FromHex("0x1111111111111111111111111111111111111111111111111111111111110001"),
		"M2": common.FromHex("0x2222222222222222222222222222222222222222222222222222222222220002"),
		"X":  common.FromHex("0x3333333333333333333333333333333333333333333333333333333333330003"),
	}
	genesisValidators [][]byte // filled at boot from the genesis group
)

func keccak(b ...[]byte) []byte {
	h := sha3.NewLegacyKeccak256()
	for _, x := range b {
		h.Write(x)
	}
	return h.Sum(nil)
}

// balanceKey is the storage key of addr's balance in the token contract:
// keccak256(pad32(addr) || pad32(position)) -- computed independently of the repository.
func balanceKey(a common.Address) string {
	var buf [64]byte
	copy(buf[12:32], a.Bytes())
	binary.BigEndian.PutUint64(buf[56:], tokenSlotPos)
	return string(keccak(buf[:]))
}

// createAddress = keccak(rlp([addr, nonce]))[12:], nonce < 128.
func createAddress(a common.Address, nonce uint64) common.Address {
	var n []byte
	if nonce == 0 {
		n = []byte{0x80}
	} else if nonce < 128 {
		n = []byte{byte(nonce)}
	} else {
		panic("createAddress: nonce")
	}
	payload := append(append([]byte{0x94}, a.Bytes()...), n...)
	enc := append([]byte{0xc0 + byte(len(payload))}, payload...)
	return common.BytesToAddress(keccak(enc)[12:])
}

// create2Address = keccak(0xff || addr || salt(=0) || keccak(init))[12:].
func create2Address(a common.Address, init []byte) common.Address {
	var salt [32]byte
	return common.BytesToAddress(keccak([]byte{0xff}, a.Bytes(), salt[:], keccak(init))[12:])
}

var initLabels = []string{"plain", "revert", "invalid", "loop", "sdself", "sdother", "callB", "big", "big2"}

func escrowAddr(height uint64) common.Address {
	return common.BytesToAddress(common.Sha256([]byte("refund" + strconv.FormatUint(height, 10))))
}

// ---------------------------------------------------------------------------------------
// EVM programs (labels -> code), assembled by the harness

func endOf(p *asm.Prog, end string) {
	switch end {
	case "stop":
		p.Op(vm.STOP)
	case "revert":
		p.Revert(0, 0)
	case "invalid":
		p.Raw(0xfe)
	case "loop":
		p.Label("L").PushLabel("L").Op(vm.JUMP)
	default:
		panic("end " + end)
	}
}

func valueOf(p *asm.Prog, vmode string) {
	switch vmode {
	case "cv":
		p.Op(vm.CALLVALUE)
	case "all":
		p.Op(vm.SELFBALANCE)
	case "over":
		p.Op(vm.SELFBALANCE).Push(1).Op(vm.ADD)
	case "one":
		p.Push(1)
	default:
		panic("vmode " + vmode)
	}
}

func burnLog(p *asm.Prog) {
	p.Op(vm.SELFBALANCE).Push(0).Op(vm.MSTORE)
	p.PushN(32, burnTag.Bytes()).Push(32).Push(0).Op(vm.LOG1)
}

func stakeArg(x string) *big.Int {
	switch x {
	case "2^64e18":
		return new(big.Int).Mul(new(big.Int).Lsh(big.NewInt(1), 64), ten18)
	case "max":
		return new(big.Int).Sub(new(big.Int).Lsh(big.NewInt(1), 256), big.NewInt(1))
	}
	v, ok := new(big.Int).SetString(x, 10)
	if !ok {
		panic("stakeArg " + x)
	}
	return v
}

// initcode labels, used by create transactions and by CREATE inside programs.
func initCode(label string) []byte {
	p := asm.New()
	switch label {
	case "plain":
		return asm.Initcode([]byte{byte(vm.STOP)})
	case "revert":
		p.Revert(0, 0)
	case "invalid":
		p.Raw(0xfe)
	case "loop":
		endOf(p, "loop")
	case "sdself":
		burnLog(p)
		p.Op(vm.ADDRESS, vm.SELFDESTRUCT)
	case "sdother":
		p.PushN(20, addrs["B"].Bytes()).Op(vm.SELFDESTRUCT)
	case "callB":
		p.Push(0).Push(0).Push(0).Push(0).Op(vm.CALLVALUE).PushN(20, addrs["B"].Bytes()).Op(vm.GAS, vm.CALL, vm.POP, vm.STOP)
	case "big": // 25000 bytes > MaxCodeSize: creation fails after the value moved
		p.Return(0, 25000)
	case "big2": // 20000 bytes: code deposit out of gas under the default limit (not reverted)
		p.Return(0, 20000)
	default:
		panic("init " + label)
	}
	return p.Bytes()
}

// authKey is the harness-owned key of the AUTH authority K.
var authKey = func() *ecdsa.PrivateKey {
	h := sha256.Sum256([]byte("c06-auth-authority"))
	k, err := crypto.ToECDSA(h[:])
	if err != nil {
		panic(err)
	}
	return k
}()

var authSigCache = map[common.Address][]byte{}

// authInput is (v, r, s, commit) as opAuth reads it from memory: a real low-s secp256k1 signature
// of K over keccak(0x03 || chainId || invoker || commit).
func authInput(invoker common.Address) []byte {
	if b := authSigCache[invoker]; b != nil {
		return b
	}
	commit := keccak([]byte("c06 commit"))
	msg := make([]byte, 97)
	msg[0] = 0x03
	cid := common.GetChainId(baseHeight).Bytes()
	copy(msg[33-len(cid):33], cid)
	copy(msg[65-20:65], invoker.Bytes())
	copy(msg[65:], commit)
	sig, err := crypto.Sign(keccak(msg), authKey)
	if err != nil {
		panic(err)
	}
	in := make([]byte, 128)
	in[31] = sig[64] + 27
	copy(in[32:64], sig[0:32])
	copy(in[64:96], sig[32:64])
	copy(in[96:128], commit)
	authSigCache[invoker] = in
	return in
}

func authValue(label string) *big.Int {
	switch label {
	case "w":
		return big.NewInt(1)
	case "m":
		return new(big.Int).Set(ten18)
	}
	panic("auth value " + label)
}

func progCode(label string) []byte { return progCodeAt(label, addrs["C0"]) }

// progCodeAt assembles the program for installation at address self (AUTH signatures bind the invoker).
func progCodeAt(label string, self common.Address) []byte {
	if label == "" {
		return nil
	}
	f := strings.Split(label, ":")
	p := asm.New()
	switch f[0] {
	case "auth", "auth2": // auth:<recipient>:<w|m>:<valueExt>:<ending>: AUTH by K, then AUTHCALL(s) carrying value paid by tx.origin
		in := authInput(self)
		for i := 0; i < 4; i++ {
			p.PushN(32, in[32*i:32*i+32]).Push(32 * i).Op(vm.MSTORE)
		}
		p.Push(128).Push(0).PushN(20, addrs["K"].Bytes()).Raw(byte(vm.AUTH)).Op(vm.POP)
		ext, _ := strconv.Atoi(f[3])
		n := 1
		if f[0] == "auth2" {
			n = 2
		}
		for i := 0; i < n; i++ {
			// AUTHCALL(authorizedNonce, gas, addr, value, valueExt, argsOffset, argsLength, retOffset, retLength)
			p.Push(0).Push(0).Push(0).Push(0).Push(ext).Push(authValue(f[2]))
			if f[1] == "self" {
				p.Op(vm.ADDRESS)
			} else {
				p.PushN(20, addrs[f[1]].Bytes())
			}
			p.Push(0).Push(i).Raw(byte(vm.AUTHCALL)).Op(vm.POP)
		}
		endOf(p, f[4])
	case "static": // static:<target>:<ending>: STATICCALL into the target
		p.Push(0).Push(0).Push(0).Push(0)
		p.PushN(20, addrs[f[1]].Bytes()).Op(vm.GAS, vm.STATICCALL, vm.POP)
		endOf(p, f[2])
	case "stop":
		p.Op(vm.STOP)
	case "revert":
		p.Revert(0, 0)
	case "invalid":
		p.Raw(0xfe)
	case "loop":
		endOf(p, "loop")
	case "sdself":
		burnLog(p)
		p.Op(vm.ADDRESS, vm.SELFDESTRUCT)
	case "sdother":
		p.PushN(20, addrs["B"].Bytes()).Op(vm.SELFDESTRUCT)
	case "sdcaller":
		p.Op(vm.CALLER, vm.SELFDESTRUCT)
	case "sdnew":
		p.PushN(20, addrs["N"].Bytes()).Op(vm.SELFDESTRUCT)
	case "callcode": // callcode:<target>:<value mode>:<ending> (the target's code runs in C0's context)
		p.Push(0).Push(0).Push(0).Push(0)
		valueOf(p, f[2])
		p.PushN(20, addrs[f[1]].Bytes()).Op(vm.GAS, vm.CALLCODE, vm.POP)
		endOf(p, f[3])
	case "delegate": // delegate:<target>:<ending>
		p.Push(0).Push(0).Push(0).Push(0)
		p.PushN(20, addrs[f[1]].Bytes()).Op(vm.GAS, vm.DELEGATECALL, vm.POP)
		endOf(p, f[2])
	case "twice": // twice:<target>:<value mode>:<ending>: the same value-carrying CALL two times
		for i := 0; i < 2; i++ {
			p.Push(0).Push(0).Push(0).Push(0)
			valueOf(p, f[2])
			p.PushN(20, addrs[f[1]].Bytes()).Op(vm.GAS, vm.CALL, vm.POP)
		}
		endOf(p, f[3])
	case "create2": // create2:<init>:<value mode>:<ending>, salt 0
		ic := initCode(f[1])
		build := func(off int) *asm.Prog {
			q := asm.New()
			q.PushN(2, []byte{byte(len(ic) >> 8), byte(len(ic))}).PushN(2, []byte{byte(off >> 8), byte(off)}).Push(0).Op(vm.CODECOPY)
			q.Push(0).PushN(2, []byte{byte(len(ic) >> 8), byte(len(ic))}).Push(0)
			valueOf(q, f[2])
			q.Op(vm.CREATE2, vm.POP)
			endOf(q, f[3])
			return q
		}
		q := build(build(0).Len())
		return append(q.Bytes(), ic...)
	case "call": // call:<target>:<value mode>:<ending>
		p.Push(0).Push(0).Push(0).Push(0)
		valueOf(p, f[2])
		if f[1] == "self" {
			p.Op(vm.ADDRESS)
		} else {
			p.PushN(20, addrs[f[1]].Bytes())
		}
		p.Op(vm.GAS, vm.CALL, vm.POP)
		endOf(p, f[3])
	case "create": // create:<init>:<value mode>:<ending>
		ic := initCode(f[1])
		build := func(off int) *asm.Prog {
			q := asm.New()
			q.PushN(2, []byte{byte(len(ic) >> 8), byte(len(ic))}).PushN(2, []byte{byte(off >> 8), byte(off)}).Push(0).Op(vm.CODECOPY)
			q.PushN(2, []byte{byte(len(ic) >> 8), byte(len(ic))}).Push(0)
			valueOf(q, f[2])
			q.Op(vm.CREATE, vm.POP)
			endOf(q, f[3])
			return q
		}
		q := build(build(0).Len())
		return append(q.Bytes(), ic...)
	case "stake":
		p.Op(vm.ADDRESS).Push(stakeArg(f[1])).Raw(byte(vm.STAKE)).Op(vm.POP, vm.STOP)
	case "unstake":
		p.Op(vm.ADDRESS).Push(stakeArg(f[1])).Raw(byte(vm.UNSTAKE)).Op(vm.POP, vm.STOP)
	case "unstakeall":
		p.Op(vm.ADDRESS).Raw(byte(vm.UNSTAKEALL)).Op(vm.POP, vm.STOP)
	default:
		panic("prog " + label)
	}
	return p.Bytes()
}

// family of a program label: the part that goes into a signature.
func family(label string) string {
	if label == "" {
		return "eoa"
	}
	return strings.Split(label, ":")[0]
}

// ---------------------------------------------------------------------------------------
// transactions

func parseWei(s string) *big.Int {
	v, ok := new(big.Int).SetString(s, 10)
	if !ok {
		panic("bad wei " + s)
	}
	return v
}

// weiToDec writes wei as an exact decimal RPG string with 18 decimals.
func weiToDec(w *big.Int) string {
	neg := w.Sign() < 0
	a := new(big.Int).Abs(w)
	q, r := new(big.Int).QuoRem(a, ten18, new(big.Int))
	s := fmt.Sprintf("%s.%018s", q.String(), r.String())
	if neg {
		s = "-" + s
	}
	return s
}

func isNegative(s string) bool { return strings.HasPrefix(strings.TrimSpace(s), "-") }

func minerId(label string) []byte {
	if label == "G" {
		return genesisValidators[0]
	}
	id, ok := minerIds[label]
	if !ok {
		panic("miner " + label)
	}
	return id
}

func addrOf(label string) common.Address {
	a, ok := addrs[label]
	if !ok {
		panic("address label " + label)
	}
	return a
}

func buildTx(s txSpec, pos int, nonce uint64) *types.Transaction {
	from := s.From
	if from == "" {
		from = "A"
	}
	tx := &types.Transaction{Source: addrOf(from).GetHexString(), Time: strconv.Itoa(pos), RequestId: uint64(pos + 1), Nonce: nonce}
	switch s.Kind {
	case "transfer":
		tx.Type = types.TransactionTypeOperatorEvent
		var b bytes.Buffer
		b.WriteString("{")
		for i, t := range s.To {
			if i > 0 {
				b.WriteString(",")
			}
			amt, _ := json.Marshal(s.Amt[i])
			fmt.Fprintf(&b, `"%s":{"balance":%s}`, addrOf(t).GetHexString(), amt)
		}
		b.WriteString("}")
		tx.ExtraData = b.String()
	case "call", "create":
		tx.Type = types.TransactionTypeContract
		if s.Eth {
			tx.Type = types.TransactionTypeETHTX
		}
		cd := types.ContractData{GasLimit: s.Gas, TransferValue: s.Amt[0]}
		if s.Kind == "call" {
			tx.Target = addrOf(s.To[0]).GetHexString()
		} else {
			cd.AbiData = "0x" + hex.EncodeToString(initCode(s.Init))
		}
		d, _ := json.Marshal(cd)
		tx.Data = string(d)
	case "apply":
		tx.Type = types.TransactionTypeMinerApply
		pk := bytes.Repeat([]byte{0x5a}, 128)
		vrf := bytes.Repeat([]byte{0x7b}, 32)
		tx.Data = fmt.Sprintf(`{"id":"%s","publicKey":"%s","vrfPublicKey":"%s","type":%d,"stake":%d,"account":"%s"}`,
			common.ToHex(minerId(s.Miner)), common.ToHex(pk), base64.StdEncoding.EncodeToString(vrf), s.MType, s.Stake, addrOf(s.Acct).GetHexString())
	case "add":
		tx.Type = types.TransactionTypeMinerAdd
		tx.Data = fmt.Sprintf(`{"id":"%s","stake":%d}`, common.ToHex(minerId(s.Miner)), s.Stake)
	case "refund":
		tx.Type = types.TransactionTypeMinerRefund
		amt, _ := json.Marshal(s.Amt[0])
		tx.Data = fmt.Sprintf(`{"Amount":%s,"MinerId":"%s"}`, amt, common.ToHex(minerId(s.Miner)))
		tx.Sign = common.BytesToSign(bytes.Repeat([]byte{1}, 65))
	default:
		panic("kind " + s.Kind)
	}
	tx.Hash = tx.GenHash()
	return tx
}

// ---------------------------------------------------------------------------------------
// observation of the implementation state

type snapshot struct {
	slots  map[string][]byte // complete storage of the token contract
	stake  *big.Int          // sum of the stake slots of all known miner ids, in wei
	refund *big.Int          // sum of the pending entries of the escrow accounts
}

func dumpStorage(db *account.AccountDB, a common.Address) map[string][]byte {
	m := map[string][]byte{}
	it := db.DataIterator(a, nil)
	if it == nil {
		return m
	}
	for it.Next() {
		m[string(it.Key)] = append([]byte{}, it.Value...)
	}
	return m
}

type world struct {
	db      *account.AccountDB
	token   common.Address
	uni     map[string]string // balance key -> label of the universe member
	uniAddr map[string]common.Address
	escrows []common.Address
	miners  [][]byte
	roots   []common.Hash // state roots committed (in memory) by this case
}

func (w *world) addU(label string, a common.Address) {
	k := balanceKey(a)
	if _, ok := w.uni[k]; !ok {
		w.uni[k] = label
		w.uniAddr[k] = a
	}
}

func (w *world) observe() snapshot {
	s := snapshot{slots: dumpStorage(w.db, w.token), stake: new(big.Int), refund: new(big.Int)}
	for _, dbAddr := range []common.Address{common.ProposerDBAddress, common.ValidatorDBAddress} {
		for _, id := range w.miners {
			raw := w.db.GetData(dbAddr, common.Sha256(id))
			if len(raw) == 8 {
				st := new(big.Int).SetUint64(binary.BigEndian.Uint64(raw))
				s.stake.Add(s.stake, st.Mul(st, ten18))
			} else if len(raw) != 0 {
				s.stake.Add(s.stake, new(big.Int).Mul(new(big.Int).SetBytes(raw), ten18))
			}
		}
	}
	for _, e := range w.escrows {
		for _, v := range dumpStorage(w.db, e) {
			s.refund.Add(s.refund, new(big.Int).SetBytes(v))
		}
	}
	return s
}

func (w *world) balSum(s snapshot) *big.Int {
	sum := new(big.Int)
	for k := range w.uni {
		sum.Add(sum, new(big.Int).SetBytes(s.slots[k]))
	}
	return sum
}

// ---------------------------------------------------------------------------------------
// executing one case

type finding struct {
	Obs    string `json:"obs"`   // sum-increase | sum-decrease | slot-outside-universe | slot-overflow | balance-mismatch
	Block  int    `json:"block"` // index of the block after which it was observed
	Detail string `json:"detail"`
}

type result struct {
	findings []finding
	outcomes []string // one per transaction
	moved    bool     // some balance slot changed
	panicked string
	trace    []string // per block: what changed (for replay output)
}

func newWorld(k kase) *world {
	db := node.LatestState()
	found, tok, pos, dec := db.GetERC20Binding(common.BLANCE_NAME)
	if !found || pos != tokenSlotPos || dec != 18 {
		panic(fmt.Sprintf("unexpected token binding %v %d %d", found, pos, dec))
	}
	w := &world{db: db, token: tok, uni: map[string]string{}, uniAddr: map[string]common.Address{}}
	for l, a := range addrs {
		w.addU(l, a)
	}
	for n := uint64(0); n < 8; n++ {
		w.addU(fmt.Sprintf("create(A,%d)", n), createAddress(addrs["A"], n))
		w.addU(fmt.Sprintf("create(D2,%d)", n), createAddress(addrs["D2"], n))
	}
	for _, c := range append([]string{"C0", "CI"}, helpers...) {
		for n := uint64(0); n < 4; n++ {
			w.addU(fmt.Sprintf("create(%s,%d)", c, n), createAddress(addrs[c], n))
		}
	}
	for _, ic := range initLabels {
		w.addU("create2(C0,"+ic+")", create2Address(addrs["C0"], initCode(ic)))
	}
	w.addU("zero", common.Address{})
	w.addU("token", tok)
	w.addU("proposerDB", common.ProposerDBAddress)
	w.addU("validatorDB", common.ValidatorDBAddress)

	nblocks := uint64(len(k.Blocks))
	for h := uint64(baseHeight); h < baseHeight+nblocks; h++ {
		w.escrows = append(w.escrows, escrowAddr(h), escrowAddr(h+refundAfter), escrowAddr(h+2*refundAfter))
	}
	w.escrows = append(w.escrows, escrowAddr(0))
	for _, e := range w.escrows {
		w.addU("escrow", e)
	}
	for _, id := range []string{"M1", "M2", "X"} {
		w.miners = append(w.miners, minerIds[id])
	}
	for _, g := range genesisProposers {
		w.miners = append(w.miners, common.FromHex(g))
	}
	w.miners = append(w.miners, genesisValidators...)

	// balances and code
	db.SetBalance(addrs["A"], parseWei(k.SBal))
	db.SetBalance(addrs["B"], parseWei(k.RBal))
	db.SetBalance(addrs["D"], parseWei(k.RBal))
	if k.DBal != "" {
		db.SetBalance(addrs["D2"], parseWei(k.DBal))
	}
	for _, c := range helpers {
		pl := helperProg[c]
		db.SetCode(addrs[c], progCode(pl))
		db.SetNonce(addrs[c], 1)
		db.SetBalance(addrs[c], parseWei(k.CBal))
	}
	if k.Prog != "" {
		db.SetCode(addrs["C0"], progCode(k.Prog))
		db.SetNonce(addrs["C0"], 1)
	}
	db.SetBalance(addrs["C0"], parseWei(k.CBal))
	if k.Prog2 != "" {
		db.SetCode(addrs["CI"], progCodeAt(k.Prog2, addrs["CI"]))
		db.SetNonce(addrs["CI"], 1)
		db.SetBalance(addrs["CI"], parseWei(k.CBal))
	}
	if k.KBal != "" {
		db.SetBalance(addrs["K"], parseWei(k.KBal))
	}
	if k.XBal != "" {
		db.SetBalance(createAddress(addrs["A"], 0), parseWei(k.XBal))
	}
	w.reopen()
	return w
}

var (
	reHexish = strings.NewReplacer("0", "", "1", "", "2", "", "3", "", "4", "", "5", "", "6", "", "7", "", "8", "", "9", "")
)

func msgClass(msg string) string {
	if i := strings.IndexAny(msg, ":,{"); i >= 0 {
		msg = msg[:i]
	}
	w := strings.Fields(msg)
	var keep []string
	for _, x := range w {
		if strings.HasPrefix(x, "0x") {
			continue
		}
		x = reHexish.Replace(x)
		if x != "" {
			keep = append(keep, x)
		}
		if len(keep) == 2 {
			break
		}
	}
	return strings.Join(keep, "_")
}

// txLabel is the part of a signature contributed by one transaction: its kind, the native
// opcode family it runs when that is one of the chain's own extensions (stake/unstake/...),
// and ":fail"/":evicted" when it did not succeed.  Ordinary EVM program shapes are left out so
// that one defect in shared code does not get a signature per program.
func txLabel(s txSpec, k kase, outcome string) string {
	l := s.Kind
	switch s.Kind {
	case "call":
		l = "contract-call"
		if s.To[0] == "C0" {
			for _, pl := range []string{k.Prog, k.Prog2} {
				switch f := family(pl); f {
				case "stake", "unstake", "unstakeall":
					l += ":" + f
				case "auth", "auth2":
					// input class: can tx.origin (the payer of an AUTHCALL's value) afford the value at all?
					l += ":auth"
					own := new(big.Int).Sub(parseWei(k.SBal), feeWei)
					if own.Cmp(authValue(strings.Split(pl, ":")[2])) < 0 {
						l += ":origin-short"
					} else {
						l += ":origin-covers-value"
					}
				}
			}
		}
	case "create":
		l = "contract-create"
	case "apply", "add", "refund":
		l = "miner-" + s.Kind
	}
	f := strings.Split(outcome, "|")
	if len(f) > 1 && f[1] != "ok" {
		l += ":" + f[1]
	}
	return l
}

// reopen commits the state and opens a fresh AccountDB object at the new root, exactly as the
// chain does between two blocks (a block is always executed on an AccountDB opened at its
// parent's state root).
func (w *world) reopen() {
	root, err := w.db.Commit(true)
	if err != nil {
		panic(err)
	}
	w.roots = append(w.roots, root)
	w.db = node.StateAt(root)
}

// release drops the in-memory trie nodes the case committed (nothing is written to disk).
func (w *world) release() {
	tdb := middleware.AccountDBManagerInstance.GetTrieDB()
	for i := len(w.roots) - 1; i >= 0; i-- {
		tdb.Dereference(w.roots[i])
	}
}

type blockPlan struct {
	index  int // block index reported in findings
	height uint64
	specs  []txSpec
}

func plan(k kase) []blockPlan {
	var bp []blockPlan
	for bi, b := range k.Blocks {
		bp = append(bp, blockPlan{bi, uint64(baseHeight + bi), b})
	}
	if k.Settle {
		// every refund scheduled by block b falls due at height(b)+refundAfter: one empty block per due height
		for bi := range k.Blocks {
			bp = append(bp, blockPlan{len(k.Blocks) + bi, uint64(baseHeight+bi) + refundAfter, nil})
		}
	}
	return bp
}

func runCase(k kase) (res result) {
	w := newWorld(k)
	defer w.release()
	castor := common.FromHex(genesisProposers[0])
	top := core.GetBlockChain().TopBlock()
	pre := w.observe()
	pos := 0
	nonces := map[string]uint64{} // per sender: one per processed transaction

	for _, b := range plan(k) {
		var txs []*types.Transaction
		for _, s := range b.specs {
			from := s.From
			if from == "" {
				from = "A"
			}
			txs = append(txs, buildTx(s, pos, nonces[from]))
			pos++
			nonces[from]++
		}
		hdr := &types.BlockHeader{Height: b.height, PreHash: top.Hash, CurTime: top.CurTime.Add(time.Duration(b.height) * time.Second),
			Castor: castor, ProveValue: big.NewInt(0)}
		blk := &types.Block{Header: hdr, Transactions: txs}
		var receipts []*types.Receipt
		var evicted []common.Hash
		p, v, site := fw.Try(func() {
			_, evicted, _, receipts = core.VerifExecuteBlock(w.db, blk, "fullverify")
		})
		if p {
			res.panicked = fmt.Sprintf("%s: %v", site, v)
			return
		}
		// outcomes and burn witnesses
		burn := new(big.Int)
		byHash := map[common.Hash]*types.Receipt{}
		for _, r := range receipts {
			byHash[r.TxHash] = r
		}
		ev := map[common.Hash]bool{}
		for _, e := range evicted {
			ev[e] = true
		}
		for i, tx := range txs {
			lbl := b.specs[i].Kind
			if b.specs[i].Eth {
				lbl = "eth-" + lbl
			}
			r := byHash[tx.Hash]
			switch {
			case r == nil && ev[tx.Hash]:
				res.outcomes = append(res.outcomes, lbl+"|evicted")
			case r == nil:
				res.outcomes = append(res.outcomes, lbl+"|no-receipt")
			case r.Status == types.ReceiptStatusSuccessful:
				res.outcomes = append(res.outcomes, lbl+"|ok")
				for _, l := range r.Logs {
					if len(l.Topics) == 1 && l.Topics[0] == burnTag && len(l.Data) == 32 {
						burn.Add(burn, new(big.Int).SetBytes(l.Data))
					}
				}
			default:
				res.outcomes = append(res.outcomes, lbl+"|fail|"+msgClass(r.Msg))
			}
		}
		w.reopen()
		post := w.observe()
		res.trace = append(res.trace, w.describe(b, pre, post, burn))
		res.findings = append(res.findings, w.compare(b.index, pre, post, burn)...)
		if !res.moved {
			for key := range w.uni {
				if !bytes.Equal(pre.slots[key], post.slots[key]) {
					res.moved = true
					break
				}
			}
		}
		pre = post
	}
	return
}

func (w *world) describe(b blockPlan, pre, post snapshot, burn *big.Int) string {
	var parts []string
	for k, lbl := range w.uni {
		if !bytes.Equal(pre.slots[k], post.slots[k]) {
			parts = append(parts, fmt.Sprintf("%s:%s->%s", lbl, new(big.Int).SetBytes(pre.slots[k]), new(big.Int).SetBytes(post.slots[k])))
		}
	}
	sort.Strings(parts)
	return fmt.Sprintf("block %d height %d txs %d: balances %s->%s stake %s->%s pending-refunds %s->%s burn-witness %s; %s",
		b.index, b.height, len(b.specs), w.balSum(pre), w.balSum(post), pre.stake, post.stake, pre.refund, post.refund, burn, strings.Join(parts, " "))
}

// compare is the oracle for one executed block.
func (w *world) compare(bi int, pre, post snapshot, burn *big.Int) []finding {
	var out []finding
	// (1) no slot of the token contract outside the universe's balance keys changes
	keys := map[string]bool{}
	for k := range pre.slots {
		keys[k] = true
	}
	for k := range post.slots {
		keys[k] = true
	}
	var changed []string
	for k := range keys {
		if !bytes.Equal(pre.slots[k], post.slots[k]) {
			changed = append(changed, k)
		}
	}
	sort.Strings(changed)
	for _, k := range changed {
		if _, ok := w.uni[k]; !ok {
			out = append(out, finding{"slot-outside-universe", bi, fmt.Sprintf("token slot %x: %x -> %x", k, pre.slots[k], post.slots[k])})
		}
	}
	// (2) every balance is a non-negative 256-bit number and GetBalance agrees with the raw slot
	for _, k := range changed {
		lbl, ok := w.uni[k]
		if !ok {
			continue
		}
		raw := post.slots[k]
		if len(raw) > 32 {
			out = append(out, finding{"slot-overflow", bi, fmt.Sprintf("balance slot of %s holds %d bytes: %x", lbl, len(raw), raw)})
		}
		got := w.db.GetBalance(w.uniAddr[k])
		if got.Sign() < 0 || got.Cmp(new(big.Int).SetBytes(raw)) != 0 {
			out = append(out, finding{"balance-mismatch", bi, fmt.Sprintf("GetBalance(%s)=%s, raw slot %x", lbl, got, raw)})
		}
	}
	// (3) conservation: balances + locked stake + pending refunds, minus what self-destruct-to-self burned
	tPre := new(big.Int).Add(w.balSum(pre), new(big.Int).Add(pre.stake, pre.refund))
	tPost := new(big.Int).Add(w.balSum(post), new(big.Int).Add(post.stake, post.refund))
	want := new(big.Int).Sub(tPre, burn)
	if c := tPost.Cmp(want); c != 0 {
		obs := "sum-increase"
		if c < 0 {
			obs = "sum-decrease"
		}
		var parts []string
		for _, k := range changed {
			if lbl, ok := w.uni[k]; ok {
				parts = append(parts, fmt.Sprintf("%s:%s->%s", lbl, new(big.Int).SetBytes(pre.slots[k]), new(big.Int).SetBytes(post.slots[k])))
			}
		}
		sort.Strings(parts)
		out = append(out, finding{obs, bi, fmt.Sprintf("total(balances+stake+pending refunds) %s -> %s, allowed burn %s, excess %s; stake %s->%s refunds %s->%s; %s",
			tPre, tPost, burn, new(big.Int).Sub(tPost, want), pre.stake, post.stake, pre.refund, post.refund, strings.Join(parts, " "))})
	}
	return out
}

// ---------------------------------------------------------------------------------------
// violation handling: confirm, minimise to the smallest sub-sequence, build the signature

func obsSet(fs []finding) string {
	m := map[string]bool{}
	for _, f := range fs {
		m[f.Obs] = true
	}
	var l []string
	for o := range m {
		l = append(l, o)
	}
	sort.Strings(l)
	return strings.Join(l, ",")
}

// subCase keeps only the transactions whose running index is in keep (block layout preserved).
func subCase(k kase, keep map[int]bool) kase {
	n := k
	n.Blocks = nil
	i := 0
	for _, b := range k.Blocks {
		var nb []txSpec
		for _, s := range b {
			if keep[i] {
				nb = append(nb, s)
			}
			i++
		}
		if len(nb) > 0 {
			n.Blocks = append(n.Blocks, nb)
		}
	}
	return n
}

func minimise(k kase, obs string) kase {
	n := k.ntx()
	if n <= 1 {
		return k
	}
	// singletons, then pairs (n <= 3)
	for i := 0; i < n; i++ {
		s := subCase(k, map[int]bool{i: true})
		if r := runCase(s); r.panicked == "" && len(r.findings) > 0 && obsSet(r.findings) == obs {
			return s
		}
	}
	if n > 2 {
		for i := 0; i < n; i++ {
			for j := i + 1; j < n; j++ {
				s := subCase(k, map[int]bool{i: true, j: true})
				if r := runCase(s); r.panicked == "" && len(r.findings) > 0 && obsSet(r.findings) == obs {
					return s
				}
			}
		}
	}
	return k
}

func signature(k kase, obs string, outcomes []string) string {
	var labels []string
	i := 0
	for _, b := range k.Blocks {
		for _, s := range b {
			if s.Kind == "call" || s.Kind == "create" {
				if isNegative(s.Amt[0]) {
					return "C06:negative-transferValue:contract-" + s.Kind
				}
			}
			if s.Kind == "transfer" {
				for _, a := range s.Amt {
					if isNegative(a) {
						return "C06:negative-amount:transfer"
					}
				}
			}
			oc := ""
			if i < len(outcomes) {
				oc = outcomes[i]
			}
			labels = append(labels, txLabel(s, k, oc))
			i++
		}
	}
	if len(labels) == 0 {
		labels = []string{"empty-block"}
	}
	return "C06:" + primaryObs(obs) + ":" + strings.Join(labels, "+")
}

// primaryObs picks the most telling observation of a set for the signature, so that one defect
// does not get a signature per combination of symptoms.
func primaryObs(set string) string {
	for _, o := range []string{"sum-increase", "sum-decrease", "slot-outside-universe", "slot-overflow", "balance-mismatch"} {
		for _, x := range strings.Split(set, ",") {
			if x == o {
				return o
			}
		}
	}
	return set
}

func report(c *fw.Ctx, k kase, r result) {
	obs := obsSet(r.findings)
	// same input, same observation (transfers with two targets depend on Go's map order, so allow a few tries)
	confirmed := false
	for try := 0; try < 6 && !confirmed; try++ {
		r2 := runCase(k)
		confirmed = r2.panicked == "" && obsSet(r2.findings) == obs
	}
	if !confirmed {
		c.Count("unconfirmed_observations", 1)
		return
	}
	m := minimise(k, obs)
	rm := runCase(m)
	if len(rm.findings) == 0 { // map-order dependent minimal case: fall back to the full one
		m, rm = k, r
	}
	var msg []string
	for _, f := range rm.findings {
		msg = append(msg, fmt.Sprintf("[block %d] %s: %s", f.Block, f.Obs, f.Detail))
	}
	js, _ := json.Marshal(m)
	c.Violation(signature(m, obsSet(rm.findings), rm.outcomes), "conservation", strings.Join(msg, " | ")+" | case "+string(js), m)
}

// ---------------------------------------------------------------------------------------
// enumeration

type enumerator struct {
	c     *fw.Ctx
	idx   int64
	stop  bool
	nont  int64
	done  int64
	table map[string]int
}

func (e *enumerator) do(k kase) {
	if e.stop {
		return
	}
	e.idx++
	if !e.c.Mine(e.idx) {
		return
	}
	e.done++
	if e.done%32 == 0 && e.c.Expired() {
		e.c.Cap("time budget reached before the enumeration finished")
		e.stop = true
		return
	}
	r := runCase(k)
	e.c.Eval(1)
	if r.panicked != "" {
		e.c.Outcome("panic:" + r.panicked)
		e.c.Count("panics_in_executor", 1)
		js, _ := json.Marshal(k)
		e.c.Note("panic_example", r.panicked+" case "+string(js))
		return
	}
	for _, o := range r.outcomes {
		e.c.Outcome(o)
		e.table[o]++
	}
	if r.moved {
		e.nont++
	}
	if len(r.findings) > 0 {
		report(e.c, k, r)
	}
	if e.idx%997 == 1 {
		e.c.Sample(map[string]interface{}{"case": k, "outcomes": r.outcomes, "moved": r.moved})
	}
}

func pow10(n int64) *big.Int { return new(big.Int).Exp(big.NewInt(10), big.NewInt(n), nil) }

var (
	balAlphabet = []string{"0", "3", pow10(18).String(), pow10(27).String()}
	fixedAmts   = []string{"0", "1", "0.000000000000000001", "0.0000000000000000001", "-5", "1e30", "", "-0.000000000000000001"}
)

// amounts returns the amount alphabet for a sender that can spend `spendable` wei.
func amounts(spendable *big.Int) []string {
	if spendable.Sign() < 0 {
		spendable = new(big.Int)
	}
	out := append([]string{}, fixedAmts...)
	out = append(out, weiToDec(spendable), weiToDec(new(big.Int).Add(spendable, big.NewInt(1))))
	return out
}

func defaultGas(gas string) *big.Int {
	if gas == "" || gas == "0" {
		return big.NewInt(30000000)
	}
	g, _ := new(big.Int).SetString(gas, 10)
	return g
}

// spendable by a contract tx: balance - fee - gasLimit*price (the pre-check boundary).
func contractSpendable(sbal, gas string) *big.Int {
	s := new(big.Int).Sub(parseWei(sbal), feeWei)
	return s.Sub(s, new(big.Int).Mul(defaultGas(gas), gasWei))
}

func programs(thorough bool) []string {
	ps := []string{"", "stop", "revert", "invalid", "loop", "sdself", "sdother", "sdcaller", "sdnew"}
	for _, t := range []string{"B", "A", "CP", "CS", "CO", "CR", "CC", "self", "P2", "F", "N"} {
		for _, v := range []string{"cv", "all", "over", "one"} {
			for _, e := range []string{"stop", "revert", "invalid", "loop"} {
				ps = append(ps, "call:"+t+":"+v+":"+e)
			}
		}
	}
	for _, t := range []string{"CP", "CS", "CO"} {
		for _, e := range []string{"stop", "revert"} {
			for _, v := range []string{"cv", "over"} {
				ps = append(ps, "callcode:"+t+":"+v+":"+e)
			}
			ps = append(ps, "delegate:"+t+":"+e)
		}
	}
	for _, t := range []string{"B", "CS", "CO", "CR", "CC"} {
		for _, v := range []string{"one", "all"} {
			for _, e := range []string{"stop", "revert"} {
				ps = append(ps, "twice:"+t+":"+v+":"+e)
			}
		}
	}
	for _, i := range []string{"plain", "revert", "invalid", "sdself", "sdother", "callB", "big", "big2"} {
		for _, v := range []string{"cv", "all", "over"} {
			for _, e := range []string{"stop", "revert"} {
				ps = append(ps, "create:"+i+":"+v+":"+e)
			}
		}
	}
	for _, i := range []string{"plain", "revert", "sdself", "sdother"} {
		for _, v := range []string{"cv", "over"} {
			for _, e := range []string{"stop", "revert"} {
				ps = append(ps, "create2:"+i+":"+v+":"+e)
			}
		}
	}
	return ps
}

var stakeArgs = []string{"0", "1", "500000000000000000", "1000000000000000000", "1500000000000000000",
	"400000000000000000000", "401000000000000000000", "801000000000000000000", "2^64e18", "max"}

func enumerate(e *enumerator) {
	th := e.c.Thorough()
	e18, e27 := pow10(18).String(), pow10(27).String()

	// ---- T1: transfer, one target
	sb1 := []string{"0", "3", "1000000000000000", e18, e27}
	for _, tgt := range []string{"B", "A", "CP", "CS", "F"} {
		for _, sb := range sb1 {
			for _, rb := range balAlphabet {
				for _, a := range amounts(new(big.Int).Sub(parseWei(sb), feeWei)) {
					e.do(kase{SBal: sb, RBal: rb, CBal: rb, Blocks: [][]txSpec{{{Kind: "transfer", To: []string{tgt}, Amt: []string{a}}}}})
				}
			}
		}
	}
	// ---- T2: transfer, two targets (the second may exceed what the first left)
	for _, pair := range [][]string{{"B", "D"}, {"B", "A"}, {"A", "D"}} {
		for _, sb := range []string{"3", e18, e27} {
			for _, rb := range []string{"0", e27} {
				am := amounts(new(big.Int).Sub(parseWei(sb), feeWei))
				for _, a1 := range am {
					for _, a2 := range am {
						e.do(kase{SBal: sb, RBal: rb, CBal: "0", Blocks: [][]txSpec{{{Kind: "transfer", To: pair, Amt: []string{a1, a2}}}}})
					}
				}
			}
		}
	}
	// ---- C: contract call into C0 running every program
	gases := []string{"", "700000"}
	cbs := []string{"0", e18}
	sbs := []string{e18, e27}
	if th {
		gases = []string{"", "1000", "700000", "1500000"}
		cbs = balAlphabet
		sbs = []string{"3", "31000000000000000", e18, e27}
	}
	for _, prog := range programs(th) {
		for _, gas := range gases {
			for _, sb := range sbs {
				for _, cb := range cbs {
					for _, v := range amounts(contractSpendable(sb, gas)) {
						e.do(kase{SBal: sb, RBal: "0", CBal: cb, Prog: prog,
							Blocks: [][]txSpec{{{Kind: "call", To: []string{"C0"}, Amt: []string{v}, Gas: gas}}}})
					}
				}
			}
		}
	}
	// the same through the Ethereum-transaction wrapper (reduced product)
	for _, prog := range []string{"", "stop", "sdself", "call:B:cv:stop", "call:CS:cv:revert", "create:plain:cv:stop"} {
		for _, cb := range []string{"0", e18} {
			for _, v := range amounts(contractSpendable(e18, "")) {
				e.do(kase{SBal: e18, RBal: "0", CBal: cb, Prog: prog,
					Blocks: [][]txSpec{{{Kind: "call", Eth: true, To: []string{"C0"}, Amt: []string{v}}}}})
			}
		}
	}
	// direct calls to the helper contracts and to plain accounts
	for _, tgt := range []string{"B", "A", "CP", "CS", "CO", "CR", "CC", "P2", "F", "N"} {
		for _, sb := range []string{e18, e27} {
			for _, cb := range balAlphabet {
				for _, gas := range []string{"", "1000", "700000"} {
					for _, v := range amounts(contractSpendable(sb, gas)) {
						e.do(kase{SBal: sb, RBal: cb, CBal: cb, Blocks: [][]txSpec{{{Kind: "call", To: []string{tgt}, Amt: []string{v}, Gas: gas}}}})
					}
				}
			}
		}
	}
	// ---- K: contract creation
	for _, init := range initLabels {
		for _, gas := range []string{"", "1000", "1700000"} {
			for _, sb := range []string{"3", "31000000000000000", e18, e27} {
				for _, xb := range []string{"", e18} {
					for _, eth := range []bool{false, true} {
						if eth && (gas != "" || xb != "") {
							continue
						}
						for _, v := range amounts(contractSpendable(sb, gas)) {
							e.do(kase{SBal: sb, RBal: "0", CBal: "0", XBal: xb,
								Blocks: [][]txSpec{{{Kind: "create", Eth: eth, Init: init, Amt: []string{v}, Gas: gas}}}})
						}
					}
				}
			}
		}
	}
	// ---- M: miner apply / add / refund
	v400 := new(big.Int).Mul(big.NewInt(400), ten18)
	v2000 := new(big.Int).Mul(big.NewInt(2000), ten18)
	applyBals := []string{"0", "3", e18, v400.String(), new(big.Int).Add(v400, big.NewInt(999999999999999)).String(),
		new(big.Int).Add(v400, feeWei).String(), new(big.Int).Add(v2000, feeWei).String(), e27}
	for _, mt := range []int{int(common.MinerTypeValidator), int(common.MinerTypeProposer), 7} {
		for _, st := range []uint64{0, 399, 400, 401, 1999, 2000, 999999999, 1000000000, 1 << 63, 1<<64 - 1} {
			for _, acct := range []string{"A", "B", "C0"} {
				for _, sb := range applyBals {
					e.do(kase{SBal: sb, RBal: "0", CBal: "0", Prog: "stop", Settle: true,
						Blocks: [][]txSpec{{{Kind: "apply", Miner: "M1", MType: mt, Stake: st, Acct: acct}}}})
				}
			}
		}
	}
	for _, mt := range []int{int(common.MinerTypeValidator), int(common.MinerTypeProposer)} {
		for _, st0 := range []uint64{400, 2000} {
			apply := txSpec{Kind: "apply", Miner: "M1", MType: mt, Stake: st0, Acct: "A"}
			for _, id := range []string{"M1", "G", "X"} {
				for _, d := range []uint64{0, 1, 399, 1600, 999990000, 1000000000, 1<<64 - 2000, 1<<64 - 1} {
					e.do(kase{SBal: e27, RBal: "0", CBal: "0", Settle: true,
						Blocks: [][]txSpec{{apply}, {{Kind: "add", Miner: id, Stake: d}}}})
					e.do(kase{SBal: e27, RBal: "0", CBal: "0", Settle: true,
						Blocks: [][]txSpec{{apply, {Kind: "add", Miner: id, Stake: d}}}})
				}
				for _, from := range []string{"A", "B"} {
					for _, amt := range []string{"0", "1", "399", "400", "401", "1600", "2000", "2001", "abc", "-1", "18446744073709551615", ""} {
						e.do(kase{SBal: e27, RBal: e18, CBal: "0", Settle: true,
							Blocks: [][]txSpec{{apply}, {{Kind: "refund", From: from, Miner: id, Amt: []string{amt}}}}})
						e.do(kase{SBal: e27, RBal: e18, CBal: "0", Settle: true,
							Blocks: [][]txSpec{{apply, {Kind: "refund", From: from, Miner: id, Amt: []string{amt}}}}})
					}
				}
			}
		}
	}
	// ---- S: STAKE-family opcodes executed by a contract that is a miner's account
	for _, st0 := range []uint64{400, 800} {
		apply := txSpec{Kind: "apply", Miner: "M2", MType: int(common.MinerTypeValidator), Stake: st0, Acct: "C0"}
		var progs []string
		for _, x := range stakeArgs {
			progs = append(progs, "stake:"+x, "unstake:"+x)
		}
		progs = append(progs, "unstakeall")
		for _, prog := range progs {
			for _, cb := range []string{"0", e18, e27} {
				for _, v := range []string{"0", "1"} {
					e.do(kase{SBal: e27, RBal: "0", CBal: cb, Prog: prog, Settle: true,
						Blocks: [][]txSpec{{apply}, {{Kind: "call", To: []string{"C0"}, Amt: []string{v}}}}})
				}
			}
		}
	}
	// ---- U: AUTH + AUTHCALL carrying value: the value is debited from tx.origin (the sponsor) while the call
	// is made in the name of the authority K; balance grid {sponsor, authority, invoker} around the value
	{
		gasA := "5000000"
		gA := new(big.Int).Mul(defaultGas(gasA), gasWei)
		addw := func(xs ...*big.Int) string {
			t := new(big.Int)
			for _, x := range xs {
				t.Add(t, x)
			}
			return t.String()
		}
		one := big.NewInt(1)
		around := func(v *big.Int) []string {
			var out []string
			for _, x := range []string{"0", new(big.Int).Sub(v, one).String(), v.String(), new(big.Int).Add(v, one).String(), e27} {
				if len(out) == 0 || out[len(out)-1] != x {
					out = append(out, x)
				}
			}
			return out
		}
		recips := []string{"B", "N", "CR", "CP", "CS", "K", "A", "self"}
		call := func(sb, kb, cb, prog, prog2 string) {
			e.do(kase{SBal: sb, RBal: "0", CBal: cb, KBal: kb, Prog: prog, Prog2: prog2,
				Blocks: [][]txSpec{{{Kind: "call", To: []string{"C0"}, Amt: []string{"0"}, Gas: gasA}}}})
		}
		for _, vl := range []string{"m", "w"} {
			v := authValue(vl)
			// what the sponsor owns when the AUTHCALL runs is its balance minus the flat fee
			sbs := []string{addw(feeWei, gA), addw(feeWei, v, big.NewInt(-1)), addw(feeWei, v), addw(feeWei, v, one),
				addw(feeWei, v, gA, big.NewInt(-1)), addw(feeWei, v, gA), e27}
			if vl == "w" {
				sbs = []string{addw(feeWei, gA), addw(feeWei, gA, one), e27}
			}
			for _, rc := range recips {
				for _, sb := range sbs {
					for _, kb := range around(v) {
						for _, cb := range around(v) {
							for _, end := range []string{"stop", "revert"} {
								call(sb, kb, cb, "auth:"+rc+":"+vl+":0:"+end, "")
							}
						}
						// nested: the invoker CI is entered by CALL, by STATICCALL (must be refused), by CALL from a reverting frame
						for _, cb := range []string{"0", v.String()} {
							for _, outer := range []string{"call:CI:cv:stop", "static:CI:stop", "call:CI:cv:revert", "callcode:CI:cv:stop", "delegate:CI:stop"} {
								call(sb, kb, cb, outer, "auth:"+rc+":"+vl+":0:stop")
							}
							call(sb, kb, cb, "auth2:"+rc+":"+vl+":0:stop", "")
						}
					}
				}
				// non-zero valueExt: refused before anything moves
				for _, sb := range []string{sbs[0], e27} {
					for _, kb := range []string{"0", e27} {
						call(sb, kb, v.String(), "auth:"+rc+":"+vl+":1:stop", "")
					}
				}
			}
		}
	}
	// ---- P: every remaining payer exactly one short / exactly enough / one more
	for _, d := range []int64{-1, 0, 1} {
		dd := big.NewInt(d)
		// the flat fee itself
		e.do(kase{SBal: new(big.Int).Add(feeWei, dd).String(), RBal: "0", CBal: "0",
			Blocks: [][]txSpec{{{Kind: "transfer", To: []string{"B"}, Amt: []string{"0"}}}}})
		// STAKE paid by the contract that is the miner's account
		for _, x := range []string{"1000000000000000000", "400000000000000000000"} {
			e.do(kase{SBal: e27, RBal: "0", CBal: new(big.Int).Add(stakeArg(x), dd).String(), Prog: "stake:" + x, Settle: true,
				Blocks: [][]txSpec{{{Kind: "apply", Miner: "M2", MType: int(common.MinerTypeValidator), Stake: 400, Acct: "C0"}},
					{{Kind: "call", To: []string{"C0"}, Amt: []string{"0"}}}}})
		}
		// miner add paid by the sender (to a genesis validator and to an own miner)
		for _, delta := range []uint64{1, 400} {
			need := new(big.Int).Mul(new(big.Int).SetUint64(delta), ten18)
			e.do(kase{SBal: new(big.Int).Add(new(big.Int).Add(feeWei, need), dd).String(), RBal: "0", CBal: "0", Settle: true,
				Blocks: [][]txSpec{{{Kind: "add", Miner: "G", Stake: delta}}}})
		}
		// miner apply whose account (rich B / contract) differs from the paying sender
		for _, acct := range []string{"B", "C0"} {
			for _, st := range []uint64{400, 2000} {
				mt := int(common.MinerTypeValidator)
				if st == 2000 {
					mt = int(common.MinerTypeProposer)
				}
				need := new(big.Int).Mul(new(big.Int).SetUint64(st), ten18)
				e.do(kase{SBal: new(big.Int).Add(new(big.Int).Add(feeWei, need), dd).String(), RBal: e27, CBal: e27, Prog: "stop", Settle: true,
					Blocks: [][]txSpec{{{Kind: "apply", Miner: "M1", MType: mt, Stake: st, Acct: acct}}}})
			}
		}
		// value-carrying opcodes executed by a contract that owns exactly v-1 / v / v+1 while the sender is rich
		// (and the reverse: the contract rich, the sender just able to pay gas)
		vv := new(big.Int).Set(ten18)
		for _, prog := range []string{"call:B:one:stop", "callcode:CP:over:stop", "create:plain:all:stop", "create2:plain:over:stop",
			"twice:B:all:stop", "sdother", "sdself", "call:CS:all:stop"} {
			e.do(kase{SBal: e27, RBal: "0", CBal: new(big.Int).Add(vv, dd).String(), Prog: prog,
				Blocks: [][]txSpec{{{Kind: "call", To: []string{"C0"}, Amt: []string{"0"}, Gas: "5000000"}}}})
			e.do(kase{SBal: new(big.Int).Add(new(big.Int).Add(feeWei, big.NewInt(5000000000000000)), dd).String(), RBal: "0", CBal: e27, Prog: prog,
				Blocks: [][]txSpec{{{Kind: "call", To: []string{"C0"}, Amt: []string{"0"}, Gas: "5000000"}}}})
		}
	}
	// ---- Q: sequences of two and three transactions over a reduced alphabet
	spend := weiToDec(new(big.Int).Sub(pow10(18), feeWei))
	alpha := []txSpec{
		{Kind: "transfer", To: []string{"B"}, Amt: []string{"1"}},
		{Kind: "transfer", To: []string{"B"}, Amt: []string{spend}},
		{Kind: "transfer", To: []string{"B", "D"}, Amt: []string{"1", "1e30"}},
		{Kind: "transfer", To: []string{"CS"}, Amt: []string{"2"}},
		{Kind: "transfer", To: []string{"C0"}, Amt: []string{"0.5"}},
		{Kind: "call", To: []string{"CP"}, Amt: []string{"1"}},
		{Kind: "call", To: []string{"CS"}, Amt: []string{"1"}},
		{Kind: "call", To: []string{"CO"}, Amt: []string{"1"}},
		{Kind: "call", To: []string{"CR"}, Amt: []string{"1"}},
		{Kind: "call", To: []string{"C0"}, Amt: []string{"1"}},
		{Kind: "call", To: []string{"C0"}, Amt: []string{"0"}},
		{Kind: "call", To: []string{"C0"}, Amt: []string{"1"}, Gas: "1000"},
		{Kind: "call", To: []string{"C0"}, Amt: []string{"1"}, Gas: "700000"},
		{Kind: "call", To: []string{"CS"}, Amt: []string{"-5"}},
		{Kind: "create", Init: "plain", Amt: []string{"1"}},
		{Kind: "create", Init: "revert", Amt: []string{"1"}},
		{Kind: "create", Init: "sdself", Amt: []string{"1"}},
		{Kind: "apply", Miner: "M1", MType: int(common.MinerTypeValidator), Stake: 400, Acct: "A"},
		{Kind: "apply", Miner: "M2", MType: int(common.MinerTypeValidator), Stake: 800, Acct: "C0"},
		{Kind: "add", Miner: "M1", Stake: 1},
		{Kind: "refund", Miner: "M1", Amt: []string{"400"}},
		{Kind: "refund", Miner: "M1", Amt: []string{"1"}},
		{Kind: "call", Eth: true, To: []string{"CP"}, Amt: []string{"1"}},
	}
	if th {
		alpha = append(alpha,
			txSpec{Kind: "transfer", To: []string{"N"}, Amt: []string{"0.000000000000000001"}},
			txSpec{Kind: "call", To: []string{"CC"}, Amt: []string{"1"}},
			txSpec{Kind: "call", To: []string{"N"}, Amt: []string{"1"}},
			txSpec{Kind: "call", To: []string{"C0"}, Amt: []string{"-5"}},
			txSpec{Kind: "create", Init: "sdother", Amt: []string{"1"}},
			txSpec{Kind: "create", Eth: true, Init: "plain", Amt: []string{"1"}},
			txSpec{Kind: "apply", Miner: "M1", MType: int(common.MinerTypeProposer), Stake: 2000, Acct: "B"},
			txSpec{Kind: "refund", From: "B", Miner: "M1", Amt: []string{"2000"}},
			txSpec{Kind: "add", Miner: "M2", Stake: 400},
		)
	}
	type wcfg struct{ sb, cb, prog string }
	worlds := []wcfg{
		{e27, e18, "call:CS:cv:stop"},
		{e27, e18, "unstake:500000000000000000"},
		{e27, e18, "stake:1000000000000000000"},
		{e27, "3", "create:plain:cv:stop"},
		{e27, e18, "unstakeall"},
		{e18, "3", "call:B:all:revert"},
	}
	pairWorlds, tripleWorlds := worlds, worlds[:1]
	if th {
		tripleWorlds = worlds
	}
	for _, wc := range pairWorlds {
		for _, t1 := range alpha {
			for _, t2 := range alpha {
				e.do(kase{SBal: wc.sb, RBal: "0", CBal: wc.cb, Prog: wc.prog, Settle: true, Blocks: [][]txSpec{{t1, t2}}})
				e.do(kase{SBal: wc.sb, RBal: "0", CBal: wc.cb, Prog: wc.prog, Settle: true, Blocks: [][]txSpec{{t1}, {t2}}})
			}
		}
	}
	// ---- D: sub-intrinsic / exactly-intrinsic gas limits from a rich and from an almost empty sender,
	// before and after every letter of the alphabet in the same block (the gas of a failed contract
	// transaction is charged after the revert, possibly more than the sender still owns)
	intrCall, _ := executor.IntrinsicGas(nil, false)
	intrCreate, _ := executor.IntrinsicGas(initCode("plain"), true)
	u := func(g uint64) string { return strconv.FormatUint(g, 10) }
	type dustLetter struct {
		spec txSpec
		gas  []uint64
	}
	var dust []dustLetter
	for _, from := range []string{"A", "D2"} {
		dust = append(dust,
			dustLetter{txSpec{Kind: "call", From: from, To: []string{"CP"}, Amt: []string{"0"}}, []uint64{1, 1000, intrCall - 1, intrCall}},
			dustLetter{txSpec{Kind: "call", Eth: true, From: from, To: []string{"CP"}, Amt: []string{"0"}}, []uint64{1, 1000, intrCall - 1, intrCall}},
			dustLetter{txSpec{Kind: "create", From: from, Init: "plain", Amt: []string{"0"}}, []uint64{1, 1000, intrCreate - 1, intrCreate}})
	}
	dustBals := []string{feeWei.String(), new(big.Int).Add(feeWei, big.NewInt(1)).String(), new(big.Int).Add(feeWei, big.NewInt(100000000000000)).String()}
	for _, g := range []uint64{1, 1000, intrCall - 1, intrCall, intrCreate - 1, intrCreate} {
		dustBals = append(dustBals, new(big.Int).Add(feeWei, new(big.Int).Mul(new(big.Int).SetUint64(g), gasWei)).String())
	}
	dustWorlds := []wcfg{worlds[0], worlds[3]}
	if th {
		dustWorlds = worlds
	}
	for _, wc := range dustWorlds {
		for _, dl := range dust {
			for _, g := range dl.gas {
				d := dl.spec
				d.Gas = u(g)
				dbs := dustBals
				if d.From == "A" {
					dbs = dustBals[:1]
				}
				for _, db := range dbs {
					mk := func(blocks [][]txSpec) {
						e.do(kase{SBal: wc.sb, RBal: "0", CBal: wc.cb, DBal: db, Prog: wc.prog, Settle: true, Blocks: blocks})
					}
					mk([][]txSpec{{d}})
					for _, t1 := range alpha {
						mk([][]txSpec{{t1, d}})
						mk([][]txSpec{{d, t1}})
						if th {
							mk([][]txSpec{{t1, d, d}})
							mk([][]txSpec{{t1}, {d}})
						}
					}
				}
			}
		}
	}
	tripleAlpha := alpha
	if !th {
		// quick: the complete cube over a 14-letter sub-alphabet
		tripleAlpha = nil
		for _, i := range []int{0, 2, 6, 7, 8, 9, 11, 13, 16, 17, 18, 19, 20, 22} {
			tripleAlpha = append(tripleAlpha, alpha[i])
		}
	}
	for _, wc := range tripleWorlds {
		for _, t1 := range tripleAlpha {
			for _, t2 := range tripleAlpha {
				for _, t3 := range tripleAlpha {
					e.do(kase{SBal: wc.sb, RBal: "0", CBal: wc.cb, Prog: wc.prog, Settle: true, Blocks: [][]txSpec{{t1, t2, t3}}})
					e.do(kase{SBal: wc.sb, RBal: "0", CBal: wc.cb, Prog: wc.prog, Settle: true, Blocks: [][]txSpec{{t1}, {t2}, {t3}}})
				}
			}
		}
	}
}

// ---------------------------------------------------------------------------------------

func boot() {
	if err := node.Boot(node.ForksAllOn, true); err != nil {
		panic(err)
	}
	common.SetBlockHeight(baseHeight)
	for _, gi := range (node.Stub{}).GenerateGenesisInfo() {
		for _, m := range gi.Group.Members {
			genesisValidators = append(genesisValidators, append([]byte{}, m...))
		}
	}
	if len(genesisValidators) == 0 {
		panic("no genesis validators")
	}
}

func run(c *fw.Ctx) {
	boot()
	e := &enumerator{c: c, table: map[string]int{}}
	enumerate(e)
	c.NontrivialN(e.nont)
	if f := os.Getenv("C06_OUTCOMES"); f != "" { // development aid: per-worker outcome table
		js, _ := json.MarshalIndent(e.table, "", " ")
		os.WriteFile(fmt.Sprintf("%s.%d", f, c.Shard), js, 0o644)
	}
	c.Note("cases_in_space", e.idx)
}

func replay(c *fw.Ctx, raw json.RawMessage) {
	var k kase
	if err := json.Unmarshal(raw, &k); err != nil {
		panic(err)
	}
	boot()
	r := runCase(k)
	if r.panicked != "" {
		fmt.Println("panic in executor:", r.panicked)
		return
	}
	fmt.Println("outcomes:", r.outcomes)
	for _, t := range r.trace {
		fmt.Println(t)
	}
	if len(r.findings) > 0 {
		var msg []string
		for _, f := range r.findings {
			msg = append(msg, fmt.Sprintf("[block %d] %s: %s", f.Block, f.Obs, f.Detail))
		}
		c.Violation(signature(k, obsSet(r.findings), r.outcomes), "conservation", strings.Join(msg, " | "), k)
	}
}

func main() {
	fw.Main(fw.Check{
		ID: "C06", Level: "exploration",
		Rule: "full cartesian products of {tx kind} x {amount string alphabet incl. zero, 19 decimals, negative, huge, spendable, spendable+1wei} x " +
			"{sender/recipient/contract balance alphabet} x {gas limit alphabet} x {harness-assembled EVM programs: CALL/CREATE/SELFDESTRUCT/STAKE-family " +
			"with value, followed by STOP/REVERT/INVALID/out-of-gas}, plus all pairs (and triples) over a reduced transaction alphabet in one block and in " +
			"consecutive blocks, plus every alphabet letter before/after contract txs with gas limit {1,1000,intrinsic-1,intrinsic} from a rich and from a dust sender (balance alphabet around fee + gasLimit*price); " +
			"every case runs through core's block executor on a fresh head state. A case counts as non-trivial when at least one balance " +
			"slot of the universe changed; cases are distinct by construction (the enumeration never repeats an input).",
		Assumptions: []string{
			"harness EVM assembler, JSON builders and the decimal formatter are correct",
			"block header without GroupId: the reward calculator schedules no reward (allowed increase is exactly zero); proposal 025 inactive",
			"self-destruct-to-self burn is witnessed by a LOG1 of SELFBALANCE emitted by the harness program right before SELFDESTRUCT",
			"state set up through AccountDB.SetBalance/SetCode/SetNonce; transactions are not signature-checked by the executor",
			"pending refunds are read from the escrow accounts refund<height> for the heights the case can reach (now, now+36000)",
		},
		Run: run, Replay: replay,
		Budget: func(tier string) time.Duration {
			if tier == "thorough" {
				return 17 * time.Minute
			}
			return 75 * time.Second
		},
	})
}
