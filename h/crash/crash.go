// Package crash turns "process death after any individual store write" into an
// enumerable fault: with the `leveldb` overlay feature every physical LevelDB write
// call of the process (hooked inside goleveldb's DB.Put/Delete/Write) notifies VerifWriteHook first; InstallFromEnv counts those calls
// and ends the process (os.Exit, no deferred functions, no Close) immediately before
// write number VERIF_CRASH_AT.  What earlier writes put into the OS page cache
// survives, exactly as after a kill -9.
package crash

import (
	"errors"
	"fmt"
	"os"
	"strconv"
	"sync"

	"github.com/syndtr/goleveldb/leveldb"
)

var (
	mu      sync.Mutex
	count   int
	crashAt int
	failAt  int
	failed  bool
	armed   bool
	trace   []string
)

// ExitCode is the status of a process that died at an injected crash point.
const ExitCode = 77

// InstallFromEnv installs the counting hook.  Counting starts when Arm is called
// (so that boot-time writes of a fresh store are not crash points unless wanted).
func InstallFromEnv() {
	crashAt, _ = strconv.Atoi(os.Getenv("VERIF_CRASH_AT"))
	failAt, _ = strconv.Atoi(os.Getenv("VERIF_FAIL_AT"))
	leveldb.VerifWriteHook = func(path, kind string, b *leveldb.Batch, key, value []byte) error {
		mu.Lock()
		defer mu.Unlock()
		if !armed {
			return nil
		}
		count++
		if len(trace) < 4000 {
			k := key
			if len(k) > 24 {
				k = k[:24]
			}
			n := 0
			if b != nil {
				n = b.Len()
			}
			trace = append(trace, fmt.Sprintf("%d %s %s key=%q batch=%d", count, path, kind, k, n))
		}
		if crashAt > 0 && count == crashAt {
			os.Exit(ExitCode)
		}
		if failAt > 0 && count == failAt {
			failed = true
			return ErrInjected // the write is not performed; the process goes on
		}
		return nil
	}
}

// ErrInjected is what physical write number VERIF_FAIL_AT returns instead of writing.
var ErrInjected = errors.New("injected I/O error (verification harness)")

// Failed reports whether the injected write error has been delivered.
func Failed() bool { mu.Lock(); defer mu.Unlock(); return failed }

func Arm()            { mu.Lock(); armed = true; mu.Unlock() }
func Disarm()         { mu.Lock(); armed = false; mu.Unlock() }
func Count() int      { mu.Lock(); defer mu.Unlock(); return count }
func Trace() []string { mu.Lock(); defer mu.Unlock(); return append([]string{}, trace...) }
