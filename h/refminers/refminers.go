// Package refminers is the boring reference model of the miner registry and its
// token accounting (property C20): plain maps, math/big, no code of the
// repository under test.  It follows the property *statement*:
//
//   - a miner record is (id, type, account, stake, status, applyHeight) and its stake is
//     applied + added - refunded;
//   - an account controls at most one miner (a record counts as long as it exists,
//     aborted or not);
//   - every executed transaction pays the fixed fee; a rejected one changes nothing else;
//   - stake leaves the liquid balance when it is locked, a refund moves it to an escrow
//     entry that is credited to the miner's account at its due height.
//
// The concrete rules (minimum stakes, who may refund, delays, the re-activation
// threshold of AddStake) are parameters / were learned from the implementation and
// are listed in Rules.
package refminers

import (
	"fmt"
	"math"
	"math/big"
	"sort"
	"strings"
)

const (
	StatusNormal = 0
	StatusAbort  = 1
	TypeVal      = 0
	TypeProp     = 1
)

type Rules struct {
	MinStake    map[byte]uint64
	Fee         *big.Int
	Unit        *big.Int // tokens per unit of stake (10^18)
	ApplyDelay  uint64
	RefundDelay uint64
	// Due, when set, replaces Height+RefundDelay: the height at which a refund made at
	// height now by a miner of the given type is paid out.
	Due        func(now uint64, typ byte) uint64
	FeeAccount string
	// Contract: accounts that carry code.  Learned rule: a record controlled by such an
	// account is not deleted when its whole stake is refunded; it stays as an aborted
	// record with stake 0 (and keeps occupying the account).
	Contract map[string]bool
}

type Miner struct {
	ID          string
	Type        byte
	Account     string
	Status      byte
	ApplyHeight uint64
	PK, VRF     string
	// ledger of this incarnation of the record
	Applied, Added, Refunded uint64
	// Fresh: the record was created, or its account changed, in the block that is
	// still open (its writes are not yet folded into the state trie).
	Fresh bool
}

func (m *Miner) Stake() uint64 { return m.Applied + m.Added - m.Refunded }

type Tx struct {
	Kind    string // apply | add | refund | chg
	Source  string
	ID      string
	Type    byte
	Amount  uint64 // stake / delta / refund amount (MaxUint64 = everything)
	Account string // apply: controlling account, chg: target account
	PK, VRF string
}

type Result struct {
	Executed bool // fee was charged
	Accepted bool
	Reason   string
}

type Model struct {
	R        Rules
	Miners   map[string]*Miner
	Bal      map[string]*big.Int
	Escrow   map[uint64]map[string]*big.Int // due height -> account -> amount
	Pending  map[uint64]map[string]*big.Int // refunds of the open block
	FeesPaid map[string]*big.Int
	Height   uint64 // height of the block in execution
	Open     bool   // a block is in execution
}

func New(r Rules) *Model {
	return &Model{R: r, Miners: map[string]*Miner{}, Bal: map[string]*big.Int{},
		Escrow: map[uint64]map[string]*big.Int{}, Pending: map[uint64]map[string]*big.Int{},
		FeesPaid: map[string]*big.Int{}}
}

func (m *Model) bal(a string) *big.Int {
	b, ok := m.Bal[a]
	if !ok {
		b = new(big.Int)
		m.Bal[a] = b
	}
	return b
}

func (m *Model) tokens(units uint64) *big.Int {
	return new(big.Int).Mul(new(big.Int).SetUint64(units), m.R.Unit)
}

// ByAccount returns the ids of all records controlled by account (sorted).
func (m *Model) ByAccount(account string) []string {
	var out []string
	for id, r := range m.Miners {
		if r.Account == account {
			out = append(out, id)
		}
	}
	sort.Strings(out)
	return out
}

func (m *Model) BeginBlock(h uint64) {
	m.Height = h
	m.Open = true
}

// EndBlock escrows the refunds of the block and credits whatever is due at this height.
func (m *Model) EndBlock() {
	for h, l := range m.Pending {
		for a, v := range l {
			if m.Escrow[h] == nil {
				m.Escrow[h] = map[string]*big.Int{}
			}
			if m.Escrow[h][a] == nil {
				m.Escrow[h][a] = new(big.Int)
			}
			m.Escrow[h][a].Add(m.Escrow[h][a], v)
		}
	}
	m.Pending = map[uint64]map[string]*big.Int{}
	if l, ok := m.Escrow[m.Height]; ok {
		for a, v := range l {
			m.bal(a).Add(m.bal(a), v)
		}
		delete(m.Escrow, m.Height)
	}
	for _, r := range m.Miners {
		r.Fresh = false
	}
	m.Open = false
}

// Exec applies one miner transaction.
func (m *Model) Exec(tx Tx) Result {
	src := m.bal(tx.Source)
	if src.Cmp(m.R.Fee) < 0 {
		return Result{false, false, "cannot pay fee"}
	}
	src.Sub(src, m.R.Fee)
	m.bal(m.R.FeeAccount).Add(m.bal(m.R.FeeAccount), m.R.Fee)
	if m.FeesPaid[tx.Source] == nil {
		m.FeesPaid[tx.Source] = new(big.Int)
	}
	m.FeesPaid[tx.Source].Add(m.FeesPaid[tx.Source], m.R.Fee)
	ok, why := m.exec(tx)
	return Result{true, ok, why}
}

func (m *Model) exec(tx Tx) (bool, string) {
	switch tx.Kind {
	case "apply":
		min, ok := m.R.MinStake[tx.Type]
		if !ok {
			return false, "type"
		}
		if tx.Amount < min {
			return false, "below-minimum"
		}
		if tx.PK == "" || tx.VRF == "" {
			return false, "no-keys"
		}
		need := m.tokens(tx.Amount)
		if m.bal(tx.Source).Cmp(need) < 0 {
			return false, "balance"
		}
		if m.Miners[tx.ID] != nil {
			return false, "id-exists"
		}
		if len(m.ByAccount(tx.Account)) > 0 {
			return false, "account-occupied"
		}
		m.bal(tx.Source).Sub(m.bal(tx.Source), need)
		m.Miners[tx.ID] = &Miner{ID: tx.ID, Type: tx.Type, Account: tx.Account, Status: StatusNormal,
			ApplyHeight: m.Height + m.R.ApplyDelay, PK: tx.PK, VRF: tx.VRF, Applied: tx.Amount, Fresh: true}
		return true, "ok"
	case "add":
		if tx.Amount == 0 {
			return true, "ok-zero"
		}
		need := m.tokens(tx.Amount)
		if m.bal(tx.Source).Cmp(need) < 0 {
			return false, "balance"
		}
		r := m.Miners[tx.ID]
		if r == nil {
			return false, "no-miner"
		}
		if r.Stake() > math.MaxUint64-tx.Amount {
			return false, "overflow"
		}
		m.bal(tx.Source).Sub(m.bal(tx.Source), need)
		r.Added += tx.Amount
		// learned rule: an aborted record becomes active again only strictly above the minimum
		if r.Stake() > m.R.MinStake[r.Type] {
			r.Status = StatusNormal
		}
		return true, "ok"
	case "refund":
		r := m.Miners[tx.ID]
		if r == nil {
			return false, "no-miner"
		}
		if r.Account != tx.Source {
			return false, "not-owner"
		}
		amount := tx.Amount
		if amount == math.MaxUint64 {
			amount = r.Stake()
		}
		if r.Stake() < amount {
			return false, "more-than-stake"
		}
		r.Refunded += amount
		left := r.Stake()
		why := "ok"
		if left < m.R.MinStake[r.Type] {
			if left == 0 && !m.R.Contract[r.Account] {
				delete(m.Miners, tx.ID)
				why = "ok-removed"
			} else if left == 0 {
				r.Status = StatusAbort
				why = "ok-emptied"
			} else {
				r.Status = StatusAbort
				why = "ok-aborted"
			}
		}
		if amount == 0 {
			return true, why + "-zero"
		}
		due := m.Height + m.R.RefundDelay
		if m.R.Due != nil {
			due = m.R.Due(m.Height, r.Type)
		}
		if m.Pending[due] == nil {
			m.Pending[due] = map[string]*big.Int{}
		}
		if m.Pending[due][r.Account] == nil {
			m.Pending[due][r.Account] = new(big.Int)
		}
		m.Pending[due][r.Account].Add(m.Pending[due][r.Account], m.tokens(amount))
		return true, why
	case "chg":
		r := m.Miners[tx.ID]
		if r == nil {
			return false, "no-miner"
		}
		if r.Account == tx.Account {
			return false, "same-account"
		}
		if r.Account != tx.Source {
			return false, "not-owner"
		}
		if len(m.ByAccount(tx.Account)) > 0 {
			return false, "account-occupied"
		}
		r.Account = tx.Account
		r.Fresh = true
		return true, "ok"
	}
	return false, "unknown-kind"
}

// ActiveProposers returns total stake and the per-id stakes of the proposers that are
// active at query height q.
func (m *Model) ActiveProposers(q uint64) (uint64, map[string]uint64) {
	total := uint64(0)
	det := map[string]uint64{}
	for id, r := range m.Miners {
		if r.Type == TypeProp && r.Status == StatusNormal && q >= r.ApplyHeight {
			total += r.Stake()
			det[id] = r.Stake()
		}
	}
	return total, det
}

// Active returns id -> account of the active records of one type at height q.
func (m *Model) Active(typ byte, q uint64) map[string]string {
	out := map[string]string{}
	for id, r := range m.Miners {
		if r.Type == typ && r.Status == StatusNormal && q >= r.ApplyHeight {
			out[id] = r.Account
		}
	}
	return out
}

// Locked is the number of stake units held by all records.
func (m *Model) Locked() uint64 {
	t := uint64(0)
	for _, r := range m.Miners {
		t += r.Stake()
	}
	return t
}

// EscrowTotal sums escrowed and pending refunds.
func (m *Model) EscrowTotal() *big.Int {
	t := new(big.Int)
	for _, l := range m.Escrow {
		for _, v := range l {
			t.Add(t, v)
		}
	}
	for _, l := range m.Pending {
		for _, v := range l {
			t.Add(t, v)
		}
	}
	return t
}

// DueHeights lists the heights with escrow entries, ascending.
func (m *Model) DueHeights() []uint64 {
	var hs []uint64
	for h := range m.Escrow {
		hs = append(hs, h)
	}
	sort.Slice(hs, func(i, j int) bool { return hs[i] < hs[j] })
	return hs
}

// Canon is a canonical, height- and fee-insensitive rendering of the model state
// (used as part of the search key): apply heights are left out, due heights are
// replaced by their rank, balances are taken before fees.
func (m *Model) Canon() string {
	var sb strings.Builder
	ids := make([]string, 0, len(m.Miners))
	for id := range m.Miners {
		ids = append(ids, id)
	}
	sort.Strings(ids)
	for _, id := range ids {
		r := m.Miners[id]
		fmt.Fprintf(&sb, "M %s t%d %s s%d a%d+%d-%d f%v k%s/%s\n", id, r.Type, r.Account, r.Status, r.Applied, r.Added, r.Refunded, r.Fresh, r.PK, r.VRF)
	}
	as := make([]string, 0, len(m.Bal))
	for a := range m.Bal {
		if a != m.R.FeeAccount {
			as = append(as, a)
		}
	}
	sort.Strings(as)
	for _, a := range as {
		g := new(big.Int).Set(m.Bal[a])
		if f := m.FeesPaid[a]; f != nil {
			g.Add(g, f)
		}
		fmt.Fprintf(&sb, "B %s %s\n", a, g)
	}
	canonEsc := func(tag string, e map[uint64]map[string]*big.Int) {
		hs := make([]uint64, 0, len(e))
		for h := range e {
			hs = append(hs, h)
		}
		sort.Slice(hs, func(i, j int) bool { return hs[i] < hs[j] })
		for rank, h := range hs {
			var acc []string
			for a := range e[h] {
				acc = append(acc, a)
			}
			sort.Strings(acc)
			for _, a := range acc {
				fmt.Fprintf(&sb, "%s %d %s %s\n", tag, rank, a, e[h][a])
			}
		}
	}
	canonEsc("E", m.Escrow)
	canonEsc("P", m.Pending)
	fmt.Fprintf(&sb, "open %v\n", m.Open)
	return sb.String()
}
