module verif/h

go 1.23

require com.tuntun.rangers/node v0.0.0

require github.com/cihub/seelog v0.0.0-20170130134532-f561c5e57575 // indirect

replace com.tuntun.rangers/node => /repo
