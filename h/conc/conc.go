// Package conc is the "results do not depend on the schedule" companion of the checks whose
// property is about pure functions (codecs, signatures, proofs, conversions).  A scenario is
// a set of thread bodies that call the real functions on their own inputs and return a
// canonical string of everything they computed.  The companion binary is built with the
// `sched=<files>` overlay (a scheduling point before every statement of the files that
// implement the functions), runs every body alone to get its reference result, and then
// explores EVERY schedule of the bodies with at most <bound> preemptions (E5 + E1): each
// thread must return exactly what it returned alone.  Package-level scratch state, caches
// keyed by too little, lazily built tables that are published before they are complete all
// show up as a result that depends on the schedule.
//
// The same binary built with -race and run in `free` mode lets the bodies run as ordinary
// goroutines: unsynchronised accesses that the cooperative scheduler cannot see (its
// hand-offs are happens-before edges) are reported by the race detector there.
package conc

import (
	"encoding/json"
	"fmt"
	"os"
	"strconv"
	"sync"
	"time"

	"verif/h/fw"
	"verif/h/sched"
)

// Scenario: Mk returns fresh thread bodies (fresh inputs, no aliasing between executions).
type Scenario struct {
	Name string
	Mk   func() []func() string
}

type Mismatch struct {
	Scenario string `json:"scenario"`
	Thread   int    `json:"thread"`
	Alone    string `json:"alone"`
	Got      string `json:"got"`
	Kind     string `json:"kind"` // result | panic | deadlock
	Schedule []int  `json:"schedule"`
	Choices  []int  `json:"choices"`
}

type ScenarioStats struct {
	Name       string `json:"name"`
	Executions int64  `json:"executions"`
	MaxPoints  int    `json:"max_points"`
	Steps      int64  `json:"steps"`
	Truncated  bool   `json:"truncated"`
	Divergence string `json:"divergence,omitempty"`
	Unstable   string `json:"unstable,omitempty"` // a body is not deterministic even alone
}

type Report struct {
	Bound      int             `json:"bound"`
	Scenarios  []ScenarioStats `json:"scenarios"`
	Mismatches []Mismatch      `json:"mismatches"`
}

func clip(s string) string {
	if len(s) > 400 {
		return s[:400] + "…"
	}
	return s
}

func alone(sc Scenario) ([]string, string) {
	var ref []string
	for round := 0; round < 2; round++ {
		bodies := sc.Mk()
		var got []string
		for _, b := range bodies {
			got = append(got, b())
		}
		if round == 0 {
			ref = got
			continue
		}
		for i := range got {
			if got[i] != ref[i] {
				return ref, fmt.Sprintf("thread %d run alone twice: %q vs %q", i, clip(ref[i]), clip(got[i]))
			}
		}
	}
	return ref, ""
}

func runOnce(sc Scenario, ref []string, ch sched.Chooser) (mm []Mismatch, res sched.Result) {
	bodies := sc.Mk()
	out := make([]string, len(bodies))
	wrapped := make([]func(), len(bodies))
	for i := range bodies {
		i := i
		wrapped[i] = func() { out[i] = bodies[i]() }
	}
	res = sched.Run(wrapped, ch, 200000)
	if res.Deadlock {
		mm = append(mm, Mismatch{Scenario: sc.Name, Kind: "deadlock", Schedule: res.Schedule})
		return
	}
	for i := range bodies {
		if res.Panics[i] != nil {
			mm = append(mm, Mismatch{Scenario: sc.Name, Thread: i, Kind: "panic", Alone: clip(ref[i]), Got: clip(fmt.Sprint(res.Panics[i])), Schedule: res.Schedule})
		} else if out[i] != ref[i] {
			mm = append(mm, Mismatch{Scenario: sc.Name, Thread: i, Kind: "result", Alone: clip(ref[i]), Got: clip(out[i]), Schedule: res.Schedule})
		}
	}
	return
}

// Main is the entry point of a companion binary.
//
//	explore <bound> <shard> <nshards> <budget_s>
//	replay  <scenario> <choices-json>
//	free    <rounds>
func Main(scenarios []Scenario) {
	if len(os.Args) < 2 {
		fmt.Fprintln(os.Stderr, "usage: explore|replay|free ...")
		os.Exit(2)
	}
	switch os.Args[1] {
	case "explore":
		bound, _ := strconv.Atoi(os.Args[2])
		shard, _ := strconv.Atoi(os.Args[3])
		nshards, _ := strconv.Atoi(os.Args[4])
		budget, _ := strconv.Atoi(os.Args[5])
		deadline := time.Now().Add(time.Duration(budget) * time.Second)
		rep := Report{Bound: bound}
		for _, sc := range scenarios {
			st := ScenarioStats{Name: sc.Name}
			ref, unstable := alone(sc)
			if unstable != "" {
				st.Unstable = unstable
				rep.Scenarios = append(rep.Scenarios, st)
				continue
			}
			seen := map[string]bool{}
			var mm []Mismatch
			var res sched.Result
			es := fw.ExploreShard(bound, func(ch *fw.Chooser) {
				mm, res = runOnce(sc, ref, ch)
			}, func(ch *fw.Chooser) {
				st.Steps += int64(res.Steps)
				for _, m := range mm {
					k := fmt.Sprintf("%s|%d|%s", m.Scenario, m.Thread, m.Kind)
					if !seen[k] {
						seen[k] = true
						m.Choices = ch.Choices()
						rep.Mismatches = append(rep.Mismatches, m)
					}
				}
			}, func() bool { return time.Now().After(deadline) }, shard, nshards)
			st.Executions, st.MaxPoints, st.Truncated = es.Executions, es.MaxPoints, es.Truncated
			if es.Divergence != nil {
				st.Divergence = es.Divergence.Error()
			}
			rep.Scenarios = append(rep.Scenarios, st)
		}
		json.NewEncoder(os.Stdout).Encode(rep)
	case "replay":
		var choices []int
		json.Unmarshal([]byte(os.Args[3]), &choices)
		rep := Report{}
		for _, sc := range scenarios {
			if sc.Name != os.Args[2] {
				continue
			}
			ref, _ := alone(sc)
			mm, _ := runOnce(sc, ref, fw.NewReplayChooser(choices))
			for i := range mm {
				mm[i].Choices = choices
			}
			rep.Mismatches = mm
			rep.Scenarios = append(rep.Scenarios, ScenarioStats{Name: sc.Name, Executions: 1})
		}
		json.NewEncoder(os.Stdout).Encode(rep)
	case "free":
		rounds, _ := strconv.Atoi(os.Args[2])
		rep := Report{}
		for _, sc := range scenarios {
			ref, unstable := alone(sc)
			st := ScenarioStats{Name: sc.Name, Unstable: unstable}
			for r := 0; r < rounds && unstable == ""; r++ {
				bodies := sc.Mk()
				out := make([]string, len(bodies))
				var wg sync.WaitGroup
				start := make(chan struct{})
				for i := range bodies {
					wg.Add(1)
					go func(i int) {
						defer wg.Done()
						<-start
						out[i] = bodies[i]()
					}(i)
				}
				close(start)
				wg.Wait()
				st.Executions++
				for i := range out {
					if out[i] != ref[i] && len(rep.Mismatches) < 4 {
						rep.Mismatches = append(rep.Mismatches, Mismatch{Scenario: sc.Name, Thread: i, Kind: "result", Alone: clip(ref[i]), Got: clip(out[i])})
					}
				}
			}
			rep.Scenarios = append(rep.Scenarios, st)
		}
		json.NewEncoder(os.Stdout).Encode(rep)
	default:
		os.Exit(2)
	}
}
