package refmpt

import (
	"encoding/hex"
	"strings"
	"testing"
)

// Vectors from ethereum/tests TrieTests (trietest.json, trieanyorder.json).
func TestVectors(t *testing.T) {
	cases := []struct {
		kv   map[string]string
		root string
	}{
		{map[string]string{}, "56e81f171bcc55a6ff8345e692c0f86e5b48e01b996cadc001622fb5e363b421"},
		{map[string]string{"A": strings.Repeat("a", 50)}, "d23786fb4a010da3ce639d66d5e904a11dbc02746d1ce25029e53290cabf28ab"},
		{map[string]string{"doe": "reindeer", "dog": "puppy", "dogglesworth": "cat"}, "8aad789dff2f538bca5d8ea56e8abe10f4c7ba3a5dea95fea4cd6e7c3a1168d3"},
		{map[string]string{"do": "verb", "horse": "stallion", "doge": "coin", "dog": "puppy"}, "5991bb8c6514148a29db676a14ac506cd2cd5775ace63c30a4fe457715e9ac84"},
		{map[string]string{"foo": "bar", "food": "bass"}, "17beaa1648bafa633cda809c90c04af50fc8aed3cb40d16efbddee6fdf63c4c3"},
		{map[string]string{"be": "e", "dog": "puppy", "bed": "d"}, "3f67c7a47520f79faa29255d2d3c084a7a6df0453116ed7232ff10277a8be68b"},
		{map[string]string{"test": "test", "te": "testy"}, "8452568af70d8d140f58d941338542f645fcca50094b20f3c3d8c3df49337928"},
	}
	for _, cs := range cases {
		m := map[string][]byte{}
		for k, v := range cs.kv {
			m[k] = []byte(v)
		}
		if got := hex.EncodeToString(Root(m)); got != cs.root {
			t.Errorf("%v: got %s want %s", cs.kv, got, cs.root)
		}
	}
}
