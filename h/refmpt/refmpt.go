// Package refmpt is an independent, deliberately boring reference for the
// Merkle-Patricia-trie commitment of a finite key/value map, written directly
// from the Ethereum Yellow Paper, appendix D (functions HP, c, n and TRIE) with
// its own minimal RLP encoder (appendix B).  It shares no code with /repo; the
// only import is keccak256 from golang.org/x/crypto/sha3.
//
// Keys are arbitrary byte strings (they may be prefixes of one another); values
// are non-empty byte strings (a pair with an empty value is not part of a trie's
// content and is ignored).
package refmpt

import (
	"sort"

	"golang.org/x/crypto/sha3"
)

// Keccak256 of data.
func Keccak256(data []byte) []byte {
	h := sha3.NewLegacyKeccak256()
	h.Write(data)
	return h.Sum(nil)
}

// ---- RLP (appendix B) ----

func beLen(n int) []byte {
	var out []byte
	for ; n > 0; n >>= 8 {
		out = append([]byte{byte(n)}, out...)
	}
	return out
}

// RLPString encodes a byte string.
func RLPString(b []byte) []byte {
	if len(b) == 1 && b[0] < 0x80 {
		return []byte{b[0]}
	}
	if len(b) < 56 {
		return append([]byte{0x80 + byte(len(b))}, b...)
	}
	l := beLen(len(b))
	return append(append([]byte{0xb7 + byte(len(l))}, l...), b...)
}

// RLPList wraps already encoded items into a list.
func RLPList(items ...[]byte) []byte {
	var body []byte
	for _, it := range items {
		body = append(body, it...)
	}
	if len(body) < 56 {
		return append([]byte{0xc0 + byte(len(body))}, body...)
	}
	l := beLen(len(body))
	return append(append([]byte{0xf7 + byte(len(l))}, l...), body...)
}

// ---- hex-prefix encoding (appendix C) ----

// HP encodes a nibble sequence with the terminator flag t.
func HP(nibbles []byte, t bool) []byte {
	f := byte(0)
	if t {
		f = 2
	}
	var out []byte
	if len(nibbles)%2 == 0 {
		out = append(out, 16*f)
	} else {
		out = append(out, 16*(f+1)+nibbles[0])
		nibbles = nibbles[1:]
	}
	for i := 0; i < len(nibbles); i += 2 {
		out = append(out, 16*nibbles[i]+nibbles[i+1])
	}
	return out
}

// ---- trie (appendix D) ----

type pair struct {
	k []byte // nibbles
	v []byte
}

// c is the structural composition function: the RLP of the node that
// represents the pairs J, all of which agree on their first i nibbles.
func c(J []pair, i int) []byte {
	if len(J) == 1 {
		return RLPList(RLPString(HP(J[0].k[i:], true)), RLPString(J[0].v))
	}
	// longest j such that all keys agree on nibbles [0, j)
	j := len(J[0].k)
	for _, p := range J[1:] {
		m := 0
		for m < j && m < len(p.k) && p.k[m] == J[0].k[m] {
			m++
		}
		j = m
	}
	if j > i {
		return RLPList(RLPString(HP(J[0].k[i:j], false)), n(J, j))
	}
	items := make([][]byte, 17)
	for nib := 0; nib < 16; nib++ {
		var sub []pair
		for _, p := range J {
			if len(p.k) > i && int(p.k[i]) == nib {
				sub = append(sub, p)
			}
		}
		items[nib] = n(sub, i+1)
	}
	items[16] = RLPString(nil)
	for _, p := range J {
		if len(p.k) == i {
			items[16] = RLPString(p.v)
		}
	}
	return RLPList(items...)
}

// n is the node cap function: how a parent refers to the node for J.
func n(J []pair, i int) []byte {
	if len(J) == 0 {
		return RLPString(nil)
	}
	enc := c(J, i)
	if len(enc) < 32 {
		return enc
	}
	return RLPString(Keccak256(enc))
}

// EmptyRoot = KEC(RLP(())) = KEC(0x80).
func EmptyRoot() []byte { return Keccak256(RLPString(nil)) }

// Root returns TRIE(content).
func Root(content map[string][]byte) []byte {
	var J []pair
	for k, v := range content {
		if len(v) == 0 {
			continue
		}
		nib := make([]byte, 0, 2*len(k))
		for i := 0; i < len(k); i++ {
			nib = append(nib, k[i]>>4, k[i]&15)
		}
		J = append(J, pair{nib, v})
	}
	if len(J) == 0 {
		return EmptyRoot()
	}
	sort.Slice(J, func(a, b int) bool { return string(J[a].k) < string(J[b].k) })
	return Keccak256(c(J, 0))
}

// ---- canonical shape (coverage bookkeeping only, not part of the oracle) ----

// Node describes one node of the canonical trie of a content.
type Node struct {
	Kind     byte   // 'B' branch, 'E' extension, 'L' leaf
	Path     string // nibbles (one byte each) from the root to the node
	Key      string // nibbles consumed by an extension / leaf
	Size     int    // length of the node's RLP
	Embedded bool   // stored inline in its parent (Size < 32 and not the root)
}

// Shape lists the nodes of the canonical trie of content in pre-order.
func Shape(content map[string][]byte) []Node {
	var J []pair
	for k, v := range content {
		if len(v) == 0 {
			continue
		}
		nib := make([]byte, 0, 2*len(k))
		for i := 0; i < len(k); i++ {
			nib = append(nib, k[i]>>4, k[i]&15)
		}
		J = append(J, pair{nib, v})
	}
	sort.Slice(J, func(a, b int) bool { return string(J[a].k) < string(J[b].k) })
	var out []Node
	shape(J, 0, &out)
	return out
}

func shape(J []pair, i int, out *[]Node) {
	if len(J) == 0 {
		return
	}
	size := len(c(J, i))
	nd := Node{Path: string(J[0].k[:i]), Size: size, Embedded: i > 0 && size < 32}
	if len(J) == 1 {
		nd.Kind, nd.Key = 'L', string(J[0].k[i:])
		*out = append(*out, nd)
		return
	}
	j := len(J[0].k)
	for _, p := range J[1:] {
		m := 0
		for m < j && m < len(p.k) && p.k[m] == J[0].k[m] {
			m++
		}
		j = m
	}
	if j > i {
		nd.Kind, nd.Key = 'E', string(J[0].k[i:j])
		*out = append(*out, nd)
		shape(J, j, out)
		return
	}
	nd.Kind = 'B'
	*out = append(*out, nd)
	for nib := 0; nib < 16; nib++ {
		var sub []pair
		for _, p := range J {
			if len(p.k) > i && int(p.k[i]) == nib {
				sub = append(sub, p)
			}
		}
		shape(sub, i+1, out)
	}
}
