// mkoverlay writes a `go build -overlay` description that instruments the build
// without touching any file on disk:
//
//	mapiter  patched $GOROOT/src/runtime/map.go: the start position of every map
//	         iteration can be chosen by a harness hook (per goroutine)
//	leveldb  middleware/db/leveldb.go: leveldb.OpenFile( -> verifOpenFile( (H2 factory)
//	sched    sched.Point() inserted before every statement of the tx-pool files
//
// A feature whose anchor is not found fails the build (exit 2), never a verdict.
package main

import (
	"encoding/json"
	"flag"
	"fmt"
	"os"
	"os/exec"
	"path/filepath"
	"strings"
)

func die(f string, a ...interface{}) {
	fmt.Fprintf(os.Stderr, "mkoverlay: "+f+"\n", a...)
	os.Exit(2)
}

func main() {
	repo := flag.String("repo", "/repo", "repository root")
	out := flag.String("out", "", "output directory")
	feats := flag.String("features", "", "space separated features")
	flag.Parse()
	if *out == "" {
		die("-out required")
	}
	os.MkdirAll(*out, 0o755)
	replace := map[string]string{}
	for _, f := range strings.Fields(*feats) {
		if strings.HasPrefix(f, "sched=") {
			// sched=<file>[,<file>...]: scheduling points in these repository files instead of the tx-pool files
			if !strings.Contains(" "+*feats+" ", " mapiter ") {
				mapiter(*out, replace)
			}
			schedFiles = strings.Split(strings.TrimPrefix(f, "sched="), ",")
			schedFeature(*repo, *out, replace)
			continue
		}
		switch f {
		case "mapiter":
			mapiter(*out, replace)
		case "leveldb":
			leveldbFeature(*repo, *out, replace)
		case "clock":
			clockFeature(*repo, *out, replace)
		case "sched":
			if !strings.Contains(" "+*feats+" ", " mapiter ") {
				mapiter(*out, replace) // the scheduler needs runtime.VerifGoid
			}
			schedFeature(*repo, *out, replace)
		case "race":
		default:
			die("unknown feature %q", f)
		}
	}
	b, _ := json.MarshalIndent(map[string]interface{}{"Replace": replace}, "", " ")
	if err := os.WriteFile(filepath.Join(*out, "overlay.json"), b, 0o644); err != nil {
		die("%v", err)
	}
}

// schedFiles overrides the default file list of the sched feature.
var schedFiles []string

func goroot() string {
	o, err := exec.Command("go", "env", "GOROOT").Output()
	if err != nil {
		die("go env GOROOT: %v", err)
	}
	return strings.TrimSpace(string(o))
}

func mapiter(out string, replace map[string]string) {
	gr := goroot()
	src := filepath.Join(gr, "src", "runtime", "map.go")
	b, err := os.ReadFile(src)
	if err != nil {
		die("%v", err)
	}
	const anchor = "r := uintptr(rand())\n"
	s := string(b)
	i := strings.Index(s, "func mapiterinit(")
	if i < 0 {
		die("mapiterinit not found in %s", src)
	}
	j := strings.Index(s[i:], anchor)
	if j < 0 {
		die("anchor not found in mapiterinit")
	}
	k := i + j + len(anchor)
	s = s[:k] + "\tif verifMapIterHook != nil && h.count > 1 {\n\t\tr = verifMapIterCall(r, h.count, uint8(h.B))\n\t}\n" + s[k:]
	p := filepath.Join(out, "runtime_map.go")
	os.WriteFile(p, []byte(s), 0o644)
	replace[src] = p
	hook := `package runtime

// Verification overlay: lets the harness decide the start position of map iteration.
var verifMapIterHook func(goid uint64, r uintptr, count int, B uint8) uintptr

func VerifSetMapIterHook(f func(goid uint64, r uintptr, count int, B uint8) uintptr) { verifMapIterHook = f }

func VerifGoid() uint64 { return getg().goid }

func verifMapIterCall(r uintptr, count int, B uint8) uintptr {
	gp := getg()
	if gp.m.curg != gp || gp.m.locks > 0 || gp.m.mallocing != 0 {
		return r
	}
	return verifMapIterHook(gp.goid, r, count, B)
}
`
	hp := filepath.Join(out, "runtime_verif_hook.go")
	os.WriteFile(hp, []byte(hook), 0o644)
	replace[filepath.Join(gr, "src", "runtime", "verif_hook.go")] = hp
}
