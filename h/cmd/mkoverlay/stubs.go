package main

func leveldbFeature(repo, out string, replace map[string]string) {
	die("leveldb feature not built yet")
}
func schedFeature(repo, out string, replace map[string]string) { die("sched feature not built yet") }
