package main

import (
	"os"
	"path/filepath"
	"strings"
)

// rewrite replaces exactly `want` occurrences of old in s.
func rewrite(file, s, old, new string, want int) string {
	if n := strings.Count(s, old); n != want {
		die("%s: anchor %q found %d times, expected %d", file, old, n, want)
	}
	return strings.ReplaceAll(s, old, new)
}

// leveldbFeature routes every physical LevelDB write call of middleware/db through the
// H2 hook functions (verif_storage.go), which notify the harness and then perform the
// identical call.
func leveldbFeature(repo, out string, replace map[string]string) {
	dir := filepath.Join(repo, "src", "middleware", "db")
	if _, err := os.Stat(filepath.Join(dir, "verif_storage.go")); err != nil {
		die("hook file missing: %v", err)
	}
	{
		f := filepath.Join(dir, "leveldb.go")
		b, err := os.ReadFile(f)
		if err != nil {
			die("%v", err)
		}
		s := string(b)
		s = rewrite(f, s, "leveldb.OpenFile(file,", "verifOpenFile(file,", 1)
		s = rewrite(f, s, "db.db.Put(key, value, nil)", "verifPut(db.db, key, value, nil)", 1)
		s = rewrite(f, s, "db.db.Delete(key, nil)", "verifDelete(db.db, key, nil)", 1)
		s = rewrite(f, s, "b.db.Write(b.b, nil)", "verifWrite(b.db, b.b, nil)", 1)
		p := filepath.Join(out, "db_leveldb.go")
		os.WriteFile(p, []byte(s), 0o644)
		replace[f] = p
	}
	{
		f := filepath.Join(dir, "database.go")
		b, err := os.ReadFile(f)
		if err != nil {
			die("%v", err)
		}
		s := string(b)
		s = rewrite(f, s, "b.db.Write(b.b, nil)", "verifWrite(b.db, b.b, nil)", 1)
		p := filepath.Join(out, "db_database.go")
		os.WriteFile(p, []byte(s), 0o644)
		replace[f] = p
	}
	// any other direct write on a *leveldb.DB in the package would escape the hook
	ents, _ := os.ReadDir(dir)
	for _, e := range ents {
		n := e.Name()
		if !strings.HasSuffix(n, ".go") || strings.HasSuffix(n, "_test.go") || n == "leveldb.go" || n == "database.go" || strings.HasPrefix(n, "verif_") {
			continue
		}
		b, _ := os.ReadFile(filepath.Join(dir, n))
		if strings.Contains(string(b), "leveldb.") && (strings.Contains(string(b), ".Write(") || strings.Contains(string(b), ".Put(")) {
			// lru/mem databases do not use leveldb; a new leveldb user must be instrumented
			if strings.Contains(string(b), "*leveldb.DB") {
				die("%s uses *leveldb.DB directly and is not instrumented", n)
			}
		}
	}
}
