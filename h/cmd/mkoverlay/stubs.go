package main

import (
	"os"
	"os/exec"
	"path/filepath"
	"strings"
)

// rewrite replaces exactly `want` occurrences of old in s.
func rewrite(file, s, old, new string, want int) string {
	if n := strings.Count(s, old); n != want {
		die("%s: anchor %q found %d times, expected %d", file, old, n, want)
	}
	return strings.ReplaceAll(s, old, new)
}

// leveldbFeature makes every physical LevelDB write of the process notify the harness first.
// The hook sits inside the pinned goleveldb module itself ((*DB).Put / Delete / Write in
// db_write.go, overlaid from the module cache), so it is independent of how the repository's
// middleware/db package spells its calls: a refactoring or a new call site there can neither
// break the overlay nor escape it.
func leveldbFeature(repo, out string, replace map[string]string) {
	ver := ""
	if b, err := os.ReadFile(filepath.Join(repo, "go.mod")); err == nil {
		for _, l := range strings.Split(string(b), "\n") {
			f := strings.Fields(l)
			for i := 0; i+1 < len(f); i++ {
				if f[i] == "github.com/syndtr/goleveldb" && strings.HasPrefix(f[i+1], "v") {
					ver = f[i+1]
				}
			}
		}
	}
	if ver == "" {
		die("goleveldb version not found in %s/go.mod", repo)
	}
	o, err := exec.Command("go", "env", "GOMODCACHE").Output()
	if err != nil {
		die("go env GOMODCACHE: %v", err)
	}
	dir := filepath.Join(strings.TrimSpace(string(o)), "github.com", "syndtr", "goleveldb@"+ver, "leveldb")
	f := filepath.Join(dir, "db_write.go")
	b, err := os.ReadFile(f)
	if err != nil {
		die("%v", err)
	}
	s := string(b)
	s = rewrite(f, s, "func (db *DB) Write(batch *Batch, wo *opt.WriteOptions) error {\n",
		"func (db *DB) Write(batch *Batch, wo *opt.WriteOptions) error {\n\tif err := verifNotify(db, \"batch\", batch, nil, nil); err != nil {\n\t\treturn err\n\t}\n", 1)
	s = rewrite(f, s, "func (db *DB) Put(key, value []byte, wo *opt.WriteOptions) error {\n",
		"func (db *DB) Put(key, value []byte, wo *opt.WriteOptions) error {\n\tif err := verifNotify(db, \"put\", nil, key, value); err != nil {\n\t\treturn err\n\t}\n", 1)
	s = rewrite(f, s, "func (db *DB) Delete(key []byte, wo *opt.WriteOptions) error {\n",
		"func (db *DB) Delete(key []byte, wo *opt.WriteOptions) error {\n\tif err := verifNotify(db, \"delete\", nil, key, nil); err != nil {\n\t\treturn err\n\t}\n", 1)
	// The hook lives in the replaced file and uses no new import: for module-cache packages the go
	// command takes file lists and import sets from its module index, not from the overlay.
	s += goleveldbHook
	p := filepath.Join(out, "goleveldb_db_write.go")
	os.WriteFile(p, []byte(s), 0o644)
	replace[f] = p
}

const goleveldbHook = `
// VerifWriteHook is called before every Put / Delete / Write of every DB of the process
// (verification overlay only).  path is always "" (kept for the harness's trace format).
// A non-nil result makes the call return that error without writing (injected I/O error).
var VerifWriteHook func(path string, kind string, batch *Batch, key, value []byte) error

func verifNotify(db *DB, kind string, batch *Batch, key, value []byte) error {
	if h := VerifWriteHook; h != nil {
		return h("", kind, batch, key, value)
	}
	return nil
}
`

// clockFeature makes utility.GetTime consult the harness clock (hook H1b, verifClock) first:
// the harness then decides what every single call of the node's clock returns.
func clockFeature(repo, out string, replace map[string]string) {
	f := filepath.Join(repo, "src", "utility", "time.go")
	b, err := os.ReadFile(f)
	if err != nil {
		die("%v", err)
	}
	s := rewrite(f, string(b), "func GetTime() time.Time {\n", "func GetTime() time.Time {\n\tif verifClock != nil {\n\t\treturn verifClock()\n\t}\n", 1)
	p := filepath.Join(out, "utility_time.go")
	os.WriteFile(p, []byte(s), 0o644)
	replace[f] = p
}
