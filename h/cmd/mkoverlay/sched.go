package main

import (
	"go/ast"
	"go/parser"
	"go/token"
	"os"
	"path/filepath"
	"sort"
	"strings"
)

// schedFeature inserts verifsched.Point() before every statement of every function of
// the transaction-pool files (each statement there performs at most one operation on
// a shared, individually atomic container), regenerated from the working tree on
// every build, and adds the tiny virtual package the calls go to.
func schedFeature(repo, out string, replace map[string]string) {
	files := []string{"src/service/transaction_pool.go", "src/service/simple_container.go"}
	if len(schedFiles) > 0 {
		files = schedFiles
	}
	skipFuncs := map[string]bool{"loop": true, "newSimpleContainer": true, "newTransactionPool": true, "initTransactionPool": true}
	total := 0
	for _, rel := range files {
		// <file>#<Func>#<Func>: scheduling points only in the named functions / methods of the file
		var only map[string]bool
		if parts := strings.Split(rel, "#"); len(parts) > 1 {
			rel, only = parts[0], map[string]bool{}
			for _, fn := range parts[1:] {
				only[fn] = true
			}
		}
		f := filepath.Join(repo, rel)
		src, err := os.ReadFile(f)
		if err != nil {
			die("%v", err)
		}
		fset := token.NewFileSet()
		af, err := parser.ParseFile(fset, f, src, parser.ParseComments)
		if err != nil {
			die("parse %s: %v", f, err)
		}
		var offs []int
		type edit struct {
			from, to int
			text     string
		}
		var edits []edit
		add := func(list []ast.Stmt) {
			for _, s := range list {
				switch s.(type) {
				case *ast.CaseClause, *ast.CommClause:
					continue // the body of a switch/select is a block of clauses: no statement may precede `case`
				}
				offs = append(offs, fset.Position(s.Pos()).Offset)
			}
		}
		for _, d := range af.Decls {
			fd, ok := d.(*ast.FuncDecl)
			if !ok || fd.Body == nil || skipFuncs[fd.Name.Name] || (only != nil && !only[fd.Name.Name]) {
				continue
			}
			delete(only, fd.Name.Name)
			// mutex operations go through the scheduler's lock model: a thread parked while
			// holding a real mutex would otherwise block the whole cooperative schedule
			ast.Inspect(fd.Body, func(n ast.Node) bool {
				ce, ok := n.(*ast.CallExpr)
				if !ok || len(ce.Args) != 0 {
					return true
				}
				se, ok := ce.Fun.(*ast.SelectorExpr)
				if !ok || (se.Sel.Name != "Lock" && se.Sel.Name != "Unlock" && se.Sel.Name != "RLock" && se.Sel.Name != "RUnlock") {
					return true
				}
				from, to := fset.Position(ce.Pos()).Offset, fset.Position(ce.End()).Offset
				recv := string(src[fset.Position(se.X.Pos()).Offset:fset.Position(se.X.End()).Offset])
				// read locks are modelled as exclusive (a sound over-approximation of blocking for our
				// scenarios: fewer interleavings of readers, never an impossible one)
				name := strings.TrimPrefix(se.Sel.Name, "R")
				if name == "Unlock" && se.Sel.Name == "RUnlock" {
					name = "RUnlock"
				} else if se.Sel.Name == "RLock" {
					name = "RLock"
				}
				edits = append(edits, edit{from, to, "verifsched." + name + "(&" + recv + ")"})
				return true
			})
			ast.Inspect(fd.Body, func(n ast.Node) bool {
				switch x := n.(type) {
				case *ast.FuncLit:
					// closures run under library iteration (e.g. gmap iteration under its lock): no yield inside, except
					// the age tick's sync.Map.Range callback: Range holds no lock while it calls back, and the window
					// between the tick's read and its store is inside that callback
					return fd.Name.Name == "growRing"
				case *ast.BlockStmt:
					add(x.List)
				case *ast.CaseClause:
					add(x.Body)
				case *ast.CommClause:
					add(x.Body)
				}
				return true
			})
		}
		if len(only) > 0 {
			die("%s: functions not found: %v", f, only)
		}
		if len(offs) < 10 && !(only != nil && len(offs) >= 3) {
			die("%s: only %d statements found", f, len(offs))
		}
		total += len(offs)
		for _, o := range offs {
			edits = append(edits, edit{o, o, "verifsched.Point(); "})
		}
		// apply from the end; at equal offsets the insertion (from==to) goes first in the text
		sort.SliceStable(edits, func(i, j int) bool {
			if edits[i].from != edits[j].from {
				return edits[i].from > edits[j].from
			}
			return edits[i].to > edits[j].to
		})
		s := string(src)
		for _, e := range edits {
			s = s[:e.from] + e.text + s[e.to:]
		}
		// add the import after the package clause
		pk := fset.Position(af.Name.End()).Offset
		s = s[:pk] + "\n\nimport \"com.tuntun.rangers/node/src/verifsched\"\n" + s[pk:]
		p := filepath.Join(out, "sched_"+strings.ReplaceAll(rel, "/", "_"))
		os.WriteFile(p, []byte(s), 0o644)
		replace[f] = p
	}
	pkg := `// Package verifsched exists only inside the verification build overlay.
package verifsched

// Hook is installed by the harness scheduler; nil means free running.
var Hook func()

func Point() {
	if h := Hook; h != nil {
		h()
	}
}

// Locker is what sync.Mutex offers; mutex operations of the instrumented files are
// routed here so that the scheduler can model blocking.
type Locker interface {
	Lock()
	Unlock()
}

var (
	LockHook   func(m Locker)
	UnlockHook func(m Locker)
)

func Lock(m Locker) {
	if h := LockHook; h != nil {
		h(m)
		return
	}
	m.Lock()
}

func Unlock(m Locker) {
	if h := UnlockHook; h != nil {
		h(m)
		return
	}
	m.Unlock()
}

// RWLocker is what sync.RWMutex offers in addition.
type RWLocker interface {
	Locker
	RLock()
	RUnlock()
}

// RLock / RUnlock: under the scheduler a read lock is modelled as the exclusive lock
// (owner bookkeeping by mutex identity); free running they are the real calls.
func RLock(m RWLocker) {
	if h := LockHook; h != nil {
		h(readSide{m})
		return
	}
	m.RLock()
}

func RUnlock(m RWLocker) {
	if h := UnlockHook; h != nil {
		h(readSide{m})
		return
	}
	m.RUnlock()
}

// readSide adapts the read side of an RWMutex to Locker; it is comparable (struct of
// one pointer-shaped interface), and Key() gives the scheduler the mutex identity so
// that reader and writer contend on the same model lock.
type readSide struct{ M RWLocker }

func (r readSide) Lock()            { r.M.RLock() }
func (r readSide) Unlock()          { r.M.RUnlock() }
func (r readSide) Key() interface{} { return r.M }
`
	p := filepath.Join(out, "verifsched.go")
	os.WriteFile(p, []byte(pkg), 0o644)
	replace[filepath.Join(repo, "src", "verifsched", "sched.go")] = p
	os.WriteFile(filepath.Join(out, "sched_points.txt"), []byte(itoa(total)), 0o644)
}

func itoa(n int) string {
	if n == 0 {
		return "0"
	}
	s := ""
	for n > 0 {
		s = string(rune('0'+n%10)) + s
		n /= 10
	}
	return s
}
