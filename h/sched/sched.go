// Package sched is the cooperative scheduler (E5): harness threads are goroutines that
// run one at a time; at every instrumented point the running thread hands control to
// the controller, which asks the explorer which enabled thread continues.  Only links
// with the `sched` overlay feature.
package sched

import (
	"fmt"
	"runtime"

	"com.tuntun.rangers/node/src/verifsched"
)

// Chooser is implemented by fw.Chooser.
type Chooser interface {
	Choose(n int, label string) int
}

type thread struct {
	id        int
	goid      uint64
	wake      chan struct{}
	done      bool
	panic     interface{}
	blockedOn interface{} // key of the mutex the thread waits for (nil = runnable)
}

type event struct {
	t        *thread
	finished bool
}

type Result struct {
	Schedule    []int // thread id chosen at every scheduling point
	Steps       int
	Preemptions int
	Horizon     bool          // the step horizon was hit (livelock guard)
	Deadlock    bool          // unfinished threads, none runnable
	Panics      []interface{} // per thread, nil if none
}

var (
	active  bool
	byGoid  map[uint64]*thread
	parkedC chan event
	owner   map[interface{}]*thread
)

// lockKey: reader and writer side of one RWMutex contend on the same model lock.
func lockKey(m verifsched.Locker) interface{} {
	if k, ok := m.(interface{ Key() interface{} }); ok {
		return k.Key()
	}
	return m
}

// lockPoint models a blocking mutex acquisition: a scheduling point first; while another
// managed thread owns the mutex the caller is not runnable.
func lockPoint(m verifsched.Locker) {
	var t *thread
	if active {
		t = byGoid[runtime.VerifGoid()]
	}
	if t == nil {
		m.Lock()
		return
	}
	k := lockKey(m)
	for {
		if owner[k] != nil {
			t.blockedOn = k
		}
		parkedC <- event{t: t}
		<-t.wake
		if owner[k] == nil {
			t.blockedOn = nil
			owner[k] = t
			m.Lock()
			return
		}
	}
}

func unlockPoint(m verifsched.Locker) {
	if active {
		if t := byGoid[runtime.VerifGoid()]; t != nil && owner[lockKey(m)] == t {
			delete(owner, lockKey(m))
		}
	}
	m.Unlock()
}

func point() {
	if !active {
		return
	}
	t := byGoid[runtime.VerifGoid()]
	if t == nil {
		return // not a harness thread (background goroutine of the node)
	}
	parkedC <- event{t: t}
	<-t.wake
}

// Run executes the thread bodies under the scheduler.  Canonical order of alternatives
// at a point: the running thread first if still enabled, then ascending ids; choice 0 is
// therefore "no preemption".
func Run(bodies []func(), ch Chooser, horizon int) Result {
	if active {
		panic("sched.Run is not re-entrant")
	}
	ths := make([]*thread, len(bodies))
	byGoid = map[uint64]*thread{}
	parkedC = make(chan event)
	ready := make(chan struct{})
	for i := range bodies {
		t := &thread{id: i, wake: make(chan struct{})}
		ths[i] = t
		go func(t *thread, body func()) {
			t.goid = runtime.VerifGoid()
			ready <- struct{}{}
			<-t.wake
			defer func() {
				if r := recover(); r != nil {
					t.panic = r
				}
				parkedC <- event{t: t, finished: true}
			}()
			body()
		}(t, bodies[i])
		<-ready
		byGoid[t.goid] = t
	}
	owner = map[interface{}]*thread{}
	verifsched.Hook = point
	verifsched.LockHook = lockPoint
	verifsched.UnlockHook = unlockPoint
	active = true
	res := Result{Panics: make([]interface{}, len(bodies))}
	running := -1
	for {
		var enabled []int
		runnable := func(t *thread) bool { return !t.done && (t.blockedOn == nil || owner[t.blockedOn] == nil) }
		if running >= 0 && runnable(ths[running]) {
			enabled = append(enabled, running)
		}
		unfinished := 0
		for _, t := range ths {
			if !t.done {
				unfinished++
			}
			if runnable(t) && t.id != running {
				enabled = append(enabled, t.id)
			}
		}
		if len(enabled) == 0 {
			if unfinished > 0 {
				res.Deadlock = true // the blocked goroutines stay parked (leaked); the caller reports it
			}
			break
		}
		if res.Steps >= horizon {
			res.Horizon = true
			// let everything run to completion without further choices
			verifsched.Hook = nil
			verifsched.LockHook = nil
			verifsched.UnlockHook = nil
			active = false
			for _, id := range enabled {
				t := ths[id]
				t.wake <- struct{}{}
				for {
					ev := <-parkedC
					if ev.finished {
						ev.t.done = true
						break
					}
					ev.t.wake <- struct{}{}
				}
			}
			break
		}
		c := 0
		if len(enabled) > 1 {
			c = ch.Choose(len(enabled), "thread")
		}
		next := enabled[c]
		if running >= 0 && runnable(ths[running]) && next != running {
			res.Preemptions++
		}
		running = next
		res.Schedule = append(res.Schedule, next)
		res.Steps++
		ths[next].wake <- struct{}{}
		ev := <-parkedC
		if ev.t != ths[next] {
			panic(fmt.Sprintf("sched: thread %d parked while %d was running", ev.t.id, next))
		}
		if ev.finished {
			ev.t.done = true
			res.Panics[ev.t.id] = ev.t.panic
		}
	}
	verifsched.Hook = nil
	verifsched.LockHook = nil
	verifsched.UnlockHook = nil
	active = false
	return res
}
