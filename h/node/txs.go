package node

import (
	"encoding/json"
	"fmt"
	"time"

	"com.tuntun.rangers/node/src/common"
	"com.tuntun.rangers/node/src/core"
	"com.tuntun.rangers/node/src/middleware/types"
)

// Funded accounts of the dev genesis (10^9 RPG each).
const (
	AcctA = "0x2f4f09b722a6e5b77be17c9a99c785fa7035a09f"
	AcctB = "0x42c8c9b13fc0573d18028b3398a887c4297ff646"
	AcctC = "0x25716527aad0ae1dd24bd247af9232dae78595b0"
	// DevProposer is a proposer registered by the dev genesis block.
	DevProposer = "0x7f88b4f2d36a83640ce5d782a0a20cc2b233de3df2d8a358bf0e7b29e9586a12"
)

// Tx builds a transaction and fills its hash from its content.
func Tx(typ int32, source, target, data, extra string, nonce, requestID uint64, stamp string) *types.Transaction {
	t := &types.Transaction{Source: source, Target: target, Type: typ, Data: data, ExtraData: extra,
		Nonce: nonce, RequestId: requestID, Time: stamp, ChainId: common.ChainId(1 << 40)}
	t.Hash = t.GenHash()
	return t
}

// TransferTx: asset transfer; targets is the JSON object {"addr":{"balance":"1"},...} given verbatim.
func TransferTx(source, targetsJSON string, nonce uint64, stamp string) *types.Transaction {
	return Tx(types.TransactionTypeOperatorEvent, source, "", "", targetsJSON, nonce, 0, stamp)
}

// ContractTx: native contract create (target "") or call.
func ContractTx(typ int32, source, target string, abi []byte, gasLimit uint64, value string, nonce uint64, stamp string) *types.Transaction {
	d := types.ContractData{GasLimit: fmt.Sprint(gasLimit), TransferValue: value, AbiData: common.ToHex(abi)}
	if len(abi) == 0 {
		d.AbiData = ""
	}
	b, _ := json.Marshal(d)
	return Tx(typ, source, target, string(b), "", nonce, 0, stamp)
}

// Header builds a child header of pre with deterministic content (roots are filled by the chain).
func Header(pre *types.BlockHeader, height uint64, qn uint64, pv int64, stamp time.Time) *types.BlockHeader {
	g := core.GetGroupChain().LastGroup()
	h := &types.BlockHeader{
		Height:       height,
		PreHash:      pre.Hash,
		PreTime:      pre.CurTime,
		CurTime:      stamp,
		Castor:       common.FromHex(DevProposer),
		GroupId:      g.Id,
		TotalQN:      pre.TotalQN + qn,
		Nonce:        pre.Nonce,
		Transactions: make([]common.Hashes, 0),
		EvictedTxs:   make([]common.Hash, 0),
		RequestIds:   map[string]uint64{},
		ExtraData:    []byte{},
		Random:       []byte{1},
		Signature:    []byte{1},
	}
	h.ProveValue = newBig(pv)
	for k, v := range pre.RequestIds {
		h.RequestIds[k] = v
	}
	return h
}
