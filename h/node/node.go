// Package node boots the real node core offline inside the current working
// directory (which must be a private scratch directory) with an accept-all
// consensus stub.  Fork configuration is an input (common.LocalChainConfig is exported).
package node

import (
	"fmt"
	"math/big"

	"com.tuntun.rangers/node/src/common"
	"com.tuntun.rangers/node/src/consensus/logical/group_create"
	"com.tuntun.rangers/node/src/core"
	"com.tuntun.rangers/node/src/middleware"
	"com.tuntun.rangers/node/src/middleware/types"
	"com.tuntun.rangers/node/src/service"
	"com.tuntun.rangers/node/src/storage/account"
	"com.tuntun.rangers/node/src/vm"
)

// Stub is the accept-all ConsensusHelper.
type Stub struct{}

func (Stub) GenerateGenesisInfo() []*types.GenesisInfo       { return group_create.GetGenesisInfo() }
func (Stub) VRFProve2Value(p *big.Int) *big.Int              { return new(big.Int).Set(p) }
func (Stub) ProposalBonus() *big.Int                         { return big.NewInt(0) }
func (Stub) PackBonus() *big.Int                             { return big.NewInt(0) }
func (Stub) VerifyHash(b *types.Block) common.Hash           { return common.Hash{} }
func (Stub) CheckProveRoot(*types.BlockHeader) (bool, error) { return true, nil }
func (Stub) VerifyNewBlock(bh, pre *types.BlockHeader) (bool, error) {
	return true, nil
}
func (Stub) VerifyBlockHeader(*types.BlockHeader) (bool, error) { return true, nil }
func (Stub) VerifyGroupSign([]byte, common.Hash, []byte) (bool, error) {
	return true, nil
}
func (Stub) CheckGroup(*types.Group) (bool, error) { return true, nil }
func (Stub) VerifyMemberInfo(bh, pre *types.BlockHeader) (bool, error) {
	return true, nil
}
func (Stub) VerifyGroupForFork(g, pre, parent *types.Group, base *types.Block) (bool, error) {
	return true, nil
}

// ForksAllOn: every proposal active from height 0, except 026 from 1 (the shipped dev
// table lets genesis contract creation run out of gas when 026 is active at height 0)
// and 025 unreachable (as in the shipped dev table's zero value it would be 0; the
// design keeps the dev default for everything not listed).
func ForksAllOn(c *common.ChainConfig) {
	c.Proposal026Block = 1
}

// Configure applies f to the local chain config after common.Init.
var booted bool

// Boot initialises the node services in the current directory.  withCore=false stops
// before core.InitCore (no chain, no genesis block): enough for executors on a
// harness-owned AccountDB.
func Boot(forks func(*common.ChainConfig), withCore bool) error {
	if booted {
		return fmt.Errorf("node already booted in this process")
	}
	booted = true
	common.Init(0, "1.ini", "dev")
	if forks != nil {
		forks(&common.LocalChainConfig)
	}
	account.Init()
	if err := middleware.InitMiddleware(); err != nil {
		return err
	}
	service.InitService()
	vm.InitVM()
	if !withCore {
		return nil
	}
	sk := common.HexStringToSecKey("0x8d3b3b5ca7d0ae0f7b7a2d4b4f6c3a1e5d9c8b7a69584736251403f2e1d0c9b8")
	return core.InitCore(Stub{}, *sk, "0x7f88b4f2d36a83640ce5d782a0a20cc2b233de3df2d8a358bf0e7b29e9586a12")
}

// LatestState opens a fresh AccountDB object at the chain head's state root.
func LatestState() *account.AccountDB {
	top := core.GetBlockChain().TopBlock()
	db, err := middleware.AccountDBManagerInstance.GetAccountDBByHash(top.StateTree)
	if err != nil {
		panic(err)
	}
	return db
}

// StateAt opens a fresh AccountDB object at root.
func StateAt(root common.Hash) *account.AccountDB {
	db, err := middleware.AccountDBManagerInstance.GetAccountDBByHash(root)
	if err != nil {
		panic(err)
	}
	return db
}

// EVMContext builds the vm.Context the contract executor builds for a transaction.
func EVMContext(origin common.Address, height uint64, gasLimit uint64) vm.Context {
	c := vm.Context{}
	c.CanTransfer = vm.CanTransfer
	c.Transfer = vm.Transfer
	c.GetHash = func(n uint64) common.Hash { return common.Hash{} }
	c.Origin = origin
	c.Coinbase = common.Address{}
	c.BlockNumber = new(big.Int).SetUint64(height)
	c.Time = big.NewInt(1700000000)
	c.Difficulty = big.NewInt(123)
	c.GasPrice = big.NewInt(1000000000)
	c.GasLimit = gasLimit
	return c
}

// NewEVM returns an EVM over state as the contract executor creates it.
func NewEVM(state *account.AccountDB, origin common.Address, height uint64, gasLimit uint64) *vm.EVM {
	return vm.NewEVMWithNFT(EVMContext(origin, height, gasLimit), state, state)
}

func newBig(v int64) *big.Int { return big.NewInt(v) }
