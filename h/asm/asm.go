// Package asm is a tiny EVM assembler for harness-built programs.
package asm

import (
	"math/big"

	"com.tuntun.rangers/node/src/vm"
)

type Prog struct {
	b      []byte
	labels map[string]int
	fix    map[int]string // position of a PUSH2 operand -> label
}

func New() *Prog { return &Prog{labels: map[string]int{}, fix: map[int]string{}} }

// Op appends raw opcodes.
func (p *Prog) Op(ops ...vm.OpCode) *Prog {
	for _, o := range ops {
		p.b = append(p.b, byte(o))
	}
	return p
}

// Raw appends raw bytes.
func (p *Prog) Raw(b ...byte) *Prog { p.b = append(p.b, b...); return p }

// Push pushes v with the shortest PUSHn (PUSH1 0 for zero).
func (p *Prog) Push(v interface{}) *Prog {
	var x *big.Int
	switch t := v.(type) {
	case int:
		x = big.NewInt(int64(t))
	case int64:
		x = big.NewInt(t)
	case uint64:
		x = new(big.Int).SetUint64(t)
	case *big.Int:
		x = t
	case []byte:
		x = new(big.Int).SetBytes(t)
	default:
		panic("asm.Push: unsupported type")
	}
	if x.Sign() < 0 {
		x = new(big.Int).Add(x, new(big.Int).Lsh(big.NewInt(1), 256))
	}
	by := x.Bytes()
	if len(by) == 0 {
		by = []byte{0}
	}
	if len(by) > 32 {
		panic("asm.Push: > 32 bytes")
	}
	p.b = append(p.b, byte(vm.PUSH1)+byte(len(by)-1))
	p.b = append(p.b, by...)
	return p
}

// PushN pushes exactly n bytes (left padded).
func (p *Prog) PushN(n int, by []byte) *Prog {
	buf := make([]byte, n)
	copy(buf[n-len(by):], by)
	p.b = append(p.b, byte(vm.PUSH1)+byte(n-1))
	p.b = append(p.b, buf...)
	return p
}

// Label defines a JUMPDEST here.
func (p *Prog) Label(name string) *Prog {
	p.labels[name] = len(p.b)
	return p.Op(vm.JUMPDEST)
}

// PushLabel pushes the (2-byte) address of a label, resolved by Bytes.
func (p *Prog) PushLabel(name string) *Prog {
	p.b = append(p.b, byte(vm.PUSH2))
	p.fix[len(p.b)] = name
	p.b = append(p.b, 0, 0)
	return p
}

func (p *Prog) Len() int { return len(p.b) }

func (p *Prog) Bytes() []byte {
	out := append([]byte{}, p.b...)
	for pos, name := range p.fix {
		a, ok := p.labels[name]
		if !ok {
			panic("asm: undefined label " + name)
		}
		out[pos] = byte(a >> 8)
		out[pos+1] = byte(a)
	}
	return out
}

// MstoreTop stores the top of stack at memory offset off.
func (p *Prog) MstoreAt(off int) *Prog { return p.Push(off).Op(vm.MSTORE) }

// Return returns memory [off, off+size).
func (p *Prog) Return(off, size int) *Prog { return p.Push(size).Push(off).Op(vm.RETURN) }

// Revert reverts with memory [off, off+size).
func (p *Prog) Revert(off, size int) *Prog { return p.Push(size).Push(off).Op(vm.REVERT) }

// Initcode wraps runtime code into init code that deploys it (CODECOPY + RETURN).
func Initcode(runtime []byte) []byte {
	p := New()
	// PUSH2 len, PUSH2 offset, PUSH1 0, CODECOPY, PUSH2 len, PUSH1 0, RETURN
	hdr := 3 + 3 + 2 + 1 + 3 + 2 + 1
	p.PushN(2, []byte{byte(len(runtime) >> 8), byte(len(runtime))})
	p.PushN(2, []byte{byte(hdr >> 8), byte(hdr)})
	p.PushN(1, []byte{0}).Op(vm.CODECOPY)
	p.PushN(2, []byte{byte(len(runtime) >> 8), byte(len(runtime))})
	p.PushN(1, []byte{0}).Op(vm.RETURN)
	if p.Len() != hdr {
		panic("asm.Initcode header size")
	}
	return append(p.Bytes(), runtime...)
}
