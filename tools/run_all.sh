#!/bin/bash
# run_all.sh [tier] [ids...]: runs the checks sequentially, prints exit code, wall time and the summary line
cd "$(dirname "$0")/.." || exit 2
TIER="${1:-quick}"; shift
IDS="$*"; [ -n "$IDS" ] || IDS="C01 C02 C03 C04 C05 C06 C07 C08 C09 C10 C11 C12 C13 C14 C15 C16 C17 C18 C19 C20"
mkdir -p /tmp/runall
for id in $IDS; do
  s=$(date +%s)
  ./check $id $TIER >/tmp/runall/$id.log 2>&1; rc=$?
  e=$(date +%s)
  echo "== $id rc=$rc wall=$((e-s))s :: $(grep -E "^$id (quick|thorough):" /tmp/runall/$id.log | cut -c1-260)"
  grep -E "^(VIOLATION|KNOWN-FINDING|INFRA|violation detail)" /tmp/runall/$id.log | cut -c1-220 | head -12
done
