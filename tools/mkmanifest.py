#!/usr/bin/env python3
"""Regenerates /verif/MANIFEST.json from tools/checks.json (one record per claimed property)
and validates it against the schema. Properties without a record go to not_applicable."""
import json, os, sys
home = os.path.dirname(os.path.dirname(os.path.abspath(__file__)))
tbl = json.load(open(os.path.join(home, 'tools', 'checks.json')))
props = [json.loads(l)['id'] for l in open(os.path.join(home, 'properties.jsonl')) if l.strip()]
checks = []
for pid in props:
    r = tbl['checks'].get(pid)
    if pid not in tbl.get('ready', []):
        continue
    if not r or not os.path.isdir(os.path.join(home, 'h', 'checks', pid.lower())):
        continue
    checks.append({
        "property_id": pid,
        "quick_cmd": "./check %s quick" % pid,
        "thorough_cmd": "./check %s thorough" % pid,
        "evidence_file": "/verif/evidence/%s.json" % pid,
        "replay_cmd_template": "./check %s --replay {path}" % pid,
        "engine": r["engine"],
        "level_claimed": {"category": r["level"], "text": r["text"], "design_ref": r.get("design_ref", "DESIGN.md §4 " + pid)},
        "level_note": r["note"],
        "technique": r["technique"],
    })
claimed = {c["property_id"] for c in checks}
na = [{"property_id": p, "reason": tbl.get("not_applicable", {}).get(p, "check not built yet in this session (see DESIGN.md §4b for the construction order); nothing is claimed")}
      for p in props if p not in claimed]
import subprocess
try:
    hc = subprocess.check_output(["git", "-C", "/repo", "log", "--format=%h", "--grep=^verif hook"], text=True).split()
    tbl["hooks"]["source_commits"] = list(reversed(hc))
except Exception:
    pass
m = {
    "version": 1,
    "setup_cmd": "./setup.sh",
    "hooks": tbl["hooks"],
    "engines": tbl["engines"],
    "checks": checks,
    "notes": tbl.get("notes", ""),
    "not_applicable": na,
}
json.dump(m, open(os.path.join(home, 'MANIFEST.json'), 'w'), indent=1)
try:
    import jsonschema
    jsonschema.validate(m, json.load(open('/root/.vp/MANIFEST.schema.json')))
    print("MANIFEST.json valid;", len(checks), "checks,", len(na), "not_applicable")
except ImportError:
    print("jsonschema not importable; wrote without validation")
