#!/usr/bin/env python3
import json, sys, glob, jsonschema
sch = json.load(open('/root/.vp/EVIDENCE.schema.json'))
bad = 0
for f in sorted(glob.glob('/verif/evidence/C*.json')):
    try:
        e = json.load(open(f)); jsonschema.validate(e, sch)
        c = e['coverage']
        print(f.split('/')[-1], 'ok', e['level'], 'evals', c.get('evaluations'), 'nontriv', c.get('distinct_nontrivial'), 'states', c.get('states'), 'exh', c.get('exhaustive'), 'wall', round(e['wall_s'],1))
    except Exception as ex:
        bad += 1; print(f, 'INVALID', str(ex)[:200])
sys.exit(1 if bad else 0)
