#!/usr/bin/env python3
# mkmutant.py <ID> <n> [hint...]: creates the scratch worktree /tmp/mut-<ID>-<n> of /repo HEAD and prints the prompt for an
# independent mutant sub-agent (property text only; nothing from /verif).
import json,sys,subprocess
ID,n=sys.argv[1],sys.argv[2]; hint=' '.join(sys.argv[3:])
wt='/tmp/mut-%s-%s'%(ID,n); tag='mut-%s-%s'%(ID,n)
subprocess.run(['git','-C','/repo','worktree','add','-q','--detach',wt,'HEAD'],check=True)
subprocess.run(['mkdir','-p',wt+'-out'])
p=[json.loads(l) for l in open('/verif/properties.jsonl') if l.strip()]
p=[x for x in p if x['id']==ID][0]
prop="%s. %s Quantifier: %s. Anchors: %s"%(p['title'],p['statement'],p['quantifier']['text'],', '.join(p['anchors'].get('files',[])))
t=open('/verif/tools/mutant_prompt.md').read()
print(t.replace('{WT}',wt).replace('{TAG}',tag).replace('{PROPERTY}',prop).replace('{HINT}',hint))
