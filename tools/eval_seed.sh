#!/bin/bash
# eval_seed.sh <ID> <n> <seed-name> <demo file (in /tmp/mut-ID-n-out)> <dest path in repo> <go test args...>
# Runs ./check <ID> quick against the mutant worktree, confirms the demonstration both ways, files the seed.
ID="$1"; N="$2"; NAME="$3"; DEMO="$4"; DEST="$5"; shift 5
WT=/tmp/mut-$ID-$N; OUT=/tmp/mut-$ID-$N-out
cd /verif || exit 2
[ -f "$OUT/patch.diff" ] || { echo "no patch"; exit 2; }
( cd $WT && git checkout -q -- src && git apply "$OUT/patch.diff" ) || { echo "patch does not apply"; exit 2; }
echo "### check $ID quick against the mutant"
VERIF_REPO=$WT VERIF_EVIDENCE_DIR=/tmp/mut-ev-$ID VERIF_REPLAY_DIR=/tmp/mut-rp-$ID ./check $ID quick >/tmp/mut-check-$ID.log 2>&1; RC=$?
grep -E "^($ID (quick|thorough):|VIOLATION|violation detail|INFRA|build failed)" /tmp/mut-check-$ID.log | cut -c1-400 | head -12
echo "check exit=$RC"
SIGS=$(grep -oE "violation detail: sig=[^ ]+" /tmp/mut-check-$ID.log | sed 's/violation detail: sig=//' | sort -u | tr '\n' ' ')
echo "### confirm demonstration"
/verif/tools/confirm_seed.sh $WT $OUT/patch.diff $OUT/$DEMO $DEST "$@" 2>&1 | tail -4 | tee /tmp/mut-confirm-$ID.log
CONF=$(tail -1 /tmp/mut-confirm-$ID.log)
D=/verif/seeded/$ID-$NAME; mkdir -p $D
cp $OUT/patch.diff $OUT/$DEMO $D/; [ -f $OUT/notes.md ] && cp $OUT/notes.md $D/
python3 - "$ID" "$RC" "$SIGS" "$CONF" "$D" "$DEMO" "$DEST" "$*" <<'PY'
import json,sys
ID,RC,SIGS,CONF,D,DEMO,DEST,ARGS=sys.argv[1:9]
m={"property":ID,"source":"independent sub-agent (given only the property text and a scratch worktree)",
   "breaks":"see notes.md","needs_to_manifest":"see notes.md",
   "confirmed":{"demo":"cp %s %s && go test -count=1 -vet=off %s -> %s (tools/confirm_seed.sh: PASS without the patch, FAIL with it)"%(DEMO,DEST,ARGS,CONF),
                "build":"go build ./... with the patch (confirm_seed.sh)"},
   "check_exit":int(RC),"detected":int(RC)==1,"detected_by":("./check %s quick -> VIOLATION sigs: %s"%(ID,SIGS)) if int(RC)==1 else "NOT DETECTED by ./check %s quick (exit %s)"%(ID,RC)}
json.dump(m,open(D+"/meta.json","w"),indent=1)
print("filed",D,"detected=",int(RC)==1)
PY
rm -rf /tmp/mut-ev-$ID /tmp/mut-rp-$ID
