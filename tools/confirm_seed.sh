#!/bin/bash
# confirm_seed.sh <worktree> <patch.diff> <demo file> <dest path in repo> <go test args...>
# Confirms a seeded change: with the patch the demonstration FAILS, without it it PASSES, and the tree builds.
set -u
export GOFLAGS=-mod=mod GOPROXY=off GOSUMDB=off GOTOOLCHAIN=local
WT="$1"; PATCH="$2"; DEMO="$3"; DEST="$4"; shift 4
cd "$WT" || exit 2
git checkout -q -- src 2>/dev/null
cp "$DEMO" "$WT/$DEST" || exit 2
echo "== without patch (expect PASS)"
go test -count=1 -vet=off "$@" >/tmp/confirm_wo.log 2>&1; A=$?
tail -3 /tmp/confirm_wo.log
git apply "$PATCH" || { echo "patch does not apply"; exit 2; }
echo "== build with patch"
go build ./... 2>&1 | grep -v sqlite | grep -v '^ *[0-9|]' | head -5
echo "== with patch (expect FAIL)"
go test -count=1 -vet=off "$@" >/tmp/confirm_w.log 2>&1; B=$?
tail -3 /tmp/confirm_w.log
rm -f "$WT/$DEST"
echo "without=$A with=$B"
[ $A -eq 0 ] && [ $B -ne 0 ] && echo CONFIRMED || echo NOT-CONFIRMED
