#!/bin/bash
# reeval_seed.sh <seed-dir-name> [tier]: re-runs the check against a filed seed (scratch worktree, removed afterwards); prints exit code and sigs.
S="$1"; TIER="${2:-quick}"; ID="${S%%-*}"
WT=/tmp/reeval-$S
cd /verif || exit 2
git -C /repo worktree remove --force $WT 2>/dev/null; rm -rf $WT
git -C /repo worktree add -q --detach $WT HEAD || exit 2
( cd $WT && git apply /verif/seeded/$S/patch.diff ) || { echo "$S: patch does not apply to HEAD"; git -C /repo worktree remove --force $WT; exit 2; }
VERIF_REPO=$WT VERIF_EVIDENCE_DIR=/tmp/reeval-ev-$S VERIF_REPLAY_DIR=/tmp/reeval-rp-$S ./check $ID $TIER >/tmp/reeval-$S.log 2>&1; RC=$?
echo "$S: exit=$RC sigs: $(grep -oE "violation detail: sig=[^ ]+" /tmp/reeval-$S.log | sed 's/violation detail: sig=//' | sort -u | tr '\n' ' ')"
[ $RC = 2 ] && grep -E "INFRA|build failed|error" /tmp/reeval-$S.log | head -5
git -C /repo worktree remove --force $WT; git -C /repo worktree prune; rm -rf $WT /tmp/reeval-ev-$S /tmp/reeval-rp-$S
exit $RC
