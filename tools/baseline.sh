#!/bin/bash
# baseline.sh: runs the repository's pinned test command (guard off) on a scratch worktree of /repo HEAD and compares the
# passing set with /root/.vp/BASELINE.json stable_pass.  Scratch is removed afterwards.
export GOFLAGS=-mod=mod GOPROXY=off GOSUMDB=off GOTOOLCHAIN=local
WT=/tmp/baseline-wt; OUT=/tmp/baseline-run.json
git -C /repo worktree remove --force $WT 2>/dev/null; rm -rf $WT
git -C /repo worktree add -q --detach $WT HEAD || exit 2
(cd $WT && go test -mod=mod -json -vet=off -count=1 -timeout 25m ./... > $OUT 2>/tmp/baseline-run.err)
python3 - <<'PY'
import json
base=json.load(open('/root/.vp/BASELINE.json'))
st={}
for line in open('/tmp/baseline-run.json'):
    try: e=json.loads(line)
    except Exception: continue
    if e.get('Test') and e.get('Action') in ('pass','fail','skip'):
        st[e['Package']+'::'+e['Test']]=e['Action']
miss=[t for t in base['stable_pass'] if st.get(t)!='pass']
print("stable_pass=%d passed_now=%d not_passing=%d"%(len(base['stable_pass']),sum(1 for t in base['stable_pass'] if st.get(t)=='pass'),len(miss)))
for t in miss: print("  NOT PASSING:",t,st.get(t))
PY
git -C /repo worktree remove --force $WT; git -C /repo worktree prune; rm -rf $WT
