#!/usr/bin/env python3
"""Writes /verif/seeded/README.md from the meta.json files."""
import json, glob, os
rows=[]
for d in sorted(glob.glob('/verif/seeded/*/')):
    m=os.path.join(d,'meta.json')
    if not os.path.exists(m): continue
    j=json.load(open(m))
    name=os.path.basename(d.rstrip('/'))
    det=j.get('detected', 'detected_by' in j and 'NOT' not in j['detected_by'])
    hist=(j.get('history','') or '')
    if isinstance(hist,list): hist=' ; '.join(hist)
    first='missed' if ('missed' in hist.lower() or not det) else 'caught'
    rows.append((name,j['property'],first,'caught' if det else 'MISSED',j.get('detected_by','')[:200].replace('|','/'),hist[:300].replace('|','/')))
out=["# Seeded property-breaking changes","",
"Each directory holds one change to the repository written by an independent sub-agent that was given only the text of a property and a scratch worktree (nothing from /verif): `patch.diff`, a demonstration that fails with the change and passes without it, `notes.md`, and `meta.json` (what it breaks, what it needs to manifest, what was run). None of them is ever committed to /repo. To re-run: `git -C /repo worktree add --detach /tmp/wt HEAD && git -C /tmp/wt apply <dir>/patch.diff && VERIF_REPO=/tmp/wt VERIF_EVIDENCE_DIR=/tmp/ev VERIF_REPLAY_DIR=/tmp/rp ./check <ID> quick` (tools/eval_seed.sh automates it).","",
"| seed | property | first run | now | violation signatures | what the check lacked (if it was missed at first) |","|---|---|---|---|---|---|"]
for r in rows: out.append("| %s | %s | %s | %s | %s | %s |"%r)
open('/verif/seeded/README.md','w').write("\n".join(out)+"\n")
print(len(rows),"seeds;", sum(1 for r in rows if r[3]=='caught'),"caught now;", sum(1 for r in rows if r[2]=='missed'),"missed at first")
